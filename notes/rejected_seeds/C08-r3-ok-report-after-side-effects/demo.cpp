// Demonstration for property C08:
//   "... a call that throws - from THROW or from a side effect - still counts
//    as handled."
//
// Every call that is accepted by an expectation is announced to the OK
// reporter installed with trompeloeil::set_reporter(reporter, ok_reporter)
// (docs/reference.md, trompeloeil::ok_reporter_func; CookBook "Status OK
// reporting").  A call whose SIDE_EFFECT throws has been accepted and counted
// (it consumes one of the TIMES() of its expectation) exactly like a call
// whose THROW throws, so it must be announced as handled in the same way.
//
// Build:  g++ -std=c++17 -I<include dir> demo.cpp -o demo
// Exit 0: property holds.  Exit 1: property broken (details on stdout).

#include <trompeloeil.hpp>

#include <cstdio>
#include <stdexcept>
#include <string>
#include <vector>

namespace
{
  struct fatal_violation
  {
    std::string msg;
  };

  std::vector<std::string> nonfatal_reports;
  std::vector<std::string> ok_reports;

  struct thrown_by_side_effect
  {
    int id;
  };

  struct thrown_by_throw_clause
  {
    int id;
  };

  struct mock_t
  {
    MAKE_MOCK1(value, int(int));
    MAKE_MOCK1(action, void(int));
  };

  int failures = 0;

  void check(bool cond, const std::string& what)
  {
    if (!cond)
    {
      ++failures;
      std::printf("FAIL: %s\n", what.c_str());
    }
  }

  std::size_t count_ok(const std::string& name)
  {
    std::size_t n = 0;
    for (auto& s : ok_reports)
    {
      if (s == name) ++n;
    }
    return n;
  }
}

int main()
{
  trompeloeil::set_reporter(
    [](trompeloeil::severity s,
       char const* file,
       unsigned long line,
       std::string const& msg)
    {
      std::string full = std::string(file ? file : "") + ":" +
                         std::to_string(line) + "\n" + msg;
      if (s == trompeloeil::severity::fatal)
      {
        throw fatal_violation{full};
      }
      nonfatal_reports.push_back(full);
    },
    [](char const* msg)
    {
      ok_reports.emplace_back(msg);
    });

  try
  {
    // ------------------------------------------------------------------
    // 1. Reference behaviour: ordinary accepted calls and a call that
    //    throws from THROW are all announced as handled.
    // ------------------------------------------------------------------
    {
      mock_t m;
      int effects = 0;
      REQUIRE_CALL(m, value(1))
        .LR_SIDE_EFFECT(++effects)
        .RETURN(_1 + 10);
      REQUIRE_CALL(m, value(2))
        .LR_SIDE_EFFECT(++effects)
        .THROW(thrown_by_throw_clause{2});

      check(m.value(1) == 11, "value(1) returns 11");
      bool got = false;
      try
      {
        m.value(2);
      }
      catch (thrown_by_throw_clause const& e)
      {
        got = e.id == 2;
      }
      check(got, "value(2) delivers the exception of its THROW clause");
      check(effects == 2, "both side effects ran exactly once");
      check(count_ok("m.value(1)") == 1,
            "returning call m.value(1) is announced as handled once");
      check(count_ok("m.value(2)") == 1,
            "call m.value(2) that throws from THROW is announced as handled once");
    }
    check(nonfatal_reports.empty(), "no violation after part 1");
    ok_reports.clear();

    // ------------------------------------------------------------------
    // 2. A call that throws from a SIDE_EFFECT counts as handled:
    //    it uses up one of the TIMES(2), the second side effect and the
    //    RETURN expression are not evaluated, the caller gets that very
    //    exception - and the call is announced as handled like any other.
    // ------------------------------------------------------------------
    {
      mock_t m;
      int first = 0;
      int second = 0;
      int returns = 0;
      auto e = NAMED_REQUIRE_CALL(m, value(3))
        .TIMES(2)
        .LR_SIDE_EFFECT(++first; throw thrown_by_side_effect{first})
        .LR_SIDE_EFFECT(++second)
        .LR_RETURN(++returns);

      for (int round = 1; round <= 2; ++round)
      {
        bool got = false;
        try
        {
          m.value(3);
        }
        catch (thrown_by_side_effect const& x)
        {
          got = x.id == round;
        }
        check(got, "value(3) round " + std::to_string(round) +
                   " delivers the exception of its side effect");
        check(first == round, "throwing side effect ran once per call");
        check(second == 0, "side effect after the throwing one did not run");
        check(returns == 0, "RETURN expression was not evaluated");
        check(e->is_satisfied() == (round == 2),
              "call count after round " + std::to_string(round));
        check(count_ok("m.value(3)") == static_cast<std::size_t>(round),
              "call m.value(3) #" + std::to_string(round) +
              " that throws from a side effect is announced as handled"
              " (OK reports for it so far: " +
              std::to_string(count_ok("m.value(3)")) + ")");
      }
      check(e->is_saturated(), "two throwing calls saturate TIMES(2)");
    }
    check(nonfatal_reports.empty(), "no violation after part 2");
    ok_reports.clear();

    // ------------------------------------------------------------------
    // 3. Same for a void function, with the throwing side effect last and
    //    in an expectation that is handled after a nested (recursive) call.
    // ------------------------------------------------------------------
    {
      mock_t m;
      std::string log;
      REQUIRE_CALL(m, action(0))
        .LR_SIDE_EFFECT(log += "inner;");
      REQUIRE_CALL(m, action(1))
        .LR_SIDE_EFFECT(log += "outer1;")
        .LR_SIDE_EFFECT(m.action(_1 - 1))
        .LR_SIDE_EFFECT(log += "outer3;"; throw std::runtime_error("outer"));

      bool got = false;
      try
      {
        m.action(1);
      }
      catch (std::runtime_error const& x)
      {
        got = std::string(x.what()) == "outer";
      }
      check(got, "action(1) delivers the exception of its last side effect");
      check(log == "outer1;inner;outer3;",
            "side effects ran once each in declaration order, got " + log);
      check(count_ok("m.action(0)") == 1,
            "nested call m.action(0) is announced as handled once");
      check(count_ok("m.action(1)") == 1,
            "call m.action(1) that throws from its last side effect is"
            " announced as handled once");
    }
    check(nonfatal_reports.empty(), "no violation after part 3");
  }
  catch (fatal_violation const& v)
  {
    ++failures;
    std::printf("FAIL: unexpected fatal violation report:\n%s\n", v.msg.c_str());
  }

  for (auto& r : nonfatal_reports)
  {
    std::printf("nonfatal report: %s\n", r.c_str());
  }

  if (failures != 0)
  {
    std::printf("property C08 BROKEN: %d check(s) failed\n", failures);
    return 1;
  }
  std::printf("property C08 holds\n");
  return 0;
}

#include <trompeloeil.hpp>
#include <cstdio>
#include <stdexcept>
#include <string>
#include <vector>

struct M
{
  MAKE_MOCK1(f, void(int));
};

static std::vector<std::string> nonfatal;

static bool has(std::string const& s, char const* sub)
{
  return s.find(sub) != std::string::npos;
}

int main()
{
  trompeloeil::set_reporter(
    [](trompeloeil::severity s, char const*, unsigned long, std::string const& msg)
    {
      if (s == trompeloeil::severity::fatal) throw std::runtime_error(msg);
      nonfatal.push_back(msg);
    });

  int rc = 0;

  // A: call limit given before the sequence; 2 of 3 required calls handled.
  try
  {
    trompeloeil::sequence seq;
    {
      M m;
      REQUIRE_CALL(m, f(7))
        .TIMES(3)
        .IN_SEQUENCE(seq);
      m.f(7);
      m.f(7);
    }
  }
  catch (std::exception const& e)
  {
    std::printf("A: unexpected fatal: %s\n", e.what());
    rc |= 1;
  }
  if (nonfatal.size() != 1
      || !has(nonfatal[0], "m.f(7)")
      || !has(nonfatal[0], "to be called 3 times")
      || !has(nonfatal[0], "actually called 2 times")
      || !has(nonfatal[0], "param  _1 == 7"))
  {
    std::printf("A: expected one shortfall report (3 required, 2 actual), got %zu\n",
                nonfatal.size());
    for (auto& s : nonfatal) std::printf("---\n%s", s.c_str());
    rc |= 2;
  }
  nonfatal.clear();

  // B: optional range given before the sequence; never called -> silent.
  try
  {
    trompeloeil::sequence seq;
    {
      M m;
      auto e = NAMED_REQUIRE_CALL(m, f(1))
        .TIMES(0, 2)
        .IN_SEQUENCE(seq);
      e.reset();
    }
  }
  catch (std::exception const& e)
  {
    std::printf("B: unexpected fatal: %s\n", e.what());
    rc |= 4;
  }
  if (!nonfatal.empty())
  {
    std::printf("B: expected no report, got %zu\n", nonfatal.size());
    for (auto& s : nonfatal) std::printf("---\n%s", s.c_str());
    rc |= 8;
  }
  nonfatal.clear();

  // Control: same limits given after the sequence behave identically.
  {
    trompeloeil::sequence seq;
    {
      M m;
      REQUIRE_CALL(m, f(7))
        .IN_SEQUENCE(seq)
        .TIMES(3);
      m.f(7);
      m.f(7);
    }
  }
  if (nonfatal.size() != 1 || !has(nonfatal[0], "to be called 3 times"))
  {
    std::printf("control failed\n");
    rc |= 16;
  }

  std::printf(rc ? "FAIL rc=%d\n" : "OK\n", rc);
  return rc;
}

// Demonstration for property C08:
//   every SIDE_EFFECT of the handling expectation runs exactly once, in
//   declaration order, and only afterwards RETURN / THROW is evaluated.
//
// The situation: one of the side effects of an accepted call ends the life
// of the mock object the call was made on (a "completion callback deletes
// its owner" pattern). The expectation object itself lives on (it is owned
// by the test), so all of its remaining side effects and its RETURN / THROW
// must still be evaluated - the library does not need the mock object for
// that.
//
// build: g++ -std=c++17 -I<include dir> demo.cpp
// exit 0 = property holds, non-zero = broken (what went wrong is printed)

#include <trompeloeil.hpp>

#include <cstdio>
#include <memory>
#include <stdexcept>
#include <string>
#include <vector>

namespace
{
  struct fatal_report : std::runtime_error
  {
    using std::runtime_error::runtime_error;
  };

  std::vector<std::string> nonfatal;

  struct connection
  {
    MAKE_MOCK1(on_data, int(int));
    MAKE_MOCK0(on_close, void());
  };

  struct closed {};

  int failures = 0;

  void check(bool cond, const std::string& what)
  {
    if (!cond)
    {
      ++failures;
      std::printf("BROKEN: %s\n", what.c_str());
    }
  }

  std::string join(const std::vector<int>& v)
  {
    std::string s;
    for (auto i : v) { s += std::to_string(i); s += ' '; }
    return s;
  }
}

int main()
{
  trompeloeil::set_reporter(
    [](trompeloeil::severity s, const char* file, unsigned long line, const std::string& msg)
    {
      if (s == trompeloeil::severity::fatal)
      {
        throw fatal_report(std::string(file) + ":" + std::to_string(line) + "\n" + msg);
      }
      nonfatal.push_back(msg);
    });

  try
  {
    // 0. ordinary use, the mock object outlives the call
    {
      std::vector<int> log;
      connection c;
      REQUIRE_CALL(c, on_data(3))
        .LR_SIDE_EFFECT(log.push_back(1))
        .LR_SIDE_EFFECT(log.push_back(2))
        .LR_SIDE_EFFECT(log.push_back(3))
        .LR_RETURN((log.push_back(4), _1 * 2));
      int r = c.on_data(3);
      check(r == 6, "case 0: wrong return value " + std::to_string(r));
      check(log == std::vector<int>({1, 2, 3, 4}), "case 0: evaluation order was " + join(log));
    }

    // 1. non-void function, the 2nd of 4 side effects destroys the mock object
    {
      std::vector<int> log;
      auto c = std::make_unique<connection>();
      auto e = NAMED_REQUIRE_CALL(*c, on_data(5))
        .LR_SIDE_EFFECT(log.push_back(1))
        .LR_SIDE_EFFECT(c.reset())
        .LR_SIDE_EFFECT(log.push_back(3))
        .LR_SIDE_EFFECT(log.push_back(4))
        .LR_RETURN((log.push_back(5), _1 + 37));
      int r = c->on_data(5);
      check(r == 42, "case 1: wrong return value " + std::to_string(r));
      check(log == std::vector<int>({1, 3, 4, 5}),
            "case 1: a side effect destroyed the mock object; expected evaluation 1 3 4 5, got " + join(log));
      check(e->is_satisfied() && e->is_saturated(), "case 1: the call was not counted");
    }

    // 2. void function, the first side effect destroys the mock object,
    //    a second side effect and THROW follow
    {
      std::vector<int> log;
      auto c = std::make_unique<connection>();
      auto e = NAMED_REQUIRE_CALL(*c, on_close())
        .LR_SIDE_EFFECT(c.reset())
        .LR_SIDE_EFFECT(log.push_back(2))
        .LR_THROW((log.push_back(3), closed{}));
      bool thrown = false;
      try
      {
        c->on_close();
      }
      catch (closed&)
      {
        thrown = true;
      }
      check(thrown, "case 2: THROW did not reach the caller");
      check(log == std::vector<int>({2, 3}),
            "case 2: a side effect destroyed the mock object; expected evaluation 2 3, got " + join(log));
      check(e->is_satisfied(), "case 2: the throwing call was not counted");
    }

    // 3. same as 1, but the expectation allows several calls and the object
    //    is destroyed by the last side effect but one of the second call
    {
      std::vector<int> log;
      int calls = 0;
      auto c = std::make_unique<connection>();
      auto e = NAMED_ALLOW_CALL(*c, on_data(trompeloeil::_))
        .LR_SIDE_EFFECT(++calls)
        .LR_SIDE_EFFECT(if (calls == 2) c.reset())
        .LR_SIDE_EFFECT(log.push_back(calls))
        .RETURN(_1);
      auto p = c.get();
      int r1 = p->on_data(1);
      int r2 = p->on_data(2);
      check(r1 == 1 && r2 == 2, "case 3: wrong return values");
      check(log == std::vector<int>({1, 2}), "case 3: expected the last side effect in both calls, got " + join(log));
    }
  }
  catch (fatal_report& r)
  {
    ++failures;
    std::printf("BROKEN: unexpected fatal report:\n%s\n", r.what());
  }

  for (auto& m : nonfatal)
  {
    ++failures;
    std::printf("BROKEN: unexpected nonfatal report:\n%s\n", m.c_str());
  }

  if (failures == 0)
  {
    std::puts("OK: all side effects ran once, in order, before RETURN / THROW");
  }
  return failures == 0 ? 0 : 1;
}

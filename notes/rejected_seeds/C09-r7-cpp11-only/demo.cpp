// Demonstration for property C09 in the documented C++11 dialect
// (docs/Backward.md: "The C++11 API", REQUIRE_CALL_V & friends).
//
//   g++ -std=c++11 -I<include dir> demo.cpp -o demo && ./demo
//
// Exits 0 when _1.._15 alias the caller's arguments, non-zero otherwise.
#include <trompeloeil.hpp>

#include <cstdio>
#include <stdexcept>
#include <string>
#include <vector>

using trompeloeil::_;

namespace
{
  struct fatal_report : std::runtime_error
  {
    explicit fatal_report(std::string const& s) : std::runtime_error(s) {}
  };

  std::vector<std::string> nonfatal_reports;
  int failures = 0;

  void check(bool ok, char const* what)
  {
    if (!ok)
    {
      ++failures;
      std::printf("BROKEN: %s\n", what);
    }
  }

  // counts copies, so that "reaches the clause without being copied" can be seen
  struct tracked
  {
    explicit tracked(int v_) : v(v_) {}
    tracked(tracked const& r) : v(r.v) { ++copies; }
    tracked& operator=(tracked const& r) { v = r.v; ++copies; return *this; }
    int v;
    static int copies;
  };
  int tracked::copies = 0;

  struct iface
  {
    virtual ~iface() {}
    virtual void update(long&) = 0;
    virtual int peek(tracked const&) const = 0;
  };

  struct impl_mock : trompeloeil::mock_interface<iface>
  {
    IMPLEMENT_MOCK1(update);
    IMPLEMENT_CONST_MOCK1(peek);
  };

  struct mock
  {
    MAKE_MOCK2(fill, void(int&, std::string&));
    MAKE_MOCK1(through_ptr, void(int*));
    MAKE_CONST_MOCK1(ident, std::string&(std::string&));
    MAKE_MOCK1(sink, void(tracked&&));
    MAKE_MOCK1(over, void(int&));
    MAKE_MOCK1(over, void(std::string&));
    MAKE_MOCK15(wide, void(int&, int&, int&, int&, int&,
                           int&, int&, int&, int&, int&,
                           int&, int&, int&, int&, int&));
  };
}

int main()
{
  trompeloeil::set_reporter([](trompeloeil::severity s,
                               char const* file,
                               unsigned long line,
                               std::string const& msg)
  {
    std::string text = std::string(file) + ":" + std::to_string(line) + "\n" + msg;
    if (s == trompeloeil::severity::fatal)
    {
      throw fatal_report(text);
    }
    nonfatal_reports.push_back(text);
  });

  try
  {
    // 1. write through non-const reference parameters in SIDE_EFFECT
    {
      mock m;
      int n = 1;
      std::string s = "hi";
      REQUIRE_CALL_V(m, fill(_, _),
                     .SIDE_EFFECT(_1 = 42)
                     .SIDE_EFFECT(_2 += "!"));
      m.fill(n, s);
      check(n == 42, "SIDE_EFFECT(_1 = 42) on an int& parameter is not seen by the caller");
      check(s == "hi!", "SIDE_EFFECT(_2 += \"!\") on a std::string& parameter is not seen by the caller");
    }

    // 2. write through a pointer parameter
    {
      mock m;
      int n = 1;
      REQUIRE_CALL_V(m, through_ptr(_),
                     .SIDE_EFFECT(*_1 = 7));
      m.through_ptr(&n);
      check(n == 7, "SIDE_EFFECT(*_1 = 7) on an int* parameter is not seen by the caller");
    }

    // 3. the address of _1 is the address of the caller's object, in WITH and
    //    in SIDE_EFFECT, and a reference returned from a parameter aliases it
    {
      mock m;
      std::string s = "caller";
      void const* in_with = nullptr;
      void const* in_side_effect = nullptr;
      REQUIRE_CALL_V(m, ident(_),
                     .LR_WITH((in_with = &_1, true))
                     .LR_SIDE_EFFECT(in_side_effect = &_1)
                     .RETURN(_1));
      mock const& cm = m;
      std::string* returned = &cm.ident(s);
      check(in_with == &s, "_1 in LR_WITH of a const mock function is not the caller's object");
      check(in_side_effect == &s, "_1 in LR_SIDE_EFFECT of a const mock function is not the caller's object");
      check(returned == &s, "RETURN(_1) from std::string&(std::string&) does not alias the caller's object");
    }

    // 4. an rvalue argument reaches the clauses without being copied
    {
      mock m;
      tracked t(3);
      tracked::copies = 0;
      void const* seen = nullptr;
      REQUIRE_CALL_V(m, sink(_),
                     .WITH(_1.v == 3)
                     .LR_SIDE_EFFECT(seen = &_1)
                     .SIDE_EFFECT(_1.v = 4));
      m.sink(std::move(t));
      check(tracked::copies == 0, "an rvalue argument was copied on its way to the clauses");
      check(seen == &t, "_1 for a tracked&& parameter is not the caller's object");
      check(t.v == 4, "SIDE_EFFECT(_1.v = 4) on a tracked&& parameter is not seen by the caller");
    }

    // 5. overloaded mock functions
    {
      mock m;
      int n = 0;
      std::string s;
      REQUIRE_CALL_V(m, over(ANY(int&)),
                     .SIDE_EFFECT(_1 = 5));
      REQUIRE_CALL_V(m, over(ANY(std::string&)),
                     .SIDE_EFFECT(_1 = "five"));
      m.over(n);
      m.over(s);
      check(n == 5, "SIDE_EFFECT on the int& overload is not seen by the caller");
      check(s == "five", "SIDE_EFFECT on the std::string& overload is not seen by the caller");
    }

    // 6. interface-implementing mock functions, const and non-const
    {
      impl_mock m;
      long l = 0;
      tracked t(9);
      tracked::copies = 0;
      void const* seen = nullptr;
      REQUIRE_CALL_V(m, update(_),
                     .SIDE_EFFECT(_1 = 123L));
      REQUIRE_CALL_V(m, peek(_),
                     .LR_SIDE_EFFECT(seen = &_1)
                     .RETURN(_1.v));
      iface& i = m;
      i.update(l);
      int v = i.peek(t);
      check(l == 123L, "SIDE_EFFECT(_1 = 123L) in an IMPLEMENT_MOCK1 function is not seen by the caller");
      check(v == 9, "RETURN(_1.v) in an IMPLEMENT_CONST_MOCK1 function returned the wrong value");
      check(seen == &t, "_1 for a tracked const& parameter is not the caller's object");
      check(tracked::copies == 0, "a const& argument was copied on its way to the clauses");
    }

    // 7. arity 15: first, middle and last position
    {
      mock m;
      int a[15] = {};
      REQUIRE_CALL_V(m, wide(_,_,_,_,_,_,_,_,_,_,_,_,_,_,_),
                     .SIDE_EFFECT(_1 = 1)
                     .SIDE_EFFECT(_8 = 8)
                     .SIDE_EFFECT(_15 = 15));
      m.wide(a[0], a[1], a[2], a[3], a[4], a[5], a[6], a[7],
             a[8], a[9], a[10], a[11], a[12], a[13], a[14]);
      check(a[0] == 1 && a[7] == 8 && a[14] == 15,
            "SIDE_EFFECT writes to _1, _8, _15 of a 15-ary function are not seen by the caller");
    }

    // 8. plain clauses copy locals, LR_ clauses see them as they are at the call
    {
      mock m;
      int local = 10;
      int n1 = 0;
      int n2 = 0;
      REQUIRE_CALL_V(m, over(ANY(int&)),
                     .WITH(_1 == 0)
                     .SIDE_EFFECT(_1 = local));
      m.over(n1);
      REQUIRE_CALL_V(m, over(ANY(int&)),
                     .WITH(_1 == 0)
                     .LR_SIDE_EFFECT(_1 = local));
      local = 20;
      m.over(n2);
      check(n1 == 10, "SIDE_EFFECT(_1 = local) did not deliver the copy of the local");
      check(n2 == 20, "LR_SIDE_EFFECT(_1 = local) did not deliver the current value of the local");
    }
  }
  catch (fatal_report const& e)
  {
    ++failures;
    std::printf("BROKEN: unexpected fatal report:\n%s\n", e.what());
  }

  for (auto const& r : nonfatal_reports)
  {
    ++failures;
    std::printf("BROKEN: unexpected nonfatal report:\n%s\n", r.c_str());
  }

  if (failures)
  {
    std::printf("%d check(s) failed: property C09 does not hold\n", failures);
    return 1;
  }
  std::puts("property C09 holds");
  return 0;
}

// Demonstration for seeded defect C02 (C++11 dialect only).
//
//   g++ -std=c++11 -I<include dir> demo.cpp -o demo && ./demo
//
// (the flag is in demo.flags).  Exit status 0: property C02 holds.
// Non-zero: a call was handled by an expectation that does not accept it.
//
// Only documented API is used: MAKE_MOCKn, the C++11 expectation macros
// REQUIRE_CALL_V / ALLOW_CALL_V / NAMED_REQUIRE_CALL_V (docs/Backward.md),
// RETURN, LR_SIDE_EFFECT, IN_SEQUENCE, the wildcard _, trompeloeil::gt,
// trompeloeil::sequence, expectation::is_satisfied()/is_saturated() and
// trompeloeil::set_reporter.

#include <trompeloeil.hpp>

#include <cstdio>
#include <memory>
#include <stdexcept>
#include <string>
#include <vector>

#if __cplusplus != 201103L
#error "this demonstration is about the C++11 dialect: compile with -std=c++11 (see demo.flags)"
#endif

using trompeloeil::_;
using trompeloeil::gt;

struct fatal_report : std::runtime_error
{
  explicit fatal_report(std::string const& s) : std::runtime_error(s) {}
};

static std::vector<std::string> nonfatal_reports;
static int failures = 0;

static void fail(std::string const& what)
{
  ++failures;
  std::printf("FAIL: %s\n", what.c_str());
}

static void check(bool ok, char const* what)
{
  if (!ok) fail(what);
}

struct mock
{
  MAKE_MOCK2(two,   int(int, int));
  MAKE_MOCK3(three, int(int, int, int));
  MAKE_MOCK5(five,  int(int, int, int, int, int));
};

// calls obj.three(a,b,c); a fatal report becomes -1
static int call3(mock& obj, int a, int b, int c)
{
  try { return obj.three(a, b, c); }
  catch (fatal_report const& e)
  {
    std::printf("  fatal report for three(%d,%d,%d):\n%s\n", a, b, c, e.what());
    return -1;
  }
}

int main()
{
  trompeloeil::set_reporter([](trompeloeil::severity s,
                               char const* file,
                               unsigned long line,
                               std::string const& msg)
  {
    if (s == trompeloeil::severity::fatal)
    {
      throw fatal_report(std::string(file) + ':' + std::to_string(line) + '\n' + msg);
    }
    nonfatal_reports.push_back(msg);
  });

  // 0. control: two parameters.
  {
    mock m;
    ALLOW_CALL_V(m, two(1, _), .RETURN(10));
    auto newer = NAMED_REQUIRE_CALL_V(m, two(1, 2), .RETURN(20));
    check(m.two(1, 9) == 10, "two(1,9) must be handled by the older two(1,_)");
    check(!newer->is_satisfied(), "two(1,2) must not be counted for the call two(1,9)");
    check(m.two(1, 2) == 20, "two(1,2) must be handled by the newer two(1,2)");
    check(newer->is_saturated(), "two(1,2) must be saturated after its call");
  }

  // 1. exact values, three parameters, overlapping in the first two.
  //    The newest expectation that ACCEPTS the call has to handle it and
  //    no other expectation may be counted or run.
  {
    mock m;
    int older_runs = 0;
    int newer_runs = 0;
    ALLOW_CALL_V(m, three(1, 2, 9),
                 .LR_SIDE_EFFECT(++older_runs) .RETURN(90));
    auto newer = NAMED_REQUIRE_CALL_V(m, three(1, 2, 3),
                 .LR_SIDE_EFFECT(++newer_runs) .RETURN(30));

    int r = call3(m, 1, 2, 9);
    check(r == 90, "three(1,2,9) must return 90 from the older expectation three(1,2,9)");
    check(older_runs == 1, "side effect of three(1,2,9) must have run once");
    check(newer_runs == 0, "side effect of three(1,2,3) must not run for the call three(1,2,9)");
    check(!newer->is_satisfied(), "three(1,2,3) must not be counted for the call three(1,2,9)");

    r = call3(m, 1, 2, 3);
    check(r == 30, "three(1,2,3) must return 30 from the newer expectation three(1,2,3)");
    check(newer_runs == 1, "side effect of three(1,2,3) must have run exactly once");
    check(newer->is_saturated(), "three(1,2,3) must be saturated after its own call");
    check(older_runs == 1, "side effect of three(1,2,9) must not run for the call three(1,2,3)");
  }

  // 2. wildcards and a relational matcher in the last position, the newer
  //    expectation in a sequence, a second object that must stay untouched.
  {
    mock a;
    mock b;
    trompeloeil::sequence seq;
    auto other = NAMED_REQUIRE_CALL_V(b, three(_, _, gt(5)), .RETURN(3));
    ALLOW_CALL_V(a, three(_, _, _), .RETURN(1));
    auto newer = NAMED_REQUIRE_CALL_V(a, three(_, _, gt(5)),
                                      .RETURN(2) .IN_SEQUENCE(seq));

    check(call3(a, 0, 0, 1) == 1, "a.three(0,0,1) must be handled by a.three(_,_,_): 1 is not > 5");
    check(!newer->is_satisfied(), "a.three(_,_,gt(5)) must not be counted for a.three(0,0,1)");
    check(!seq.is_completed(), "the sequence must not have advanced for a.three(0,0,1)");
    check(call3(a, 0, 0, 6) == 2, "a.three(0,0,6) must be handled by the newer a.three(_,_,gt(5))");
    check(newer->is_saturated(), "a.three(_,_,gt(5)) must be saturated after a.three(0,0,6)");
    check(seq.is_completed(), "the sequence must be completed after a.three(0,0,6)");
    check(!other->is_satisfied(), "the expectation on object b must not be touched by calls on a");
    check(call3(b, 0, 0, 7) == 3, "b.three(0,0,7) must be handled by b's own expectation");
  }

  // 3. five parameters: a call that no expectation accepts must be
  //    reported as fatal, not handled.
  {
    mock m;
    int runs = 0;
    auto only = NAMED_REQUIRE_CALL_V(m, five(1, 2, 3, 4, 5),
                                     .LR_SIDE_EFFECT(++runs) .RETURN(5));
    bool reported = false;
    int r = 0;
    try { r = m.five(1, 2, 3, 4, 6); }
    catch (fatal_report const&) { reported = true; }
    check(reported, "five(1,2,3,4,6) matches no expectation and must give a fatal report");
    if (!reported) std::printf("  five(1,2,3,4,6) returned %d instead\n", r);
    check(runs == 0, "side effect of five(1,2,3,4,5) must not run for five(1,2,3,4,6)");
    check(!only->is_satisfied(), "five(1,2,3,4,5) must not be counted for five(1,2,3,4,6)");
    try { r = m.five(1, 2, 3, 4, 5); } catch (fatal_report const&) { r = -1; }
    check(r == 5, "five(1,2,3,4,5) must be handled by its expectation");
    check(runs == 1, "side effect of five(1,2,3,4,5) must run exactly once");
  }

  for (auto const& msg : nonfatal_reports)
  {
    fail("unexpected nonfatal report:\n" + msg);
  }

  if (failures == 0)
  {
    std::printf("OK: property C02 holds\n");
    return 0;
  }
  std::printf("%d check(s) failed: property C02 is broken\n", failures);
  return 1;
}

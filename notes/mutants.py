#!/usr/bin/env python3
"""Sensitivity pass (development tool, not a registered check).

Plants each hand-written mutant in a scratch git worktree of /repo (under /tmp, removed
afterwards), runs the quick tier of the listed properties against it with evidence and found
replays diverted to build/scratch, and appends one line per (mutant, property) to
build/scratch/mutants.log.   usage: notes/mutants.py [name-prefix ...]"""
import os, subprocess, sys, time

V = os.path.dirname(os.path.dirname(os.path.abspath(__file__)))
M = "include/trompeloeil/mock.hpp"
S = "include/trompeloeil/sequence.hpp"
L = "include/trompeloeil/lifetime.hpp"

MUTANTS = [
 # name, file, old, new, properties expected to fail
 ("c01-find-nomatchcheck", M, "      if (i.matches(p))\n      {\n        unsigned cost = i.sequence_cost();", "      if (true)\n      {\n        unsigned cost = i.sequence_cost();", ["C01"]),
 ("c02-hook-pushback", M, "      list.push_front(this);\n      return this;", "      list.push_back(this);\n      return this;", ["C02", "C01"]),
 ("c02-tie-le", M, "if (!first_match || cost < lowest_cost)", "if (!first_match || cost <= lowest_cost)", ["C02"]),
 ("c02-ignore-cost", M, "        unsigned cost = i.sequence_cost();\n        if (cost == 0)", "        unsigned cost = i.sequence_cost() == ~0U ? ~0U : 0U;\n        if (cost == 0)", ["C02"]),
 ("c02-order-first-seq-only", S, "        if (cost > highest_order) {", "        if (highest_order == 0U) {", ["C02", "C05"]),
 ("c03-satisfied-gt", M, "      return call_count >= min_calls;", "      return call_count > min_calls || min_calls == 0;", ["C03"]),
 ("c03-rt-times-nocheck", M, "      if (bounds.high < bounds.low)\n      {", "      if (false)\n      {", ["C03"]),
 ("c03-saturated-stays-active", M, "          sequences->retire();\n          this->unlink();\n          saturated_list.push_back(this);", "          sequences->retire();", ["C03", "C01"]),
 ("c04-listed-not-marked", M, "      reported = true;\n      report_signature(os);\n      if (match_parameters(val, params))", "      report_signature(os);\n      if (match_parameters(val, params))", ["C04"]),
 ("c04-mockdeath-reports-satisfied", M, "    mock_destroyed()\n    override\n    {\n      if (is_unfulfilled())", "    mock_destroyed()\n    override\n    {\n      if (!reported && this->is_linked())", ["C04"]),
 ("c04-double-report", M, "      return !reported && this->is_linked() && !sequences->is_satisfied();", "      return !sequences->is_satisfied();", ["C04"]),
 ("c05-cost-ignores-unsatisfied", S, "      if (!e.is_satisfied())\n      {\n        return ~0U;\n      }\n      ++sequence_cost;", "      ++sequence_cost;", ["C05"]),
 ("c05-retire-until-off-by-one", S, "      if (first == m) return;\n      first->retire();", "      first->retire();\n      if (first == m) return;", ["C05", "C06"]),
 ("c06-completed-any", S, "      if (!matcher.is_satisfied())\n      {\n        return false;\n      }\n    }\n    return true;", "      if (matcher.is_satisfied())\n      {\n        return true;\n      }\n    }\n    return matchers.empty();", ["C06"]),
 ("c06-no-retire-on-saturation", M, "          sequences->retire();\n          this->unlink();\n          saturated_list.push_back(this);", "          this->unlink();\n          saturated_list.push_back(this);", ["C06", "C05"]),
 ("c06-dtor-keeps-handles", M, "      sequences->retire();\n      this->unlink();\n    }\n\n    bool\n    is_satisfied()", "      this->unlink();\n    }\n\n    bool\n    is_satisfied()", []),  # equivalent single-threaded: member destructors unlink
 ("c07-forbid-counts", M, "        reported = true;\n        report_forbidden_call(name, loc, params_string(params));", "        reported = true;\n        sequences->increment_call();\n        report_forbidden_call(name, loc, params_string(params));", ["C07"]),
 ("c07-forbid-wrong-location", M, "    send_report<specialized>(severity::fatal, loc, os.str());\n  }\n\n  template <typename Sig>\n  struct matcher_info", "    send_report<specialized>(severity::fatal, location{}, os.str());\n  }\n\n  template <typename Sig>\n  struct matcher_info", ["C07", "C15"]),
 ("c07-forbid-unlinked-after-hit", M, "        reported = true;\n        report_forbidden_call(name, loc, params_string(params));", "        reported = true;\n        this->unlink();\n        report_forbidden_call(name, loc, params_string(params));", ["C07"]),
 ("c08-effects-reversed", M, "      actions.push_back(effect);", "      actions.push_front(effect);", ["C08"]),
 ("c08-conditions-reversed", M, "      conditions.push_back(cond);", "      conditions.push_front(cond);", ["C08"]),
 ("c08-no-shortcircuit", M, "      for (auto& c : conditions)\n      {\n        if (!c.check(params)) return false;\n      }\n      return true;", "      bool rv = true;\n      for (auto& c : conditions)\n      {\n        if (!c.check(params)) rv = false;\n      }\n      return rv;", ["C08"]),
 ("c08-count-after-actions", M, "      send_ok_report<specialized>(name);\n      for (auto& a : actions) a.action(params);", "      for (auto& a : actions) a.action(params);\n      send_ok_report<specialized>(name);", []),  # OK report position is not part of any property
 ("c13-notify-only-newest", L, "    for (auto m = trompeloeil_lifetime_monitor.leak(); m; m = m->older)\n    {\n      m->notify();\n    }", "    trompeloeil_lifetime_monitor->notify();", ["C13"]),
 ("c13-copy-inherits", M, "    null_on_move(\n      null_on_move const&)\n    noexcept\n    {}", "    null_on_move(\n      null_on_move const& r)\n    noexcept\n    : p(r.p) {}", ["C13", "C14"]),
 ("c14-decommission-no-unlink", M, "        m.mock_destroyed();\n        m.unlink();", "        m.mock_destroyed();", ["C14"]),
 ("c15-unfulfilled-fatal", M, "    os << values;\n    send_report<specialized>(severity::nonfatal, loc, os.str());", "    os << values;\n    send_report<specialized>(severity::fatal, loc, os.str());", ["C15"]),
 ("c15-mismatch-prints-matching", M, "    if (!::trompeloeil::param_matches(v, p))\n    {\n      auto prefix", "    if (::trompeloeil::param_matches(v, p))\n    {\n      auto prefix", ["C15"]),
 ("c15-last-failing-with", M, "            os << \"\\n  Failed WITH(\" << cond.name() << ')';\n            break;", "            os << \"\\n  Failed WITH(\" << cond.name() << ')';", ["C15"]),
 ("c15-listing-saturated-also-live", M, "    if (!saturated_match)\n    {\n      for (auto& m : matcher_list)", "    {\n      for (auto& m : matcher_list)", ["C15"]),
 ("c16-ok-twice", M, "      send_ok_report<specialized>(name);\n      for (auto& a", "      send_ok_report<specialized>(name);\n      send_ok_report<specialized>(name);\n      for (auto& a", ["C16"]),
 ("c16-set-reporter-returns-new", M, "    return detail::exchange(reporter_obj(), std::move(f));", "    reporter_obj() = f;\n    return f;", ["C16"]),
 ("c17-tracer-restores-null", M, "      if (*p) *p = previous;", "      if (*p) *p = nullptr;", ["C17"]),
 ("c17-exception-silent", M, "          os << \"threw exception: what() = \" << e.what() << '\\n';", "          (void)e;", ["C17"]),
 ("c17-trace-in-ctor", M, "        os << name_ << \" with.\\n\";\n      }", "        os << name_ << \" with.\\n\";\n        t->trace(loc.file, loc.line, os.str());\n      }", ["C17"]),
 ("c14-seq-outlived-raw-pointer", S, "    std::shared_ptr<sequence_type> seq;", "    sequence_type* seq;", ["C14"]),  # = revert of 990e553 (needs the second edit below)
]

EXTRA = {
 "c14-seq-outlived-raw-pointer": [("      , seq(i.second.obj)", "      , seq(i.second.obj.get())")],
}

def run(cmd, **kw):
    return subprocess.run(cmd, shell=True, stdout=subprocess.PIPE, stderr=subprocess.STDOUT, text=True, **kw)

def main():
    sel = sys.argv[1:]
    os.makedirs(os.path.join(V, "build", "scratch"), exist_ok=True)
    log = open(os.path.join(V, "build", "scratch", "mutants.log"), "a")
    for name, f, old, new, props in MUTANTS:
        if sel and not any(name.startswith(s) for s in sel):
            continue
        if not props:
            continue
        wt = "/tmp/mutwt.%d" % os.getpid()
        run("git -C /repo worktree remove --force %s; rm -rf %s" % (wt, wt))
        r = run("git -C /repo worktree add --detach -f %s HEAD" % wt)
        try:
            p = os.path.join(wt, f)
            s = open(p).read()
            if s.count(old) != 1:
                log.write("MUTANT %s NOT-APPLIED (pattern occurs %d times)\n" % (name, s.count(old)))
                log.flush()
                continue
            s = s.replace(old, new)
            for o2, n2 in EXTRA.get(name, []):
                assert s.count(o2) == 1, (name, o2)
                s = s.replace(o2, n2)
            open(p, "w").write(s)
            for prop in props:
                t0 = time.time()
                env = dict(os.environ, VERIF_REPO=wt, VERIF_SCRATCH="1", VERIF_BUILD_TAG="mut%d" % os.getpid())
                r = run("bin/check %s --tier quick" % prop, cwd=V, env=env)
                viol = [l for l in r.stdout.splitlines() if l.startswith("VIOLATION")]
                detail = ""
                if viol:
                    i = r.stdout.splitlines().index(viol[0])
                    detail = " | ".join(r.stdout.splitlines()[i:i + 2])[:300]
                log.write("MUTANT %s %s rc=%d violations=%d time=%ds %s\n" % (name, prop, r.returncode, len(viol), time.time() - t0, detail))
                log.flush()
        finally:
            run("git -C /repo worktree remove --force %s; rm -rf %s %s" % (wt, wt, os.path.join(V, "build", "alt-mut%d" % os.getpid())))

if __name__ == "__main__":
    main()

#!/usr/bin/env python3
"""Development tool (not a check): which executable lines of /repo/include do the run-time engines reach?

Builds the clang++ targets of lib/vbuild.py with source-based coverage instead of sanitizers (scratch directory under
/tmp, removed afterwards unless --keep), runs the quick-tier jobs of every property through them, merges the profiles
and prints, per header, the lines that no engine executed. The compile-time engines (K, and the programs P generates)
are not measured. Used to look for parts of the library that no generated history can reach.

usage: python3 notes/coverage.py [--scale 0.25] [--keep] [--out notes/coverage_uncovered.txt]
"""
import argparse, json, os, shutil, subprocess, sys
from concurrent.futures import ThreadPoolExecutor

V = os.path.dirname(os.path.dirname(os.path.abspath(__file__)))
sys.path.insert(0, os.path.join(V, "lib"))
SCR = "/tmp/vcov"

def main():
    ap = argparse.ArgumentParser()
    ap.add_argument("--scale", type=float, default=0.25, help="fraction of the quick tier's case counts")
    ap.add_argument("--keep", action="store_true")
    ap.add_argument("--out", default=os.path.join(V, "notes", "coverage_uncovered.txt"))
    a = ap.parse_args()
    shutil.rmtree(SCR, ignore_errors=True)
    os.makedirs(SCR + "/prof"); os.makedirs(SCR + "/run")
    import vbuild, vprops
    vbuild.BUILD = SCR + "/build"
    cov = "-fprofile-instr-generate -fcoverage-mapping"
    for t in vbuild.TARGETS.values():
        if t["cxx"] == "clang++" and "fuzzer" not in t["flags"]:
            t["flags"] = cov
            t["link_flags"] = cov + (" -pthread" if "threads/" in str(t["srcs"]) else "")
    vbuild.COMMON = "-g -O0 -Wno-deprecated-declarations -pthread"
    exes, cmds = {}, []
    for prop, spec in vprops.PROPS.items():
        for job in spec["jobs"]:
            tgt = job.get("target")
            if not tgt or tgt not in vbuild.TARGETS or vbuild.TARGETS[tgt]["cxx"] != "clang++" or "fuzzer" in vbuild.TARGETS[tgt]["flags"] + tgt:
                continue
            if tgt not in exes:
                print("building", tgt, flush=True)
                exes[tgt] = vbuild.build(tgt, quiet=True)
            for n, inst in enumerate(job["instances"]("quick")):
                if "cases" in inst:
                    inst = dict(inst, cases=max(50, int(inst["cases"] * a.scale)))
                rd = "%s/run/%s.%s.%d" % (SCR, prop, job["name"].replace("/", "_").replace(" ", "_"), n)
                os.makedirs(rd, exist_ok=True)
                c, env = job["cmd"](exes[tgt], prop, "quick", 1, inst, rd + "/out.json", rd, [])
                cmds.append((c, env, rd))
    print("running %d jobs" % len(cmds), flush=True)
    def run(x):
        c, env, rd = x
        e = dict(os.environ); e.update(env); e["LLVM_PROFILE_FILE"] = SCR + "/prof/%p.profraw"
        r = subprocess.run(c, env=e, stdout=subprocess.PIPE, stderr=subprocess.STDOUT, text=True, timeout=3600)
        return r.returncode
    with ThreadPoolExecutor(max_workers=12) as ex:
        rcs = list(ex.map(run, cmds))
    print("exit codes:", sorted(set(rcs)), flush=True)
    subprocess.run("llvm-profdata merge -sparse %s/prof/*.profraw -o %s/all.profdata" % (SCR, SCR), shell=True, check=True)
    objs = list(exes.values())
    objarg = objs[0] + "".join(" -object " + o for o in objs[1:])
    r = subprocess.run("llvm-cov export -format=lcov -instr-profile=%s/all.profdata %s /repo/include" % (SCR, objarg), shell=True,
                       stdout=subprocess.PIPE, stderr=subprocess.PIPE, text=True)
    # lcov: SF:<file> / DA:<line>,<count>
    files, cur, branches, curb = {}, None, {}, None
    for l in r.stdout.splitlines():
        if l.startswith("SF:"):
            cur = files.setdefault(l[3:], {})
            curb = branches.setdefault(l[3:], {})
        elif l.startswith("DA:") and cur is not None:
            ln, cnt = l[3:].split(",")[:2]
            cur[int(ln)] = max(cur.get(int(ln), 0), int(cnt))
        elif l.startswith("BRDA:") and curb is not None:
            ln, blk, br, taken = l[5:].split(",")
            k = (int(ln), int(br) % 2)      # true / false side of a condition on that line (summed over instantiations)
            curb[k] = curb.get(k, 0) + (0 if taken in ("-", "0") else int(taken))
    out = []
    tot = hit = 0
    for f in sorted(files):
        d = files[f]
        tot += len(d); hit += sum(1 for v in d.values() if v)
        miss = sorted(k for k, v in d.items() if not v)
        out.append("%s: %d of %d executable lines reached" % (f, len(d) - len(miss), len(d)))
        src = open(f, errors="replace").read().splitlines()
        # group consecutive lines
        i = 0
        while i < len(miss):
            j = i
            while j + 1 < len(miss) and miss[j + 1] == miss[j] + 1:
                j += 1
            out.append("  %d-%d: %s" % (miss[i], miss[j], src[miss[i] - 1].strip()[:110]))
            i = j + 1
        b = branches.get(f, {})
        for (ln, side) in sorted(k for k, v in b.items() if v == 0 and d.get(k[0], 0)):
            out.append("  branch never %s at %d: %s" % ("taken" if side == 0 else "skipped", ln, src[ln - 1].strip()[:100]))
    out.insert(0, "run-time engines reach %d of %d executable lines of /repo/include (scale %.2f of the quick tier)" % (hit, tot, a.scale))
    open(a.out, "w").write("\n".join(out) + "\n")
    print(out[0])
    if not a.keep:
        shutil.rmtree(SCR, ignore_errors=True)

if __name__ == "__main__":
    main()

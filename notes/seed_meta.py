#!/usr/bin/env python3
"""Writes seeded/<id>/meta.json from the table below + the results logged by bin/seedcheck
(build/scratch/seeds*.log). Development tool."""
import glob, json, os, re
V = os.path.dirname(os.path.dirname(os.path.abspath(__file__)))
T = {
 "C01-multiseq-partial-retire": ("C01", "an expectation IN_SEQUENCE(s1, s2) called while s2 forbids it and s1 permits it: the (correctly rejected) call retires its predecessors in s1; only a later call to such a predecessor shows the damage", "C01 (after adding the 'seq' profile to its quick tier), C05"),
 "C02-tie-older-wins": ("C02", "two matching candidates with the same non-zero sequence cost (each behind skippable pending steps in different sequences): the older one wins the tie", "C02 (label calls_tie_on_cost)"),
 "C03-forbid-once-reported": ("C03", "a forbidding expectation whose 'reported' flag is already set (second hit, or listed in an earlier no-match report): later hits are silently accepted", "C03, C07 (also C01)"),
 "C04-mockdeath-ignores-reported": ("C04", "an unsatisfied expectation named in an earlier no-match listing whose mock is destroyed before it is released: reported a second time", "C04"),
 "C05-notify-restructure": ("C05", "an out-of-sequence monitored destruction followed by a call to one of its predecessors: the predecessors were not retired, the call is accepted", "C05 (patch rebased onto 574fb70)"),
 "C06-retire-when-satisfied": ("C06", "successor with lower bound >= 2 matched once after a satisfied-but-unsaturated predecessor: predecessor still listed at sequence teardown / accepted again (equals the revert of fix 625205b)", "C06, C05, C02"),
 "C07-forbid-once-reported": ("C07", "same change as C03-forbid-once-reported, demonstrated on FORBID_CALL stacked over ALLOW_CALL and RT_TIMES(0) with side effects", "C07, C01"),
 "C08-return-moves-from-lvalue": ("C08", "by-value return of a move-sensitive type (std::string, std::vector) whose RETURN expression is a non-const lvalue: the user's object is moved from; visible on the second call or by reading the object", "C08 through engine C8 (added after this seed: by-value string/vector returns of lvalues; engine W only returns int)"),
 "C12-dtor-skips-retire-when-unlinked": ("C12", "sequenced expectation whose mock object is destroyed before the expectation is released, while another thread walks the same sequence: handles unlinked outside the lock (data race)", "C12 mode A under TSan (after adding a sequenced expectation on the thread-private mock to engine T)"),
 "C13-monitor-unlink-one-step": ("C13", ">= 3 destruction requirements on one object and the third-newest or older one released first: younger ones cut out of the chain, never notified, later use-after-free", "C13, C14 (after raising the monitor slots per object from 2 to 3)"),
 "C14-monitor-unlink-one-step": ("C14", "same change as C13-monitor-unlink-one-step (independently produced)", "C14, C13"),
 "C15-no-pending-always-fatal": ("C15", "REQUIRE_DESTRUCTION in a sequence whose sequence object was destroyed first, then the object dies: the 'no more pending expectations' report is sent with severity fatal from a destructor", "C15 (after the severity rule was also applied to the unchecked/degraded part of a history)"),
 "C16-ok-skipped-when-reported": ("C16", "an expectation listed as 'Tried' in an earlier no-match report later accepts a call: no OK report", "C16"),
 "C17-shared-trace-buffer": ("C17", "an accepted call whose side effect makes another accepted call while a tracer is alive: the outer record carries the inner call's text and arguments", "C17"),
 "C09-return-13th-by-copy": ("C09", "arity >= 13, RETURN/LR_RETURN using _13: a copy instead of the caller's object (aliasing / write-through lost; move-only 13th parameter no longer compiles)", "C09 (replay seed-arity15-all-modes no longer compiles / FAIL lines)"),
 "C10-re-empty-string-rejected": ("C10", "re(p) on an empty non-null string with a pattern that matches the empty sequence", "C10"),
 "C11-includes-collection-consumes-all-equal": ("C11", "range_includes(collection) with a repeated expected value and fewer equal members in the range", "C11 (exhaustive scope)"),
 "C18-fill-not-restored-when-space": ("C18", "hex-dumped value on a stream whose prior fill is the default space: fill '0' left behind", "C18"),
 "C19-at-most-after-in-sequence-rejected": ("C19", "legal .IN_SEQUENCE(s).TIMES(AT_MOST(n)) / TIMES(0,n) rejected at compile time with the TIMES(0) message", "C19"),
 "C20-yield-after-return-dropped": ("C20", "CO_RETURN or CO_THROW written before the first CO_YIELD: the yields are dropped", "C20"),
 "C01-r2-rt-times-zero-not-forbidden": ("C01", "an upper bound of 0 given at run time (RT_TIMES(0)) and a matching call: silently accepted", "C01, C07"),
 "C02-r2-order-last-listed-sequence": ("C02", "expectation in >= 2 sequences whose last listed sequence is not the one with the most pending steps, plus a competitor whose cost lies in between", "C02"),
 "C03-r2-count-before-sequence-validation": ("C03", "a call rejected as out of sequence is counted: flags wrong / bound overrun afterwards", "C03, C05"),
 "C04-r2-saturated-match-marks-active-reported": ("C04", "a 'matches saturated' no-match report marks the other active expectations as reported: their later shortfall is swallowed", "C04"),
 "C05-r2-order-sum-wraps": ("C05", "expectation in two sequences, skippable satisfied predecessor in the first listed, blocked in the later listed: accepted", "C05"),
 "C06-r2-dead-monitor-stays-registered": ("C06", "revert of fix 574fb70: a REQUIRE_DESTRUCTION whose object died in order is listed as missing when the sequence object is destroyed", "C06 (replay fixed-dead-monitor-listed)"),
 "C07-r2-forbid-call-v-with-clause-allows": ("C07", "FORBID_CALL_V with a clause argument on a void function expands to an allowing expectation", "C07 (after the variadic _V spellings were added to the scoped and NAMED literal sites)"),
 "C08-r2-report-evaluates-all-withs": ("C08", ">= 2 WITH clauses, an earlier one fails, no expectation accepts: the report path evaluates the later WITHs too", "C08"),
 "C09-r2-const-lvalue-return-copied": ("C09", "function returning const T& with RETURN(_k) / LR_RETURN of a const lvalue: a copy is returned (dangling), not the caller's object", "C09"),
 "C10-r2-deref-null-check-via-is-null": ("C10", "*m on a null user-defined pointer-like type that is implicitly constructible from nullptr and only has operator==(P,P)", "C10 (after user-defined pointer-like domains were added to engine M)"),
 "C11-r2-elements-search-from-back": ("C11", "element form of range_includes / range_is_permutation with overlapping element matchers: last fit instead of first fit", "C11 (after deterministic first-fit policies were added for order-dependent cases)"),
 "C12-r2-monitor-dtor-checks-died-before-lock": ("C12", "a thread releases a NAMED_REQUIRE_DESTRUCTION while another thread destroys the watched object: stale 'died' read before the lock", "C12 modes B/E (after shared deathwatched objects with cross-thread release were added to engine T)"),
 "C13-r2-assignment-copies-monitor-head": ("C13", "assignment between two deathwatched objects copies the chain of requirements", "C13"),
 "C14-r2-list-move-keeps-last-only": ("C14", "moving a mock that has >= 2 expectations in one list keeps only the last one; the others dangle", "C14, C01"),
 "C15-r2-with-shown-before-rejecting-params": ("C15", "expectation with a rejecting parameter AND a false WITH: the report shows the WITH instead of the parameter", "C15"),
 "C16-r2-set-reporter-one-arg-resets-ok": ("C16", "one-argument set_reporter after a two-argument one silently replaces the OK reporter by the default", "C16"),
 "C17-r2-params-traced-after-actions": ("C17", "parameters traced after the side effects ran (throwing side effect: no parameter lines)", "C17"),
 "C18-r2-hexdump-sign-extends": ("C18", "hex dump of an object containing a byte >= 0x80 prints 0xffffffXX", "C18"),
 "C19-r2-return-then-co-return-accepted": ("C19", ".RETURN(x).CO_RETURN(y) on an ordinary function compiles silently at C++20", "C19 (after the rule engine was corrected: row R24d)"),
 "C01-r3-last-with-decides": ("C01", ">= 2 WITH clauses where an earlier one is false and the last one true: only the last WITH decides, the call is accepted", "C01"),
 "C02-r3-retire-when-satisfied-again": ("C02", "successor with lower bound >= 2 accepted once after a satisfied, unsaturated predecessor: predecessors only retired when the successor is satisfied (variant of the revert of 625205b at another site)", "C02"),
 "C03-r3-rt-times-before-in-sequence-unbounded": ("C03", ".RT_TIMES(l,h) written BEFORE .IN_SEQUENCE(s): the run-time upper bound is overwritten by 'unbounded'", "C03 (after odd expectation slots were made to write RT_TIMES before IN_SEQUENCE)"),
 "C04-r3-count-before-sequence-validation-shortfall": ("C04", "a call rejected as out of sequence is counted before validation: the expectation is later believed satisfied, its shortfall at end of life is not reported", "C04"),
 "C05-r3-validate-retires-per-sequence": ("C05", "expectation in two sequences, in order in the first and out of order in the second: the rejected call already moved the first sequence forward", "C05"),
 "C06-r3-teardown-silent-when-completed": ("C06", "sequence object destroyed while is_completed() is true but satisfied, unsaturated expectations are still registered: they are not listed", "C06"),
 "C07-r3-sequenced-rt-times-zero-unregistered": ("C07", ".RT_TIMES(0).IN_SEQUENCE(s): the forbidding expectation is not registered in the sequence; is_completed()/ordering ignore it and it dangles", "C07 (after sequenced RT_TIMES(0) was taken into the generator's scope and the model was made to test 'forbidden' before 'out of sequence')"),
 "C09-r3-with-10th-by-copy": ("C09", "arity >= 10, WITH / LR_WITH naming _10: a copy, identity conditions (&_10 == &obj) fail, copies observable", "C09"),
 "C10-r3-not-moves-from-lvalue": ("C10", "!m applied to a NAMED matcher object (lvalue) moves from it: the named matcher's own value is gone (strings) for later use", "C10 (after the named-lvalue laws were added to engine M: building !m, *m, any_of(m,..), MEMBER_IS(..,m) from a named matcher must not change it)"),
 "C11-r3-ends-with-collection-first-occurrence": ("C11", "range_ends_with(collection) where the expected tail also occurs earlier in the range", "C11"),
 "C12-r3-bounds-set-after-registration-unlocked": ("C12", ".TIMES/RT_TIMES given before .IN_SEQUENCE: the new handler is published to the sequence with bounds (1,1) and gets the real bounds afterwards without the lock, while another thread walks the sequence", "C12 (TSan, mode A)"),
 "C13-r3-notify-cuts-chain": ("C13", ">= 2 requirements on one object, object dies, then the requirements are released: notify() cuts the chain, the older requirement is never told", "C13"),
 "C14-r3-movable-mock-keeps-saturated-list": ("C14", "movable mock (trompeloeil_movable_mock) destroyed while a SATURATED named expectation on it is still alive: saturated list not emptied, abort / dangling links", "C14"),
 "C15-r3-saturated-listing-stops-at-mismatch": ("C15", ">= 2 saturated expectations with different requirements, a non-matching one saturated earlier than a matching one, then a surplus call: saturated listing cut short / whole-list listing instead", "C15"),
 "C16-r3-ok-before-sequence-validation": ("C16", "a call rejected as out of sequence (matcher accepts, sequence does not): an OK report is sent before the violation", "C16"),
 "C17-r3-tracer-pointer-thread-local": ("C17", "tracer installed by one thread, accepted calls made by other threads: nothing is traced", "C17 (after engine T got a tracer installed by the main thread, run under --prop C17)"),
 "C18-r3-null-check-only-in-primary-printer": ("C18", "null value of a pointer-like type that has a user printer specialisation or operator<<: the user code is entered with a null value instead of printing nullptr", "C18 (engine S: 25 types with user printer / operator<< and a null state)"),
 "C19-r3-named-forbid-uses-short-times": ("C19", "TROMPELOEIL_LONG_MACROS and TROMPELOEIL_NAMED_FORBID_CALL: the macro uses the short name TIMES and no longer compiles", "C19 (deterministic family x macro-mode group of engine K)"),
 "C20-r3-single-call-moves-yields": ("C20", "TIMES / RT_TIMES written after CO_RETURN / CO_THROW and >= 2 calls: the first coroutine took the expressions with it, later coroutines yield nothing / return moved-from values", "C20"),
 "C01-r4-moved-mock-reverses-expectations": ("C01", "movable mock moved an odd number of times with >= 2 overlapping live expectations on one function: the list is re-linked in reverse, the oldest is searched first (forbid over allow accepted, etc.)", "C01"),
 "C02-r4-list-move-reverses-order": ("C02", "same trigger as C01-r4 at another site (list move constructor): after a mock move the oldest matching expectation handles the call", "C02"),
 "C03-r4-moved-mock-loses-saturated-list": ("C03", "movable mock moved while a saturated expectation is alive, then a surplus call: the report no longer names the saturated expectation", "C03"),
 "C04-r4-rt-times-one-arg-loses-lower-bound": ("C04", "the one-argument spelling RT_TIMES(n): lower bound 0, no shortfall report at end of life", "C04 (after the run-time bound spellings RT_TIMES(n) / AT_LEAST / AT_MOST / _V were added as literal sites and a wrong flag of a never-called expectation no longer ends the case), C03 sees the wrong is_satisfied() at once"),
 "C05-r4-seq-move-assign-copies-state": ("C05", "sequence object move-ASSIGNED from, then the moved-from object destroyed or re-assigned: it still shares the state, pending steps are dropped, later calls accepted out of order", "C05 (after sequence moves by assignment were added - engine W only move-constructed - and the case goes on after the spurious teardown report of a move), also C06 / C14"),
 "C06-r4-seq-move-ctor-copies-state": ("C06", "sequence move CONSTRUCTION copies the shared state: destroying the moved-from object reports and unlinks the pending expectations", "C06"),
 "C07-r4-forbid-report-prints-expectation-values": ("C07", "forbidden-call report composed from the expectation's matchers instead of the actual arguments (visible with wildcards / matchers)", "C07"),
 "C08-r4-handler-released-at-saturation": ("C08", "side effect calls the same function recursively, the nested call is the last one the same expectation permits: the RETURN/THROW handler is destroyed under the outer call", "C08"),
 "C09-r4-throw-13-15-transposed": ("C09", "THROW / LR_THROW naming _13 or _15 on a function with >= 13 parameters: positions transposed", "C09"),
 "C10-r4-le-ge-negated-strict": ("C10", "le / ge written as !(x > v) / !(x < v): wrong for unordered pairs (NaN, partial orders)", "C10 (after the relational laws on doubles with NaN and on a partial order were added to engine M)"),
 "C11-r4-starts-with-elements-exact-length": ("C11", "range_starts_with(elements...) on a range with exactly as many members as listed elements", "C11"),
 "C12-r4-expect-death-unlocked": ("C12", "two threads register / release REQUIRE_DESTRUCTION on the same deathwatched object: chain head written without the lock", "C12 (mode B linearizability oracle; engine T now also lets the owner register a further requirement concurrently: swatch)"),
 "C13-r4-unexpected-destruction-silent-in-catch": ("C13", "deathwatched object without requirement destroyed inside a catch handler: no report", "C13 (after operations were also executed inside a catch handler and during stack unwinding)"),
 "C14-r4-seq-assign-to-moved-from": ("C14", "move assignment TO a moved-from sequence object: null dereference", "C14 (after sequence moves by assignment, also to a moved-from object, were added)"),
 "C15-r4-moved-mock-loses-saturated-list": ("C15", "same change as C03-r4 (independently produced): 'matches saturated' listing lost after a mock move", "C15"),
 "C16-r4-set-reporter-returns-new-ok": ("C16", "two-argument set_reporter returns the NEW OK reporter in .second: restore idiom keeps the inner OK reporter", "C16"),
 "C17-r4-side-effect-exception-not-traced": ("C17", "accepted call ended by an exception from a SIDE_EFFECT: trace record lacks the exception note", "C17"),
 "C18-r4-cref-printer-const-type": ("C18", "value reached through reference_wrapper<const X> (const X& parameter): user printer / pair / tuple streamers missed, hex dump instead", "C18"),
 "C19-r4-times0-then-times-accepted": ("C19", "a second TIMES / RT_TIMES after a limit with upper bound 0 (TIMES(0), FORBID_CALL): compiles silently", "C19 (after the deterministic group of double call-limit misuse was added to engine K; random row sampling had a 3-in-4 chance per draw to miss the shape)"),
 "C20-r4-co-throw-captures-by-reference": ("C20", "CO_THROW naming a local that changes after the expectation was written: evaluated by reference", "C20 (after engine Q overwrote the locals named by plain clauses once the expectations are written, and gave the LR_ locals their values only then)"),
 "C01-r5-retire-predecessors-when-satisfied": ("C01", "sequence_matcher::retire_predecessors only when satisfied: a satisfied, unsaturated predecessor stays callable after a successor with lower bound >= 2 took its first call (third site for this observable)", "C01"),
 "C02-r5-last-with-decides": ("C02", "only the last WITH clause decides (same change as C01-r3, independently produced): the newer expectation takes calls an earlier WITH rejects", "C02"),
 "C03-r5-named-forbid-v-with-clause-unbounded": ("C03", "NAMED_FORBID_CALL_V with a clause argument on a void function expands with INFINITY_TIMES: not saturated, calls accepted", "C03 (literal site 30, added after C07-r2)"),
 "C04-r5-reported-flag-reset-by-match": ("C04", "every accepted call resets the 'already named in a report' flag: lower bound >= 2, named in a no-match report, one more matching call, end of life: reported a second time", "C04"),
 "C05-r5-find-prefers-newest-over-eligible": ("C05", "find() returns the newest match when no match has cost 0: a blocked newest expectation shadows an older eligible one that has to pass over a satisfied predecessor", "C05"),
 "C06-r5-count-before-sequence-validation": ("C06", "a call rejected as out of sequence is counted (same change as C03-r2 / C04-r3): is_completed() true too early, exact-bound expectation never saturates, listed at teardown", "C06"),
 "C07-r5-forbid-check-after-count": ("C07", "the forbidden check runs after increment_call: a forbid that caught a call answers is_saturated() false", "C07"),
 "C08-r5-return-evaluated-twice-when-traced": ("C08", "tracer alive and a non-void function: the RETURN expression is evaluated twice, the caller gets the second value", "C08"),
 "C09-r5-side-effect-11th-by-copy": ("C09", "arity >= 11, SIDE_EFFECT / LR_SIDE_EFFECT naming _11: a copy (out-parameter write lost, identity lost)", "C09"),
 "C10-r5-re-nosubs-backreference": ("C10", "re() compiles its pattern with nosubs: a pattern with a back-reference throws std::regex_error when the expectation is written", "C10 (after patterns with a back-reference, an optional group, a counted repeat and a word boundary were added to engine M)"),
 "C11-r5-collection-moved-from-named-container": ("C11", "collection forms move the expected values out of a named non-const container: the second matcher built from it describes the empty list", "C11 (after engine R used its named container for two matchers)"),
 "C12-r5-decommission-other-mutex": ("C12", "mock destruction locks another mutex instance than everything else: an expectation released by one thread while another thread destroys the mock", "C12 (TSan; engine T hands an expectation on a thread's private mock over to another thread: adopt)"),
 "C13-r5-notify-no-retire-on-saturation": ("C06", "revert of fix 574fb70, delivered for C13: a fulfilled sequenced destruction requirement is listed as missing when the sequence object is destroyed. C13's statement sets sequence constraints aside; what is broken is C06 ('an expectation that saturates leaves its sequences and is no longer listed')", "C06 (not C13: the C13 check rightly stays quiet)"),
 "C14-r5-null-on-move-assignment-nulls": ("C14", "assignment onto a deathwatched object nulls its chain of requirements (variant of the defect repaired by 904b8e3)", "C14 (replay fixed-dw-assign and generation)"),
 "C15-r5-forbid-once-reported": ("C15", "same change as C03 / C07-forbid-once-reported (round 1), independently produced for C15", "C15"),
 "C16-r5-ok-report-skipped-in-catch": ("C16", "accepted call made inside a catch handler: no OK report", "C16 (because operations are also executed inside a catch handler since round 4)"),
 "C17-r5-record-dropped-when-tracer-created-in-call": ("C17", "a side effect of the call constructs a further tracer that is still alive when the call ends: the call's record is dropped", "C17 (after side effects that construct a tracer were added to engine W)"),
 "C18-r5-streamable-range-no-sentry": ("C18", "std::string / string_view printed on a stream that carries a width: padded, width consumed", "C18"),
 "C19-r5-const-mock10-skips-arity-check": ("C19", "MAKE_CONST_MOCK10 with a signature that does not have 10 parameters: rejected without the documented message", "C19 (after the deterministic arity group - every n of MAKE_MOCKn / MAKE_CONST_MOCKn - was added to engine K)"),
 "C20-r5-void-co-throw-before-yields": ("C20", "generator with >= 1 CO_YIELD ending in CO_THROW: the exception is raised before any value is yielded", "C20"),
 "C20-r2-shared-param-tuple-per-expectation": ("C20", "two calls with different arguments on one coroutine expectation, a clause naming _N evaluated after the later call", "C20 (after reference-parameter sites were added to engine Q)"),
}
logs = ""
for f in sorted(glob.glob(os.path.join(V, "build", "scratch", "seeds*.log")), key=lambda x: int(re.sub(r"\D", "", os.path.basename(x)) or 0)):   # in the order they were run
    logs += open(f, errors="replace").read()
for name, (prop, needs, caught) in T.items():
    d = os.path.join(V, "seeded", name)
    if not os.path.isdir(d):
        continue
    lines = [l for l in logs.splitlines() if l.startswith("SEED seeded/%s:" % name)]
    demo = next((l.split(": ", 1)[1] for l in reversed(lines) if "demo exit" in l), None)
    suite = next((l.split(": ", 1)[1].strip() for l in reversed(lines) if "suite on patched tree" in l), None)
    checks = {}
    for l in lines:
        m = re.search(r": (C\d\d) rc=(\d+) violations=(\d+) time=(\d+)s", l)
        if m:
            checks[m.group(1)] = dict(exit=int(m.group(2)), violations=int(m.group(3)), seconds=int(m.group(4)))
    meta = dict(
        property=prop, breaks=needs.split(":")[0] if False else None,
        needs_to_manifest=needs,
        origin="written by a fresh sub-agent that was given only the text of the property and its own scratch worktree of rollbear/trompeloeil (nothing from /verif)"
               + ("; round 2: it was also told, in one sentence, which change had already been delivered for this property and asked for a different site, mechanism and trigger" if "-r2-" in name else ""),
        confirmed=dict(how="bin/seedcheck %s --suite <props>: scratch worktree of /repo HEAD + patch.diff; demonstration built against /repo/include and against the patched tree; repository self_test built and run on the patched tree; bin/check <prop> --tier quick with VERIF_REPO pointing at the patched tree (evidence and found replays diverted to build/scratch)" % ("seeded/" + name),
                       demonstration=demo, repository_suite_with_change=suite),
        checks_quick_tier=checks,
        caught_by=caught,
    )
    meta.pop("breaks")
    json.dump(meta, open(os.path.join(d, "meta.json"), "w"), indent=1)
    print(name, demo, suite, checks)

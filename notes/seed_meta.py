#!/usr/bin/env python3
"""Writes seeded/<id>/meta.json from the table below + the results logged by bin/seedcheck
(build/scratch/seeds*.log). Development tool."""
import glob, json, os, re
V = os.path.dirname(os.path.dirname(os.path.abspath(__file__)))
T = {
 "C01-multiseq-partial-retire": ("C01", "an expectation IN_SEQUENCE(s1, s2) called while s2 forbids it and s1 permits it: the (correctly rejected) call retires its predecessors in s1; only a later call to such a predecessor shows the damage", "C01 (after adding the 'seq' profile to its quick tier), C05"),
 "C02-tie-older-wins": ("C02", "two matching candidates with the same non-zero sequence cost (each behind skippable pending steps in different sequences): the older one wins the tie", "C02 (label calls_tie_on_cost)"),
 "C03-forbid-once-reported": ("C03", "a forbidding expectation whose 'reported' flag is already set (second hit, or listed in an earlier no-match report): later hits are silently accepted", "C03, C07 (also C01)"),
 "C04-mockdeath-ignores-reported": ("C04", "an unsatisfied expectation named in an earlier no-match listing whose mock is destroyed before it is released: reported a second time", "C04"),
 "C05-notify-restructure": ("C05", "an out-of-sequence monitored destruction followed by a call to one of its predecessors: the predecessors were not retired, the call is accepted", "C05 (patch rebased onto 574fb70)"),
 "C06-retire-when-satisfied": ("C06", "successor with lower bound >= 2 matched once after a satisfied-but-unsaturated predecessor: predecessor still listed at sequence teardown / accepted again (equals the revert of fix 625205b)", "C06, C05, C02"),
 "C07-forbid-once-reported": ("C07", "same change as C03-forbid-once-reported, demonstrated on FORBID_CALL stacked over ALLOW_CALL and RT_TIMES(0) with side effects", "C07, C01"),
 "C08-return-moves-from-lvalue": ("C08", "by-value return of a move-sensitive type (std::string, std::vector) whose RETURN expression is a non-const lvalue: the user's object is moved from; visible on the second call or by reading the object", "C08 through engine C8 (added after this seed: by-value string/vector returns of lvalues; engine W only returns int)"),
 "C12-dtor-skips-retire-when-unlinked": ("C12", "sequenced expectation whose mock object is destroyed before the expectation is released, while another thread walks the same sequence: handles unlinked outside the lock (data race)", "C12 mode A under TSan (after adding a sequenced expectation on the thread-private mock to engine T)"),
 "C13-monitor-unlink-one-step": ("C13", ">= 3 destruction requirements on one object and the third-newest or older one released first: younger ones cut out of the chain, never notified, later use-after-free", "C13, C14 (after raising the monitor slots per object from 2 to 3)"),
 "C14-monitor-unlink-one-step": ("C14", "same change as C13-monitor-unlink-one-step (independently produced)", "C14, C13"),
 "C15-no-pending-always-fatal": ("C15", "REQUIRE_DESTRUCTION in a sequence whose sequence object was destroyed first, then the object dies: the 'no more pending expectations' report is sent with severity fatal from a destructor", "C15 (after the severity rule was also applied to the unchecked/degraded part of a history)"),
 "C16-ok-skipped-when-reported": ("C16", "an expectation listed as 'Tried' in an earlier no-match report later accepts a call: no OK report", "C16"),
 "C17-shared-trace-buffer": ("C17", "an accepted call whose side effect makes another accepted call while a tracer is alive: the outer record carries the inner call's text and arguments", "C17"),
 "C09-return-13th-by-copy": ("C09", "arity >= 13, RETURN/LR_RETURN using _13: a copy instead of the caller's object (aliasing / write-through lost; move-only 13th parameter no longer compiles)", "C09 (replay seed-arity15-all-modes no longer compiles / FAIL lines)"),
 "C10-re-empty-string-rejected": ("C10", "re(p) on an empty non-null string with a pattern that matches the empty sequence", "C10"),
 "C11-includes-collection-consumes-all-equal": ("C11", "range_includes(collection) with a repeated expected value and fewer equal members in the range", "C11 (exhaustive scope)"),
 "C18-fill-not-restored-when-space": ("C18", "hex-dumped value on a stream whose prior fill is the default space: fill '0' left behind", "C18"),
 "C19-at-most-after-in-sequence-rejected": ("C19", "legal .IN_SEQUENCE(s).TIMES(AT_MOST(n)) / TIMES(0,n) rejected at compile time with the TIMES(0) message", "C19"),
 "C20-yield-after-return-dropped": ("C20", "CO_RETURN or CO_THROW written before the first CO_YIELD: the yields are dropped", "C20"),
 "C01-r2-rt-times-zero-not-forbidden": ("C01", "an upper bound of 0 given at run time (RT_TIMES(0)) and a matching call: silently accepted", "C01, C07"),
 "C02-r2-order-last-listed-sequence": ("C02", "expectation in >= 2 sequences whose last listed sequence is not the one with the most pending steps, plus a competitor whose cost lies in between", "C02"),
 "C03-r2-count-before-sequence-validation": ("C03", "a call rejected as out of sequence is counted: flags wrong / bound overrun afterwards", "C03, C05"),
 "C04-r2-saturated-match-marks-active-reported": ("C04", "a 'matches saturated' no-match report marks the other active expectations as reported: their later shortfall is swallowed", "C04"),
 "C05-r2-order-sum-wraps": ("C05", "expectation in two sequences, skippable satisfied predecessor in the first listed, blocked in the later listed: accepted", "C05"),
 "C06-r2-dead-monitor-stays-registered": ("C06", "revert of fix 574fb70: a REQUIRE_DESTRUCTION whose object died in order is listed as missing when the sequence object is destroyed", "C06 (replay fixed-dead-monitor-listed)"),
 "C07-r2-forbid-call-v-with-clause-allows": ("C07", "FORBID_CALL_V with a clause argument on a void function expands to an allowing expectation", "C07 (after the variadic _V spellings were added to the scoped and NAMED literal sites)"),
 "C08-r2-report-evaluates-all-withs": ("C08", ">= 2 WITH clauses, an earlier one fails, no expectation accepts: the report path evaluates the later WITHs too", "C08"),
 "C09-r2-const-lvalue-return-copied": ("C09", "function returning const T& with RETURN(_k) / LR_RETURN of a const lvalue: a copy is returned (dangling), not the caller's object", "C09"),
 "C10-r2-deref-null-check-via-is-null": ("C10", "*m on a null user-defined pointer-like type that is implicitly constructible from nullptr and only has operator==(P,P)", "C10 (after user-defined pointer-like domains were added to engine M)"),
 "C11-r2-elements-search-from-back": ("C11", "element form of range_includes / range_is_permutation with overlapping element matchers: last fit instead of first fit", "C11 (after deterministic first-fit policies were added for order-dependent cases)"),
 "C12-r2-monitor-dtor-checks-died-before-lock": ("C12", "a thread releases a NAMED_REQUIRE_DESTRUCTION while another thread destroys the watched object: stale 'died' read before the lock", "C12 modes B/E (after shared deathwatched objects with cross-thread release were added to engine T)"),
 "C13-r2-assignment-copies-monitor-head": ("C13", "assignment between two deathwatched objects copies the chain of requirements", "C13"),
 "C14-r2-list-move-keeps-last-only": ("C14", "moving a mock that has >= 2 expectations in one list keeps only the last one; the others dangle", "C14, C01"),
 "C15-r2-with-shown-before-rejecting-params": ("C15", "expectation with a rejecting parameter AND a false WITH: the report shows the WITH instead of the parameter", "C15"),
 "C16-r2-set-reporter-one-arg-resets-ok": ("C16", "one-argument set_reporter after a two-argument one silently replaces the OK reporter by the default", "C16"),
 "C17-r2-params-traced-after-actions": ("C17", "parameters traced after the side effects ran (throwing side effect: no parameter lines)", "C17"),
 "C18-r2-hexdump-sign-extends": ("C18", "hex dump of an object containing a byte >= 0x80 prints 0xffffffXX", "C18"),
 "C19-r2-return-then-co-return-accepted": ("C19", ".RETURN(x).CO_RETURN(y) on an ordinary function compiles silently at C++20", "C19 (after the rule engine was corrected: row R24d)"),
 "C20-r2-shared-param-tuple-per-expectation": ("C20", "two calls with different arguments on one coroutine expectation, a clause naming _N evaluated after the later call", "C20 (after reference-parameter sites were added to engine Q)"),
}
logs = ""
for f in sorted(glob.glob(os.path.join(V, "build", "scratch", "seeds*.log"))):
    logs += open(f, errors="replace").read()
for name, (prop, needs, caught) in T.items():
    d = os.path.join(V, "seeded", name)
    if not os.path.isdir(d):
        continue
    lines = [l for l in logs.splitlines() if l.startswith("SEED seeded/%s:" % name)]
    demo = next((l.split(": ", 1)[1] for l in reversed(lines) if "demo exit" in l), None)
    suite = next((l.split(": ", 1)[1].strip() for l in reversed(lines) if "suite on patched tree" in l), None)
    checks = {}
    for l in lines:
        m = re.search(r": (C\d\d) rc=(\d+) violations=(\d+) time=(\d+)s", l)
        if m:
            checks[m.group(1)] = dict(exit=int(m.group(2)), violations=int(m.group(3)), seconds=int(m.group(4)))
    meta = dict(
        property=prop, breaks=needs.split(":")[0] if False else None,
        needs_to_manifest=needs,
        origin="written by a fresh sub-agent that was given only the text of the property and its own scratch worktree of rollbear/trompeloeil (nothing from /verif)"
               + ("; round 2: it was also told, in one sentence, which change had already been delivered for this property and asked for a different site, mechanism and trigger" if "-r2-" in name else ""),
        confirmed=dict(how="bin/seedcheck %s --suite <props>: scratch worktree of /repo HEAD + patch.diff; demonstration built against /repo/include and against the patched tree; repository self_test built and run on the patched tree; bin/check <prop> --tier quick with VERIF_REPO pointing at the patched tree (evidence and found replays diverted to build/scratch)" % ("seeded/" + name),
                       demonstration=demo, repository_suite_with_change=suite),
        checks_quick_tier=checks,
        caught_by=caught,
    )
    meta.pop("breaks")
    json.dump(meta, open(os.path.join(d, "meta.json"), "w"), indent=1)
    print(name, demo, suite, checks)

// Engine C8 (property C08): clause arrangements. Complements engine W, whose data-driven sites always carry two WITH and
// two SIDE_EFFECT clauses and return int by value: here the NUMBER and ORDER of clauses is real (0-3 WITH/LR_WITH and 0-3
// SIDE_EFFECT/LR_SIDE_EFFECT per separately written expectation site, in several interleavings, with the RETURN/THROW
// clause last or first) and the mocked functions return by value (int, and the move-sensitive std::string and
// std::vector<int>), by reference, by const reference, by pointer, or void.
//
// CLI: c8_main --prop C08 --out <json> --faildir <dir> [--replay <file>] [--quiet|--verbose]
// rapidcheck is configured through RC_PARAMS only. No clock, no own random source.
//
// What is data and what is code
//   code  : the expectation SITES below, one per source line (the library derives identifiers and locations from
//           __LINE__). A site fixes the function, the number / spelling / order of the clauses, the RETURN/THROW form
//           and the call-count form (NAMED_ALLOW_CALL, NAMED_REQUIRE_CALL, TIMES(...), RT_TIMES(lo, hi)).
//   data  : what every clause DOES. WITH #k calls with_eval(I, k, arg): logs, answers bit 'arg' of a per-instance mask.
//           SIDE_EFFECT #k calls fx(I, k): logs, then nothing | throw std::runtime_error | throw a non-std type | make a
//           nested mock call (any function, also the handler's own function; depth <= 3; optionally swallowing what the
//           nested call throws). Logged RETURN/THROW expressions call ret_*/mk_* (log once, produce the data value, a
//           reference to a known object, or the exception). Plain (non-LR) clauses capture the instance id BY COPY and
//           only ever call free functions.
//   case  : operations "E" (create an expectation: site + data; slot = ordinal of creation) and "C" (top-level call).
//
// Oracle (independent of the library: a recursive interpreter over the same data, see struct Model)
//   * the handler of a call is the newest live expectation on that function that is not saturated and whose WITH masks
//     all contain the argument (the parameter matcher is always the wildcard);
//   * log without WITH entries == model log: F(handler,0..n-1) in declaration order, nested calls' entries properly
//     nested inside the side effect that made them, then the logged RETURN/THROW expression exactly once, nothing of
//     any other expectation; a throwing side effect ends the list; a call nobody accepts gives exactly one fatal report
//     and nothing else;
//   * outcome of every call (top-level and nested, in order of their start): value, address (+ value read through it)
//     for reference and pointer returns, identity of the exception (origin clause, slot, index), fatal report;
//   * WITH entries of one expectation within one call: passes over 0,1,2.. that end at the first false; several passes
//     are allowed (the library evaluates them again for reports), a pass may be abandoned only by starting over at #0;
//     the handler must show one complete all-true pass before its first side effect / return entry;
//   * after every top-level call, for every live expectation: is_satisfied() == (count >= lo),
//     is_saturated() == (count >= hi), where count includes calls whose side effect or THROW threw;
//   * functions returning std::string / std::vector<int> by value whose RETURN expression is a non-const lvalue
//     (LR_RETURN(g_str), LR_RETURN(g_map[_1]), LR_RETURN(g_holder.member), RETURN(_1) for a std::string& parameter, ...):
//     the caller receives an equal value, the named object still has its value after the call (checked after every
//     call, never repaired), and later calls through the same expectation return the same value again. Prvalue and
//     captured-copy RETURNs are the controls.
// After rapidcheck's own shrinking the failing case is minimised once more at case level (remove operations, replace the
// site by one with fewer clauses, neutralise data); the replay file holds the minimal case.
// Exit codes: 0 all agree, 1 disagreement (replay file written), 2 harness error.
#include <rapidcheck.h>
#include <fcntl.h>
#include <trompeloeil.hpp>
#include <climits>
#include <exception>
#include <functional>
#include <map>
#include <memory>
#include <sstream>
#include <stdexcept>
#include <string>
#include <vector>
#include "common/vcommon.hpp"

using trompeloeil::_;

namespace c8 {

// ---------------------------------------------------------------------------------------------------------------
// mock (one MAKE_MOCK per line)
struct Mock {
  MAKE_MOCK1(v, int(int));
  MAKE_MOCK1(r, int&(int&));
  MAKE_MOCK1(cr, int const&(int));
  MAKE_MOCK1(p, int*(int*));
  MAKE_MOCK1(n, void(int));
  MAKE_MOCK1(s, std::string(int));
  MAKE_MOCK1(vec, std::vector<int>(int));
  MAKE_MOCK1(sr, std::string(std::string&));
};
enum Fn { F_v, F_r, F_cr, F_p, F_n, F_s, F_vec, F_sr, NFN };
static const char* const FN_NAME[NFN] = {"v", "r", "cr", "p", "n", "s", "vec", "sr"};

constexpr int MAXSLOT = 4;       // live expectations per case
constexpr int MAXDEPTH = 3;      // nesting depth of mock calls made from side effects (top level = 0)
constexpr int FRAME_BUDGET = 24; // calls (top-level + nested) per case; a nested call beyond it is a no-op
constexpr int NARG = 6;          // arguments are 0..5
constexpr int GLOBAL_VALUE = 777;

struct Inst { int slot; };       // what clauses capture: plain clauses copy it, LR_ clauses refer to g_inst[slot]
static const Inst g_inst[MAXSLOT] = {{0}, {1}, {2}, {3}};
static int g_obj = GLOBAL_VALUE; // the object named by LR_RETURN((g_obj)) / std::ref(g_obj)
static int g_cell[MAXSLOT];      // per-slot objects returned by the logged reference / pointer terminals
static int g_argcell[MAXDEPTH + 1];  // the caller's argument object of a call at depth d

// Move-sensitive objects for the functions returning std::string / std::vector<int> BY VALUE from a RETURN expression
// that is a non-const lvalue: the caller must get an equal value and the named object must keep its value (a library
// that moved from the user's lvalue would hand out the right value once and leave the object empty). All strings are
// longer than any small-string buffer, all vectors non-empty.
struct Holder { std::string member; std::vector<int> v; };
static std::string g_str;                       // LR_RETURN(g_str)
static std::map<int, std::string> g_map;        // LR_RETURN(g_map[_1])
static Holder g_holder;                         // LR_RETURN(g_holder.member), LR_RETURN(g_holder.v)
static std::vector<int> g_vec;                  // LR_RETURN(g_vec)
static std::map<int, std::vector<int>> g_vmap;  // LR_RETURN(g_vmap[_1])
static std::string g_strarg[MAXDEPTH + 1];      // the caller's std::string argument of sr() at depth d
static std::string pristine_str() { return "global string object named by LR_RETURN, long enough to own a heap buffer"; }
static std::string pristine_map(int k) { return "map entry #" + std::to_string(k) + " named by LR_RETURN(g_map[_1]), also longer than the small buffer"; }
static std::string pristine_member() { return "member of a global object named by LR_RETURN(g_holder.member), heap allocated"; }
static std::vector<int> pristine_vec() { return {3, 1, 4, 1, 5, 9, 2, 6}; }
static std::vector<int> pristine_hvec() { return {2, 7, 1, 8, 2, 8}; }
static std::vector<int> pristine_vmap(int k) { return {k, k + 10, k + 20, k + 30}; }
static std::string arg_string(int arg) { return std::to_string(arg) + ": caller's own std::string argument object, heap allocated as well"; }
static std::string data_string(int retv) { return "string made from the expectation's data value " + std::to_string(retv) + " (prvalue or captured copy)"; }
static std::vector<int> data_vec(int retv) { return {retv, retv + 1, retv + 2}; }
static int str_code(const std::string& x) { return x.empty() || x[0] < '0' || x[0] > '9' ? 7 : x[0] - '0'; }  // 7: no WITH mask has that bit
static std::string render(const std::vector<int>& v) {
  std::string t = "{";
  for (size_t i = 0; i < v.size(); ++i) t += (i ? "," : "") + std::to_string(v[i]);
  return t + "}";
}
static void reset_objects() {
  g_str = pristine_str();
  g_map.clear(); g_vmap.clear();
  for (int k = 0; k < NARG; ++k) { g_map[k] = pristine_map(k); g_vmap[k] = pristine_vmap(k); }
  g_holder.member = pristine_member(); g_holder.v = pristine_hvec();
  g_vec = pristine_vec();
}
// "" or what happened to an object a RETURN clause names
static std::string damage_report() {
  if (g_str != pristine_str()) return "g_str changed to \"" + g_str + "\"";
  if (g_holder.member != pristine_member()) return "g_holder.member changed to \"" + g_holder.member + "\"";
  if (g_holder.v != pristine_hvec()) return "g_holder.v changed to " + render(g_holder.v);
  if (g_vec != pristine_vec()) return "g_vec changed to " + render(g_vec);
  if (g_map.size() != static_cast<size_t>(NARG) || g_vmap.size() != static_cast<size_t>(NARG)) return "g_map / g_vmap changed size";
  for (int k = 0; k < NARG; ++k) {
    if (g_map[k] != pristine_map(k)) return "g_map[" + std::to_string(k) + "] changed to \"" + g_map[k] + "\"";
    if (g_vmap[k] != pristine_vmap(k)) return "g_vmap[" + std::to_string(k) + "] changed to " + render(g_vmap[k]);
  }
  return "";
}

// ---------------------------------------------------------------------------------------------------------------
// case data
enum FxKind { FX_NONE, FX_THROW_STD, FX_THROW_NONSTD, FX_CALL };
struct FxAct { int kind = FX_NONE, fn = 0, arg = 0, swallow = 0; };
struct ExpData {
  std::string site;
  int wmask[3] = {63, 63, 63};
  FxAct fx[3];
  int retv = 0;
  int lo = 1, hi = 1;  // used by the RT_TIMES sites only; hi < 0: unbounded
};
struct Op { bool is_call = false; ExpData e; int fn = 0, arg = 0; };
using Case = std::vector<Op>;

// ---------------------------------------------------------------------------------------------------------------
// observations
struct Ev { char k; int slot, idx, frame, arg, res; };  // k: W with, F side effect, T return/throw expression, R fatal report, N other report
enum OutKind { O_NONE, O_VALUE, O_REF, O_PTR, O_VOID, O_STR, O_VEC, O_EXC_TERM_STD, O_EXC_TERM_NONSTD, O_EXC_FX_STD, O_EXC_FX_NONSTD, O_FATAL, O_UNKNOWN_EXC };
struct Outcome {
  int kind = O_NONE; int slot = -1, idx = -1; long val = 0; const void* addr = nullptr;
  std::string sval;  // O_STR: the string, O_VEC: the rendered vector
  bool same(const Outcome& o) const {
    if (kind != o.kind) return false;
    switch (kind) {
      case O_VALUE: return val == o.val;
      case O_STR: case O_VEC: return sval == o.sval;
      case O_REF: case O_PTR: return addr == o.addr && val == o.val;
      case O_EXC_TERM_STD: case O_EXC_TERM_NONSTD: return slot == o.slot;
      case O_EXC_FX_STD: case O_EXC_FX_NONSTD: return slot == o.slot && idx == o.idx;
      default: return true;
    }
  }
};
static std::string addr_name(const void* a) {
  if (a == nullptr) return "nullptr";
  if (a == &g_obj) return "&g_obj";
  for (int i = 0; i < MAXSLOT; ++i) if (a == &g_cell[i]) return "&g_cell[" + std::to_string(i) + "]";
  for (int i = 0; i <= MAXDEPTH; ++i) if (a == &g_argcell[i]) return "&caller_arg[depth " + std::to_string(i) + "]";
  return "<some other address>";
}
static std::string show(const Outcome& o) {
  switch (o.kind) {
    case O_VALUE: return "value " + std::to_string(o.val);
    case O_REF: return "reference to " + addr_name(o.addr) + " (value " + std::to_string(o.val) + ")";
    case O_PTR: return "pointer " + addr_name(o.addr) + " (value " + std::to_string(o.val) + ")";
    case O_VOID: return "void return";
    case O_STR: return "string \"" + o.sval + "\"";
    case O_VEC: return "vector " + o.sval;
    case O_EXC_TERM_STD: return "std::runtime_error from THROW of slot " + std::to_string(o.slot);
    case O_EXC_TERM_NONSTD: return "non-std exception from THROW of slot " + std::to_string(o.slot);
    case O_EXC_FX_STD: return "std::runtime_error from side effect #" + std::to_string(o.idx) + " of slot " + std::to_string(o.slot);
    case O_EXC_FX_NONSTD: return "non-std exception from side effect #" + std::to_string(o.idx) + " of slot " + std::to_string(o.slot);
    case O_FATAL: return "fatal report (no expectation accepts the call)";
    case O_UNKNOWN_EXC: return "an exception nobody in the harness throws";
  }
  return "nothing";
}
struct Frame { int fn, arg, depth; };
struct Trace {
  std::vector<Ev> ev;
  std::vector<Outcome> outs;      // by frame id (frames are numbered in order of their start)
  std::vector<Frame> frames;
  std::vector<std::vector<int>> flags;  // per operation: per slot -1 (not yet created) or satisfied | saturated << 1
};
static std::string show(const Ev& e) {
  std::string s(1, e.k);
  if (e.k == 'R' || e.k == 'N') return s + "@call" + std::to_string(e.frame);
  s += "(slot" + std::to_string(e.slot);
  if (e.k != 'T') s += ",#" + std::to_string(e.idx);
  if (e.k == 'W') s += std::string(",arg=") + std::to_string(e.arg) + (e.res ? ",true" : ",false");
  return s + ")@call" + std::to_string(e.frame);
}

// exceptions the harness throws
struct NonStd { char origin; int slot; int idx; };   // THROW(non-std type) and throwing side effects
struct FatalReport { std::string msg; };              // thrown by the reporter for severity::fatal

// ---------------------------------------------------------------------------------------------------------------
// the real world's run-time state (clauses reach it through free functions only)
struct Real {
  Trace t;
  std::vector<int> stack;             // open calls, innermost last
  const ExpData* data[MAXSLOT] = {};
  Mock* mock = nullptr;
  bool in_call = false;
  int stray_reports = 0;
  std::string first_damage;           // first time an object named by a RETURN clause was found changed after a call
};
static Real* RW = nullptr;

static int cur_frame() { return RW->stack.empty() ? -1 : RW->stack.back(); }

static bool with_eval(const Inst& I, int idx, int arg) {
  bool res = ((RW->data[I.slot]->wmask[idx] >> (arg & 7)) & 1) != 0;
  RW->t.ev.push_back(Ev{'W', I.slot, idx, cur_frame(), arg, res});
  return res;
}

static Outcome invoke(Mock& m, int fn, int arg, int depth, std::exception_ptr* ep);

static void fx(const Inst& I, int idx) {
  RW->t.ev.push_back(Ev{'F', I.slot, idx, cur_frame(), 0, 0});
  const FxAct& a = RW->data[I.slot]->fx[idx];
  switch (a.kind) {
    case FX_THROW_STD: throw std::runtime_error("c8 F " + std::to_string(I.slot) + " " + std::to_string(idx));
    case FX_THROW_NONSTD: throw NonStd{'F', I.slot, idx};
    case FX_CALL: {
      int depth = static_cast<int>(RW->stack.size());  // depth of the nested call
      if (depth > MAXDEPTH || static_cast<int>(RW->t.frames.size()) >= FRAME_BUDGET) return;
      std::exception_ptr ep;
      invoke(*RW->mock, a.fn, a.arg, depth, &ep);
      if (ep && !a.swallow) std::rethrow_exception(ep);
      return;
    }
    default: return;
  }
}
static void log_term(const Inst& I) { RW->t.ev.push_back(Ev{'T', I.slot, 0, cur_frame(), 0, 0}); }
static int ret_val(const Inst& I) { log_term(I); return RW->data[I.slot]->retv; }
static int& ret_same(const Inst& I, int& x) { log_term(I); return x; }
static int& ret_cell(const Inst& I) { log_term(I); return g_cell[I.slot]; }
static const int& ret_ccell(const Inst& I) { log_term(I); return g_cell[I.slot]; }
static int* ret_ptr(const Inst& I, int* x) { log_term(I); return x; }
static int* ret_pcell(const Inst& I) { log_term(I); return &g_cell[I.slot]; }
static std::string ret_str(const Inst& I) { log_term(I); return data_string(RW->data[I.slot]->retv); }    // prvalue
static std::vector<int> ret_vec(const Inst& I) { log_term(I); return data_vec(RW->data[I.slot]->retv); }  // prvalue
static std::string& ret_gstr(const Inst& I) { log_term(I); return g_str; }                                // non-const lvalue
static std::string& ret_same_str(const Inst& I, std::string& x) { log_term(I); return x; }                // non-const lvalue
static std::runtime_error mk_std(const Inst& I) { log_term(I); return std::runtime_error("c8 T " + std::to_string(I.slot)); }
static NonStd mk_nonstd(const Inst& I) { log_term(I); return NonStd{'T', I.slot, 0}; }
static std::runtime_error mk_std_arg(int a) { return std::runtime_error("c8 T " + std::to_string(1000 + a)); }   // depends on the argument only

static void reporter(trompeloeil::severity s, const char*, unsigned long, std::string const& msg) {
  if (RW && RW->in_call) RW->t.ev.push_back(Ev{s == trompeloeil::severity::fatal ? 'R' : 'N', -1, -1, cur_frame(), 0, 0});
  else if (RW && s == trompeloeil::severity::fatal) RW->stray_reports++;
  if (s == trompeloeil::severity::fatal) throw FatalReport{msg};  // "must not return"; calls are never made from destructors here
}

static bool known_address(const void* a) {
  if (a == &g_obj) return true;
  for (int i = 0; i < MAXSLOT; ++i) if (a == &g_cell[i]) return true;
  for (int i = 0; i <= MAXDEPTH; ++i) if (a == &g_argcell[i]) return true;
  return false;
}

// one real mock call; the outcome is recorded under the call's frame id. *ep receives the exception, if any.
static Outcome invoke(Mock& m, int fn, int arg, int depth, std::exception_ptr* ep) {
  int id = static_cast<int>(RW->t.frames.size());
  RW->t.frames.push_back(Frame{fn, arg, depth});
  RW->t.outs.emplace_back();
  RW->stack.push_back(id);
  g_argcell[depth] = arg;
  if (fn == F_sr) g_strarg[depth] = arg_string(arg);
  Outcome o;
  try {
    switch (fn) {
      case F_v: { int x = m.v(arg); o.kind = O_VALUE; o.val = x; break; }
      case F_r: { int& x = m.r(g_argcell[depth]); o.kind = O_REF; o.addr = &x; o.val = known_address(&x) ? x : -1; break; }
      case F_cr: { const int& x = m.cr(arg); o.kind = O_REF; o.addr = &x; o.val = known_address(&x) ? x : -1; break; }
      case F_p: { int* x = m.p(&g_argcell[depth]); o.kind = O_PTR; o.addr = x; o.val = known_address(x) ? *x : -1; break; }
      case F_s: { std::string x = m.s(arg); o.kind = O_STR; o.sval = x; break; }
      case F_vec: { std::vector<int> x = m.vec(arg); o.kind = O_VEC; o.sval = render(x); break; }
      case F_sr: { std::string x = m.sr(g_strarg[depth]); o.kind = O_STR; o.sval = x; break; }
      default: m.n(arg); o.kind = O_VOID; break;
    }
  } catch (const std::runtime_error& e) {
    if (ep) *ep = std::current_exception();
    int s = -1, i = -1;
    if (sscanf(e.what(), "c8 T %d", &s) == 1) { o.kind = O_EXC_TERM_STD; o.slot = s; }
    else if (sscanf(e.what(), "c8 F %d %d", &s, &i) == 2) { o.kind = O_EXC_FX_STD; o.slot = s; o.idx = i; }
    else o.kind = O_UNKNOWN_EXC;
  } catch (const NonStd& e) {
    if (ep) *ep = std::current_exception();
    o.kind = e.origin == 'T' ? O_EXC_TERM_NONSTD : O_EXC_FX_NONSTD; o.slot = e.slot; o.idx = e.origin == 'T' ? -1 : e.idx;
  } catch (const FatalReport&) {
    if (ep) *ep = std::current_exception();
    o.kind = O_FATAL;
  } catch (...) {
    if (ep) *ep = std::current_exception();
    o.kind = O_UNKNOWN_EXC;
  }
  RW->stack.pop_back();
  RW->t.outs[static_cast<size_t>(id)] = o;
  if (RW->first_damage.empty()) {  // not repaired: later calls through the same expectation must still see the value
    std::string d = damage_report();
    if (d.empty() && fn == F_sr && g_strarg[depth] != arg_string(arg)) d = "the caller's std::string argument changed to \"" + g_strarg[depth] + "\"";
    if (!d.empty()) RW->first_damage = "after call " + std::to_string(id) + " (" + FN_NAME[fn] + "(" + std::to_string(arg) + ")): " + d;
  }
  return o;
}

// ---------------------------------------------------------------------------------------------------------------
// expectation sites
using ExpPtr = std::unique_ptr<trompeloeil::expectation>;
using Maker = ExpPtr (*)(Mock&, const Inst&, std::size_t, std::size_t);
enum ResKind { RK_VAL_DATA, RK_VAL_ARG, RK_REF_ARG, RK_REF_GLOBAL, RK_REF_CELL, RK_PTR_ARG, RK_PTR_GLOBAL, RK_PTR_CELL, RK_PTR_NULL, RK_VOID, RK_THROW_STD, RK_THROW_NONSTD,
               RK_STR_GLOBAL, RK_STR_MAP, RK_STR_MEMBER, RK_STR_COPY, RK_STR_DATA, RK_STR_ARG, RK_VEC_GLOBAL, RK_VEC_MAP, RK_VEC_MEMBER, RK_VEC_COPY, RK_VEC_DATA,
               RK_THROW_ARG };   // THROW of a value computed from _1 alone (the clause names nothing of its surroundings)
static bool uses_retv(int rk) { return rk == RK_VAL_DATA || rk == RK_REF_CELL || rk == RK_PTR_CELL || rk == RK_STR_COPY || rk == RK_STR_DATA || rk == RK_VEC_COPY || rk == RK_VEC_DATA; }
static bool names_lvalue_object(int rk) { return rk == RK_STR_GLOBAL || rk == RK_STR_MAP || rk == RK_STR_MEMBER || rk == RK_STR_ARG || rk == RK_VEC_GLOBAL || rk == RK_VEC_MAP || rk == RK_VEC_MEMBER; }
struct TermInfo { int res; bool logged; };
enum BndKind { B_ALLOW, B_REQ, B_RT, B_RTE, B_T2, B_AL1, B_AM2 };
struct SiteDesc { const char* name; int fn, nW, nFX; TermInfo term; int bnd; unsigned long line; Maker mk; };
static std::vector<SiteDesc>& sites() { static std::vector<SiteDesc> v; return v; }
struct Reg { explicit Reg(const SiteDesc& d) { sites().push_back(d); } };

#define C8_CAT_(a, b) a##b
#define C8_CAT(a, b) C8_CAT_(a, b)

// argument expression handed to with_eval
#define C8_ARG_v _1
#define C8_ARG_r _1
#define C8_ARG_cr _1
#define C8_ARG_p *_1
#define C8_ARG_n _1
#define C8_ARG_s _1
#define C8_ARG_vec _1
#define C8_ARG_sr str_code(_1)

// WITH variants: <count><spellings>, p = plain, l = LR_. C8_Wk_<variant>(A) is the k-th clause or nothing.
#define C8_WP(k, A) .WITH(with_eval(I, k, A))
#define C8_WL(k, A) .LR_WITH(with_eval(I, k, A))
#define C8_NW_W0 0
#define C8_W0_W0(A)
#define C8_W1_W0(A)
#define C8_W2_W0(A)
#define C8_NW_W1p 1
#define C8_W0_W1p(A) C8_WP(0, A)
#define C8_W1_W1p(A)
#define C8_W2_W1p(A)
#define C8_NW_W1l 1
#define C8_W0_W1l(A) C8_WL(0, A)
#define C8_W1_W1l(A)
#define C8_W2_W1l(A)
#define C8_NW_W2pl 2
#define C8_W0_W2pl(A) C8_WP(0, A)
#define C8_W1_W2pl(A) C8_WL(1, A)
#define C8_W2_W2pl(A)
#define C8_NW_W2lp 2
#define C8_W0_W2lp(A) C8_WL(0, A)
#define C8_W1_W2lp(A) C8_WP(1, A)
#define C8_W2_W2lp(A)
#define C8_NW_W3plp 3
#define C8_W0_W3plp(A) C8_WP(0, A)
#define C8_W1_W3plp(A) C8_WL(1, A)
#define C8_W2_W3plp(A) C8_WP(2, A)
#define C8_NW_W3lpl 3
#define C8_W0_W3lpl(A) C8_WL(0, A)
#define C8_W1_W3lpl(A) C8_WP(1, A)
#define C8_W2_W3lpl(A) C8_WL(2, A)

// SIDE_EFFECT variants
#define C8_FP(k) .SIDE_EFFECT(fx(I, k))
#define C8_FL(k) .LR_SIDE_EFFECT(fx(I, k))
#define C8_NF_F0 0
#define C8_F0_F0
#define C8_F1_F0
#define C8_F2_F0
#define C8_NF_F1p 1
#define C8_F0_F1p C8_FP(0)
#define C8_F1_F1p
#define C8_F2_F1p
#define C8_NF_F1l 1
#define C8_F0_F1l C8_FL(0)
#define C8_F1_F1l
#define C8_F2_F1l
#define C8_NF_F2pl 2
#define C8_F0_F2pl C8_FP(0)
#define C8_F1_F2pl C8_FL(1)
#define C8_F2_F2pl
#define C8_NF_F2lp 2
#define C8_F0_F2lp C8_FL(0)
#define C8_F1_F2lp C8_FP(1)
#define C8_F2_F2lp
#define C8_NF_F3plp 3
#define C8_F0_F3plp C8_FP(0)
#define C8_F1_F3plp C8_FL(1)
#define C8_F2_F3plp C8_FP(2)
#define C8_NF_F3lpl 3
#define C8_F0_F3lpl C8_FL(0)
#define C8_F1_F3lpl C8_FP(1)
#define C8_F2_F3lpl C8_FL(2)

// order of the clauses in the expectation statement (T = the RETURN/THROW clause)
#define C8_SHAPE_WF(A, w, f, T) C8_W0_##w(A) C8_W1_##w(A) C8_W2_##w(A) C8_F0_##f C8_F1_##f C8_F2_##f T
#define C8_SHAPE_FW(A, w, f, T) C8_F0_##f C8_F1_##f C8_F2_##f C8_W0_##w(A) C8_W1_##w(A) C8_W2_##w(A) T
#define C8_SHAPE_IL(A, w, f, T) C8_W0_##w(A) C8_F0_##f C8_W1_##w(A) C8_F1_##f C8_W2_##w(A) C8_F2_##f T
#define C8_SHAPE_LI(A, w, f, T) C8_F0_##f C8_W0_##w(A) C8_F1_##f C8_W1_##w(A) C8_F2_##f C8_W2_##w(A) T
#define C8_SHAPE_TWF(A, w, f, T) T C8_W0_##w(A) C8_W1_##w(A) C8_W2_##w(A) C8_F0_##f C8_F1_##f C8_F2_##f
#define C8_SHAPE_FTW(A, w, f, T) C8_F0_##f C8_F1_##f C8_F2_##f T C8_W0_##w(A) C8_W1_##w(A) C8_W2_##w(A)

// RETURN / THROW forms. *L = the expression logs; others are not observable in the log, only in the outcome.
#define C8_TERM_VRL .RETURN(ret_val(I))
#define C8_TI_VRL {RK_VAL_DATA, true}
#define C8_TERM_VLL .LR_RETURN(ret_val(I))
#define C8_TI_VLL {RK_VAL_DATA, true}
#define C8_TERM_VA .RETURN(_1)
#define C8_TI_VA {RK_VAL_ARG, false}
#define C8_TERM_VTS .THROW(mk_std(I))
#define C8_TI_VTS {RK_THROW_STD, true}
#define C8_TERM_VTN .LR_THROW(mk_nonstd(I))
#define C8_TI_VTN {RK_THROW_NONSTD, true}
// a THROW expression that names nothing but _1: every call must evaluate it afresh
#define C8_TERM_VTA .THROW(mk_std_arg(_1))
#define C8_TI_VTA {RK_THROW_ARG, false}
#define C8_TERM_NTA .THROW(mk_std_arg(_1))
#define C8_TI_NTA {RK_THROW_ARG, false}
// a plain RETURN that moves from its (const, per-expectation) copy of a local: every call returns the same value
#define C8_TERM_SCM .RETURN(std::move(copy))
#define C8_TI_SCM {RK_STR_COPY, false}
#define C8_TERM_XCM .RETURN(std::move(copyv))
#define C8_TI_XCM {RK_VEC_COPY, false}
#define C8_TERM_RA .RETURN(_1)
#define C8_TI_RA {RK_REF_ARG, false}
#define C8_TERM_RAL .RETURN(ret_same(I, _1))
#define C8_TI_RAL {RK_REF_ARG, true}
#define C8_TERM_RG .LR_RETURN((g_obj))
#define C8_TI_RG {RK_REF_GLOBAL, false}
#define C8_TERM_RW .RETURN(std::ref(g_obj))
#define C8_TI_RW {RK_REF_GLOBAL, false}
#define C8_TERM_RC .LR_RETURN(ret_cell(I))
#define C8_TI_RC {RK_REF_CELL, true}
#define C8_TERM_RTS .THROW(mk_std(I))
#define C8_TI_RTS {RK_THROW_STD, true}
#define C8_TERM_CG .LR_RETURN((g_obj))
#define C8_TI_CG {RK_REF_GLOBAL, false}
#define C8_TERM_CW .RETURN(std::cref(g_obj))
#define C8_TI_CW {RK_REF_GLOBAL, false}
#define C8_TERM_CC .RETURN(ret_ccell(I))
#define C8_TI_CC {RK_REF_CELL, true}
#define C8_TERM_CTN .THROW(mk_nonstd(I))
#define C8_TI_CTN {RK_THROW_NONSTD, true}
#define C8_TERM_PA .RETURN(_1)
#define C8_TI_PA {RK_PTR_ARG, false}
#define C8_TERM_PAL .LR_RETURN(ret_ptr(I, _1))
#define C8_TI_PAL {RK_PTR_ARG, true}
#define C8_TERM_PG .RETURN(&g_obj)
#define C8_TI_PG {RK_PTR_GLOBAL, false}
#define C8_TERM_PC .RETURN(ret_pcell(I))
#define C8_TI_PC {RK_PTR_CELL, true}
#define C8_TERM_PN .RETURN(nullptr)
#define C8_TI_PN {RK_PTR_NULL, false}
#define C8_TERM_PTS .LR_THROW(mk_std(I))
#define C8_TI_PTS {RK_THROW_STD, true}
#define C8_TERM_N0
#define C8_TI_N0 {RK_VOID, false}
#define C8_TERM_NTS .THROW(mk_std(I))
#define C8_TI_NTS {RK_THROW_STD, true}
#define C8_TERM_NTN .LR_THROW(mk_nonstd(I))
#define C8_TI_NTN {RK_THROW_NONSTD, true}
// by-value std::string / std::vector<int> returns. Non-const lvalue expressions: SG SGL SM SH XG XM XH QA QAL QG;
// controls: SC XC QC (copy captured by a plain RETURN, const inside the clause), SP XP (prvalue).
#define C8_TERM_SG .LR_RETURN(g_str)
#define C8_TI_SG {RK_STR_GLOBAL, false}
#define C8_TERM_SGL .LR_RETURN(ret_gstr(I))
#define C8_TI_SGL {RK_STR_GLOBAL, true}
#define C8_TERM_SM .LR_RETURN(g_map[_1])
#define C8_TI_SM {RK_STR_MAP, false}
#define C8_TERM_SH .LR_RETURN(g_holder.member)
#define C8_TI_SH {RK_STR_MEMBER, false}
#define C8_TERM_SC .RETURN(copy)
#define C8_TI_SC {RK_STR_COPY, false}
#define C8_TERM_SP .RETURN(ret_str(I))
#define C8_TI_SP {RK_STR_DATA, true}
#define C8_TERM_STS .THROW(mk_std(I))
#define C8_TI_STS {RK_THROW_STD, true}
#define C8_TERM_XG .LR_RETURN(g_vec)
#define C8_TI_XG {RK_VEC_GLOBAL, false}
#define C8_TERM_XM .LR_RETURN(g_vmap[_1])
#define C8_TI_XM {RK_VEC_MAP, false}
#define C8_TERM_XH .LR_RETURN(g_holder.v)
#define C8_TI_XH {RK_VEC_MEMBER, false}
#define C8_TERM_XC .RETURN(copyv)
#define C8_TI_XC {RK_VEC_COPY, false}
#define C8_TERM_XP .LR_RETURN(ret_vec(I))
#define C8_TI_XP {RK_VEC_DATA, true}
#define C8_TERM_QA .RETURN(_1)
#define C8_TI_QA {RK_STR_ARG, false}
#define C8_TERM_QAL .RETURN(ret_same_str(I, _1))
#define C8_TI_QAL {RK_STR_ARG, true}
#define C8_TERM_QG .LR_RETURN(g_str)
#define C8_TI_QG {RK_STR_GLOBAL, false}
#define C8_TERM_QC .RETURN(copy)
#define C8_TI_QC {RK_STR_COPY, false}
#define C8_TERM_QTN .THROW(mk_nonstd(I))
#define C8_TI_QTN {RK_THROW_NONSTD, true}

// call-count forms
#define C8_PRE_ALLOW(fn) NAMED_ALLOW_CALL(m, fn(_))
#define C8_POST_ALLOW
#define C8_PRE_REQ(fn) NAMED_REQUIRE_CALL(m, fn(_))
#define C8_POST_REQ
#define C8_PRE_RT(fn) NAMED_REQUIRE_CALL(m, fn(_)).RT_TIMES(lo, hi)
#define C8_POST_RT
#define C8_PRE_RTE(fn) NAMED_REQUIRE_CALL(m, fn(_))
#define C8_POST_RTE .RT_TIMES(lo, hi)
#define C8_PRE_T2(fn) NAMED_REQUIRE_CALL(m, fn(_))
#define C8_POST_T2 .TIMES(2)
#define C8_PRE_AL1(fn) NAMED_REQUIRE_CALL(m, fn(_)).TIMES(AT_LEAST(1))
#define C8_POST_AL1
#define C8_PRE_AM2(fn) NAMED_REQUIRE_CALL(m, fn(_))
#define C8_POST_AM2 .TIMES(AT_MOST(2))

#define SITE(fn, w, f, shape, term, bnd)                                                                                  \
  static const Reg C8_CAT(c8_site_, __LINE__){SiteDesc{                                                                    \
      #fn "." #w "." #f "." #shape "." #term "." #bnd, F_##fn, C8_NW_##w, C8_NF_##f, C8_TI_##term, B_##bnd, __LINE__,       \
      [](Mock& m, const Inst& I, std::size_t lo, std::size_t hi) -> ExpPtr {                                               \
        (void)I; (void)lo; (void)hi;                                                                                       \
        std::string copy = data_string(RW->data[I.slot]->retv); std::vector<int> copyv = data_vec(RW->data[I.slot]->retv);  \
        (void)copy; (void)copyv;                                                                                           \
        return C8_PRE_##bnd(fn) C8_SHAPE_##shape(C8_ARG_##fn, w, f, C8_TERM_##term) C8_POST_##bnd;                         \
      }}};

// The table: per function every (#WITH, #SIDE_EFFECT) in {0..3}x{0..3}; spellings, clause order, RETURN/THROW form and
// call-count form rotate so that every RETURN/THROW form occurs with >= 2 side effects and with >= 2 WITH clauses.
// ONE SITE PER LINE.
SITE(v, W0, F0, WF, VRL, ALLOW)
SITE(v, W0, F1p, FW, VTS, ALLOW)
SITE(v, W0, F2pl, IL, VA, ALLOW)
SITE(v, W0, F3lpl, LI, VLL, AM2)
SITE(v, W1p, F0, TWF, VTN, RT)
SITE(v, W1p, F1l, FTW, VRL, T2)
SITE(v, W1l, F2pl, WF, VTS, RT)
SITE(v, W1l, F3plp, FW, VA, REQ)
SITE(v, W2pl, F0, IL, VLL, RTE)
SITE(v, W2pl, F1l, LI, VTN, AL1)
SITE(v, W2lp, F2lp, TWF, VRL, ALLOW)
SITE(v, W2lp, F3lpl, FTW, VTS, ALLOW)
SITE(v, W3plp, F0, WF, VA, ALLOW)
SITE(v, W3plp, F1p, FW, VLL, AM2)
SITE(v, W3lpl, F2pl, IL, VTN, RT)
SITE(v, W3lpl, F3lpl, LI, VRL, T2)
SITE(r, W0, F0, TWF, RAL, RT)
SITE(r, W0, F1p, FTW, RG, REQ)
SITE(r, W0, F2pl, WF, RTS, RTE)
SITE(r, W0, F3lpl, FW, RA, AL1)
SITE(r, W1p, F0, IL, RC, ALLOW)
SITE(r, W1p, F1l, LI, RW, ALLOW)
SITE(r, W1l, F2pl, TWF, RAL, ALLOW)
SITE(r, W1l, F3plp, FTW, RG, AM2)
SITE(r, W2pl, F0, WF, RTS, RT)
SITE(r, W2pl, F1l, FW, RA, T2)
SITE(r, W2lp, F2lp, IL, RC, RT)
SITE(r, W2lp, F3lpl, LI, RW, REQ)
SITE(r, W3plp, F0, TWF, RAL, RTE)
SITE(r, W3plp, F1p, FTW, RG, AL1)
SITE(r, W3lpl, F2pl, WF, RTS, ALLOW)
SITE(r, W3lpl, F3lpl, FW, RA, ALLOW)
SITE(cr, W0, F0, IL, CC, ALLOW)
SITE(cr, W0, F1p, LI, CG, AM2)
SITE(cr, W0, F2pl, TWF, CTN, RT)
SITE(cr, W0, F3lpl, FTW, CW, T2)
SITE(cr, W1p, F0, WF, CC, RT)
SITE(cr, W1p, F1l, FW, CG, REQ)
SITE(cr, W1l, F2pl, IL, CTN, RTE)
SITE(cr, W1l, F3plp, LI, CW, AL1)
SITE(cr, W2pl, F0, TWF, CC, ALLOW)
SITE(cr, W2pl, F1l, FTW, CG, ALLOW)
SITE(cr, W2lp, F2lp, WF, CTN, ALLOW)
SITE(cr, W2lp, F3lpl, FW, CW, AM2)
SITE(cr, W3plp, F0, IL, CC, RT)
SITE(cr, W3plp, F1p, LI, CG, T2)
SITE(cr, W3lpl, F2pl, TWF, CTN, RT)
SITE(cr, W3lpl, F3lpl, FTW, CW, REQ)
SITE(cr, W2pl, F3plp, WF, CC, RTE)
SITE(cr, W2lp, F3lpl, FW, CG, AL1)
SITE(p, W0, F0, IL, PAL, ALLOW)
SITE(p, W0, F1p, LI, PG, ALLOW)
SITE(p, W0, F2pl, TWF, PA, ALLOW)
SITE(p, W0, F3lpl, FTW, PTS, AM2)
SITE(p, W1p, F0, WF, PC, RT)
SITE(p, W1p, F1l, FW, PN, T2)
SITE(p, W1l, F2pl, IL, PAL, RT)
SITE(p, W1l, F3plp, LI, PG, REQ)
SITE(p, W2pl, F0, TWF, PA, RTE)
SITE(p, W2pl, F1l, FTW, PTS, AL1)
SITE(p, W2lp, F2lp, WF, PC, ALLOW)
SITE(p, W2lp, F3lpl, FW, PN, ALLOW)
SITE(p, W3plp, F0, IL, PAL, ALLOW)
SITE(p, W3plp, F1p, LI, PG, AM2)
SITE(p, W3lpl, F2pl, TWF, PA, RT)
SITE(p, W3lpl, F3lpl, FTW, PTS, T2)
SITE(n, W0, F0, WF, N0, RT)
SITE(n, W0, F1p, FW, NTS, REQ)
SITE(n, W0, F2pl, IL, N0, RTE)
SITE(n, W0, F3lpl, LI, NTN, AL1)
SITE(n, W1p, F0, TWF, N0, ALLOW)
SITE(n, W1p, F1l, FTW, NTS, ALLOW)
SITE(n, W1l, F2pl, WF, N0, ALLOW)
SITE(n, W1l, F3plp, FW, NTN, AM2)
SITE(n, W2pl, F0, IL, N0, RT)
SITE(n, W2pl, F1l, LI, NTS, T2)
SITE(n, W2lp, F2lp, TWF, N0, RT)
SITE(n, W2lp, F3lpl, FTW, NTN, REQ)
SITE(n, W3plp, F0, WF, N0, RTE)
SITE(n, W3plp, F1p, FW, NTS, AL1)
SITE(n, W3lpl, F2pl, IL, N0, ALLOW)
SITE(n, W3lpl, F3lpl, LI, NTN, ALLOW)
SITE(n, W2pl, F3plp, TWF, NTS, ALLOW)
// by-value std::string / std::vector<int> returns (move-sensitive); a subset of the clause arrangements, every form with >= 1 side effect
SITE(s, W0, F0, WF, SG, ALLOW)
SITE(s, W1p, F1l, FW, SM, ALLOW)
SITE(s, W2pl, F2lp, IL, SH, ALLOW)
SITE(s, W0, F3plp, LI, SC, ALLOW)
SITE(s, W3lpl, F1p, TWF, SP, RT)
SITE(s, W1l, F2pl, FTW, SGL, AL1)
SITE(s, W2lp, F0, WF, STS, REQ)
SITE(s, W0, F2lp, TWF, SG, T2)
SITE(s, W1p, F0, IL, SM, AM2)
SITE(s, W3plp, F3lpl, WF, SH, RTE)
SITE(vec, W0, F0, WF, XG, ALLOW)
SITE(vec, W1l, F1p, IL, XM, ALLOW)
SITE(vec, W2pl, F2pl, FW, XH, AL1)
SITE(vec, W0, F3lpl, TWF, XC, ALLOW)
SITE(vec, W3plp, F1l, LI, XP, RT)
SITE(vec, W1p, F2lp, FTW, XG, T2)
SITE(vec, W2lp, F0, WF, XM, AM2)
SITE(sr, W0, F0, WF, QA, ALLOW)
SITE(sr, W1p, F1p, FW, QAL, ALLOW)
SITE(sr, W2lp, F2pl, IL, QG, ALLOW)
SITE(sr, W0, F3plp, LI, QC, RT)
SITE(sr, W3lpl, F1l, TWF, QA, AL1)
SITE(sr, W1l, F2lp, FTW, QTN, REQ)
SITE(sr, W2pl, F0, WF, QAL, T2)
SITE(sr, W0, F1p, FTW, QA, AM2)
SITE(v, W0, F1p, WF, VTA, ALLOW)
SITE(v, W1p, F0, FW, VTA, T2)
SITE(n, W0, F1p, WF, NTA, ALLOW)
SITE(n, W1l, F2pl, IL, NTA, RT)
SITE(s, W0, F1p, WF, SCM, ALLOW)
SITE(s, W1p, F0, FW, SCM, T2)
SITE(vec, W0, F1p, WF, XCM, ALLOW)
SITE(vec, W1l, F0, IL, XCM, AM2)

static const SiteDesc* find_site(const std::string& name) {
  for (auto& s : sites()) if (name == s.name) return &s;
  return nullptr;
}
// data the site does not use is reset, so that equal behaviour means equal text (hashing, shrinking, readability)
static void canonicalize(ExpData& e) {
  const SiteDesc* d = find_site(e.site);
  if (!d) return;
  for (int k = 0; k < 3; ++k) {
    if (k >= d->nW) e.wmask[k] = 63;
    e.wmask[k] &= 63;
    if (k >= d->nFX) e.fx[k] = FxAct{};
    if (e.fx[k].kind != FX_CALL) { e.fx[k].fn = 0; e.fx[k].arg = 0; e.fx[k].swallow = 0; }
  }
  if (!uses_retv(d->term.res)) e.retv = 0;
  if (d->bnd != B_RT && d->bnd != B_RTE) { e.lo = 1; e.hi = 1; }
}
static void bounds_of(const SiteDesc& d, const ExpData& x, long& lo, long& hi) {
  switch (d.bnd) {
    case B_ALLOW: lo = 0; hi = LONG_MAX; break;
    case B_REQ: lo = 1; hi = 1; break;
    case B_T2: lo = 2; hi = 2; break;
    case B_AL1: lo = 1; hi = LONG_MAX; break;
    case B_AM2: lo = 0; hi = 2; break;
    default: lo = x.lo; hi = x.hi < 0 ? LONG_MAX : x.hi; break;
  }
}

// ---------------------------------------------------------------------------------------------------------------
// text form of a case (replay files, cur_case, hashing)
static std::string op_text(const Op& o) {
  std::ostringstream s;
  if (o.is_call) { s << "C fn=" << FN_NAME[o.fn] << " arg=" << o.arg; return s.str(); }
  const ExpData& e = o.e;
  s << "E site=" << e.site << " w=" << e.wmask[0] << "," << e.wmask[1] << "," << e.wmask[2] << " fx=";
  for (int k = 0; k < 3; ++k) s << (k ? "," : "") << e.fx[k].kind << ":" << FN_NAME[e.fx[k].fn] << ":" << e.fx[k].arg << ":" << e.fx[k].swallow;
  s << " ret=" << e.retv << " lo=" << e.lo << " hi=" << e.hi;
  return s.str();
}
static std::string case_text(const Case& c) {
  std::string s;
  for (auto& o : c) s += op_text(o) + "\n";
  return s;
}
static int fn_by_name(const char* n) {
  for (int i = 0; i < NFN; ++i) if (strcmp(n, FN_NAME[i]) == 0) return i;
  return -1;
}
static bool op_parse(const std::string& line, Op& o) {
  char a[128] = {0}, f0[8] = {0}, f1[8] = {0}, f2[8] = {0};
  if (line[0] == 'C') {
    o.is_call = true;
    if (sscanf(line.c_str(), "C fn=%7s arg=%d", a, &o.arg) != 2) return false;
    o.fn = fn_by_name(a);
    return o.fn >= 0 && o.arg >= 0 && o.arg < NARG;
  }
  if (line[0] != 'E') return false;
  ExpData& e = o.e;
  o.is_call = false;
  int n = sscanf(line.c_str(), "E site=%127s w=%d,%d,%d fx=%d:%7[a-z]:%d:%d,%d:%7[a-z]:%d:%d,%d:%7[a-z]:%d:%d ret=%d lo=%d hi=%d", a, &e.wmask[0], &e.wmask[1], &e.wmask[2],
                 &e.fx[0].kind, f0, &e.fx[0].arg, &e.fx[0].swallow, &e.fx[1].kind, f1, &e.fx[1].arg, &e.fx[1].swallow, &e.fx[2].kind, f2, &e.fx[2].arg, &e.fx[2].swallow,
                 &e.retv, &e.lo, &e.hi);
  if (n != 19) return false;
  e.site = a;
  e.fx[0].fn = fn_by_name(f0); e.fx[1].fn = fn_by_name(f1); e.fx[2].fn = fn_by_name(f2);
  for (int k = 0; k < 3; ++k) if (e.fx[k].fn < 0 || e.fx[k].kind < 0 || e.fx[k].kind > FX_CALL || e.fx[k].arg < 0 || e.fx[k].arg >= NARG) return false;
  if (!find_site(e.site)) return false;
  if (e.lo < 0 || (e.hi >= 0 && (e.hi < e.lo || e.hi < 1))) return false;
  return true;
}

// ---------------------------------------------------------------------------------------------------------------
// reference model: plain data, no library
struct CaseFacts {
  bool nontrivial = false, throwing_effect = false, nested = false, ref_return = false, ptr_return = false, lvalue_repeat = false;
  uint64_t str_returns = 0, vec_returns = 0, lvalue_returns = 0, lvalue_returns_repeated = 0;
  uint64_t calls = 0, accepted = 0, rejected = 0, nested_calls = 0, recursive_same_fn = 0, swallowed = 0, handler_not_newest = 0, saturated_skipped = 0,
           term_throw_std = 0, term_throw_nonstd = 0, fx_throw = 0, value_returns = 0, ref_returns = 0, ptr_returns = 0, void_returns = 0, with_rejections = 0,
           depth_hist[MAXDEPTH + 1] = {}, hw[4] = {}, hf[4] = {}, wfail_at[3] = {}, propagated_through_side_effect = 0, budget_noops = 0, fatal_inside_side_effect = 0;
};
struct Model {
  struct MExp { const SiteDesc* d; const ExpData* x; long lo, hi, count; };
  std::vector<MExp> exps;
  Trace t;
  CaseFacts f;

  void create(const ExpData& x) {
    const SiteDesc* d = find_site(x.site);
    MExp e{d, &x, 0, 0, 0};
    bounds_of(*d, x, e.lo, e.hi);
    exps.push_back(e);
  }
  Outcome call(int fn, int arg, int depth) {
    int id = static_cast<int>(t.frames.size());
    t.frames.push_back(Frame{fn, arg, depth});
    t.outs.emplace_back();
    f.calls++; f.depth_hist[depth]++;
    if (depth > 0) f.nested_calls++;
    Outcome o = body(id, fn, arg, depth);
    t.outs[static_cast<size_t>(id)] = o;
    return o;
  }
  Outcome body(int id, int fn, int arg, int depth) {
    Outcome o;
    int h = -1, others = 0, passed_over = 0;
    for (int s = static_cast<int>(exps.size()) - 1; s >= 0; --s) {
      MExp& e = exps[static_cast<size_t>(s)];
      if (e.d->fn != fn) continue;
      others++;
      if (h >= 0) continue;
      if (e.count >= e.hi) { f.saturated_skipped++; passed_over++; continue; }
      bool ok = true;
      for (int k = 0; k < e.d->nW && ok; ++k) if (!((e.x->wmask[k] >> arg) & 1)) { ok = false; f.wfail_at[k]++; f.with_rejections++; }
      if (ok) h = s; else passed_over++;
    }
    if (h < 0) {
      t.ev.push_back(Ev{'R', -1, -1, id, 0, 0});
      f.rejected++;
      if (depth > 0) f.fatal_inside_side_effect++;
      o.kind = O_FATAL;
      return o;
    }
    others--;
    f.accepted++;
    if (passed_over) f.handler_not_newest++;
    MExp& e = exps[static_cast<size_t>(h)];
    const SiteDesc& d = *e.d;
    f.hw[d.nW]++; f.hf[d.nFX]++;
    if ((d.nW >= 2 || d.nFX >= 2) && others > 0) f.nontrivial = true;
    e.count++;  // counted before any side effect runs: a throwing call is a handled call
    for (int k = 0; k < d.nFX; ++k) {
      t.ev.push_back(Ev{'F', h, k, id, 0, 0});
      const FxAct& a = e.x->fx[k];
      if (a.kind == FX_THROW_STD || a.kind == FX_THROW_NONSTD) {
        f.throwing_effect = true; f.fx_throw++;
        o.kind = a.kind == FX_THROW_STD ? O_EXC_FX_STD : O_EXC_FX_NONSTD; o.slot = h; o.idx = k;
        return o;
      }
      if (a.kind == FX_CALL) {
        if (depth + 1 > MAXDEPTH || static_cast<int>(t.frames.size()) >= FRAME_BUDGET) { f.budget_noops++; continue; }
        f.nested = true;
        if (a.fn == fn) f.recursive_same_fn++;
        Outcome in = call(a.fn, a.arg, depth + 1);
        bool threw = in.kind >= O_EXC_TERM_STD;
        if (threw && a.swallow) f.swallowed++;
        if (threw && !a.swallow) { f.throwing_effect = true; f.propagated_through_side_effect++; return in; }  // the very same exception leaves the outer call
      }
    }
    if (d.term.logged) t.ev.push_back(Ev{'T', h, 0, id, 0, 0});
    switch (d.term.res) {
      case RK_VAL_DATA: o.kind = O_VALUE; o.val = e.x->retv; f.value_returns++; break;
      case RK_VAL_ARG: o.kind = O_VALUE; o.val = arg; f.value_returns++; break;
      case RK_REF_ARG: o.kind = O_REF; o.addr = &g_argcell[depth]; o.val = arg; break;
      case RK_REF_GLOBAL: o.kind = O_REF; o.addr = &g_obj; o.val = GLOBAL_VALUE; break;
      case RK_REF_CELL: o.kind = O_REF; o.addr = &g_cell[h]; o.val = e.x->retv; break;
      case RK_PTR_ARG: o.kind = O_PTR; o.addr = &g_argcell[depth]; o.val = arg; break;
      case RK_PTR_GLOBAL: o.kind = O_PTR; o.addr = &g_obj; o.val = GLOBAL_VALUE; break;
      case RK_PTR_CELL: o.kind = O_PTR; o.addr = &g_cell[h]; o.val = e.x->retv; break;
      case RK_PTR_NULL: o.kind = O_PTR; o.addr = nullptr; o.val = -1; break;
      case RK_VOID: o.kind = O_VOID; f.void_returns++; break;
      case RK_STR_GLOBAL: o.kind = O_STR; o.sval = pristine_str(); break;
      case RK_STR_MAP: o.kind = O_STR; o.sval = pristine_map(arg); break;
      case RK_STR_MEMBER: o.kind = O_STR; o.sval = pristine_member(); break;
      case RK_STR_COPY: case RK_STR_DATA: o.kind = O_STR; o.sval = data_string(e.x->retv); break;
      case RK_STR_ARG: o.kind = O_STR; o.sval = arg_string(arg); break;
      case RK_VEC_GLOBAL: o.kind = O_VEC; o.sval = render(pristine_vec()); break;
      case RK_VEC_MAP: o.kind = O_VEC; o.sval = render(pristine_vmap(arg)); break;
      case RK_VEC_MEMBER: o.kind = O_VEC; o.sval = render(pristine_hvec()); break;
      case RK_VEC_COPY: case RK_VEC_DATA: o.kind = O_VEC; o.sval = render(data_vec(e.x->retv)); break;
      case RK_THROW_STD: o.kind = O_EXC_TERM_STD; o.slot = h; f.term_throw_std++; break;
      case RK_THROW_ARG: o.kind = O_EXC_TERM_STD; o.slot = 1000 + arg; f.term_throw_std++; break;
      default: o.kind = O_EXC_TERM_NONSTD; o.slot = h; f.term_throw_nonstd++; break;
    }
    if (o.kind == O_REF) { f.ref_return = true; f.ref_returns++; }
    if (o.kind == O_PTR) { f.ptr_return = true; f.ptr_returns++; }
    if (o.kind == O_STR) f.str_returns++;
    if (o.kind == O_VEC) f.vec_returns++;
    if (names_lvalue_object(d.term.res)) { f.lvalue_returns++; if (e.count >= 2) { f.lvalue_returns_repeated++; f.lvalue_repeat = true; } }
    return o;
  }
  void sweep() {
    std::vector<int> v(MAXSLOT, -1);
    for (size_t s = 0; s < exps.size(); ++s) v[s] = (exps[s].count >= exps[s].lo ? 1 : 0) | (exps[s].count >= exps[s].hi ? 2 : 0);
    t.flags.push_back(v);
  }
  void run(const Case& c) {
    for (auto& o : c) {
      if (o.is_call) call(o.fn, o.arg, 0); else create(o.e);
      sweep();
    }
  }
};

// ---------------------------------------------------------------------------------------------------------------
// the real run
struct RealRun {
  Real w;
  std::unique_ptr<Mock> mock;
  ExpPtr exps[MAXSLOT];
  int nexp = 0;

  void run(const Case& c) {
    RW = &w;
    reset_objects();
    mock.reset(new Mock);
    w.mock = mock.get();
    for (auto& o : c) {
      if (o.is_call) {
        w.in_call = true;
        invoke(*mock, o.fn, o.arg, 0, nullptr);
        w.in_call = false;
      } else {
        const SiteDesc* d = find_site(o.e.site);
        long lo, hi;
        bounds_of(*d, o.e, lo, hi);
        w.data[nexp] = &o.e;
        g_cell[nexp] = o.e.retv;
        exps[nexp] = d->mk(*mock, g_inst[nexp], static_cast<std::size_t>(lo), hi == LONG_MAX ? ~static_cast<std::size_t>(0) : static_cast<std::size_t>(hi));
        ++nexp;
      }
      std::vector<int> v(MAXSLOT, -1);
      for (int s = 0; s < nexp; ++s) v[static_cast<size_t>(s)] = (exps[s]->is_satisfied() ? 1 : 0) | (exps[s]->is_saturated() ? 2 : 0);
      w.t.flags.push_back(v);
    }
  }
  ~RealRun() {
    // unmet lower bounds give non-fatal reports here (C04's subject); nothing is recorded outside calls
    for (int s = nexp - 1; s >= 0; --s) exps[s].reset();
    mock.reset();
    RW = nullptr;
  }
};

static std::string log_text(const Trace& t, bool with_w) {
  std::string s;
  for (auto& e : t.ev) if (with_w || e.k != 'W') s += show(e) + " ";
  return s.empty() ? "(empty)" : s;
}
static std::string frames_text(const Trace& t) {
  std::string s;
  for (size_t i = 0; i < t.frames.size(); ++i)
    s += "call" + std::to_string(i) + "=" + FN_NAME[t.frames[i].fn] + "(" + std::to_string(t.frames[i].arg) + ")@depth" + std::to_string(t.frames[i].depth) + " -> " + show(t.outs[i]) + "; ";
  return s;
}

// compares the real trace with the model; returns "" or the description of the first disagreement
static std::string compare_core(const Case& c, const Model& m, const Real& r) {
  const Trace &x = m.t, &y = r.t;
  // 1. side effects / return expressions / reports, in order
  std::vector<Ev> yy;
  for (auto& e : y.ev) if (e.k != 'W') yy.push_back(e);
  for (size_t i = 0; i < std::max(x.ev.size(), yy.size()); ++i) {
    if (i >= yy.size()) return "clause log ends early: expected " + show(x.ev[i]) + " as entry " + std::to_string(i);
    if (i >= x.ev.size()) return "unexpected clause log entry " + show(yy[i]) + " (an evaluation the handler does not own, or a repeated one)";
    const Ev &a = x.ev[i], &b = yy[i];
    if (a.k != b.k || a.slot != b.slot || a.idx != b.idx || a.frame != b.frame) return "clause log entry " + std::to_string(i) + ": expected " + show(a) + ", observed " + show(b);
  }
  // 2. calls and their outcomes
  if (x.frames.size() != y.frames.size()) return "number of mock calls made: expected " + std::to_string(x.frames.size()) + ", observed " + std::to_string(y.frames.size());
  for (size_t i = 0; i < x.frames.size(); ++i) {
    if (x.frames[i].fn != y.frames[i].fn || x.frames[i].arg != y.frames[i].arg || x.frames[i].depth != y.frames[i].depth) return "call " + std::to_string(i) + " differs in function/argument/depth";
    if (!x.outs[i].same(y.outs[i])) return "call " + std::to_string(i) + " (" + FN_NAME[x.frames[i].fn] + "(" + std::to_string(x.frames[i].arg) + ")): caller expected " + show(x.outs[i]) + ", received " + show(y.outs[i]);
  }
  // 3. WITH passes per (call, expectation)
  struct PassState { int next = 0; bool full_pass_seen = false; };
  std::vector<PassState> st(y.frames.size() * MAXSLOT);
  std::vector<bool> handler_started(y.frames.size() * MAXSLOT, false);
  for (auto& e : y.ev) {
    if (e.k == 'R' || e.k == 'N') continue;
    if (e.frame < 0 || e.slot < 0 || e.slot >= static_cast<int>(m.exps.size())) return "clause evaluated outside any call or for an expectation that does not exist yet: " + show(e);
    size_t key = static_cast<size_t>(e.frame) * MAXSLOT + static_cast<size_t>(e.slot);
    const SiteDesc& d = *m.exps[static_cast<size_t>(e.slot)].d;
    if (e.k != 'W') {
      if (!handler_started[key]) {
        handler_started[key] = true;
        if (d.nW > 0 && !st[key].full_pass_seen) return "handler slot " + std::to_string(e.slot) + " runs " + show(e) + " without a complete passing evaluation of its WITH clauses in that call";
      }
      continue;
    }
    const Frame& fr = y.frames[static_cast<size_t>(e.frame)];
    if (d.fn != fr.fn) return "WITH of an expectation on another function evaluated: " + show(e);
    if (e.arg != fr.arg) return "WITH saw argument " + std::to_string(e.arg) + " in a call with argument " + std::to_string(fr.arg) + ": " + show(e);
    PassState& p = st[key];
    if (e.idx != p.next && e.idx != 0)
      return "WITH order: " + show(e) + " evaluated when WITH #" + std::to_string(p.next) + " of slot " + std::to_string(e.slot) +
             " was due (declaration order, stop at the first that fails)";
    if (!e.res) p.next = 0;
    else if (e.idx == d.nW - 1) { p.next = 0; p.full_pass_seen = true; }
    else p.next = e.idx + 1;
  }
  // 4. the call counted: is_satisfied / is_saturated after every operation
  for (size_t i = 0; i < x.flags.size(); ++i)
    for (size_t s = 0; s < MAXSLOT; ++s)
      if (x.flags[i][s] != y.flags[i][s])
        return "after operation " + std::to_string(i) + " (" + op_text(c[i]) + ") slot " + std::to_string(s) + ": expected is_satisfied=" + std::to_string(x.flags[i][s] & 1) +
               " is_saturated=" + std::to_string((x.flags[i][s] >> 1) & 1) + " (count " + std::to_string(m.exps[s].count) + " at the end of the case, bounds " + std::to_string(m.exps[s].lo) + ".." +
               (m.exps[s].hi == LONG_MAX ? std::string("inf") : std::to_string(m.exps[s].hi)) + "), observed is_satisfied=" + std::to_string(y.flags[i][s] & 1) + " is_saturated=" + std::to_string((y.flags[i][s] >> 1) & 1);
  if (r.stray_reports) return "fatal report outside any call";
  // 5. objects named by RETURN clauses of by-value functions keep their value
  if (!r.first_damage.empty()) return "an object named by a RETURN clause did not keep its value (the caller gets a COPY when the function returns by value): " + r.first_damage;
  return "";
}
static std::string compare(const Case& c, const Model& m, const Real& r) {
  std::string why = compare_core(c, m, r);
  if (why.empty()) return why;
  return why + "\nexpected clause log (F side effect, T return/throw expression, R fatal report): " + log_text(m.t, false) +
         "\nobserved clause log, WITH entries included: " + log_text(r.t, true) +
         "\nexpected calls: " + frames_text(m.t) + "\nobserved calls: " + frames_text(r.t);
}

}  // namespace c8

// ---------------------------------------------------------------------------------------------------------------
// ASan's stack depot slows down steadily over long runs with the default 30-frame allocation contexts (rapidcheck's
// deep, varying call stacks): 50 k cases took 68 s instead of 23 s. Options given in ASAN_OPTIONS still take precedence.
extern "C" const char* __asan_default_options();
extern "C" const char* __asan_default_options() { return "malloc_context_size=10"; }

using namespace c8;
static vc::Args A;
static vc::Stats ST;
static std::string g_last_fail, g_last_msg;
static Case g_last_case;

static bool valid_case(const Case& c) {
  int ne = 0;
  for (auto& o : c) if (!o.is_call) ++ne;
  return ne <= MAXSLOT;
}

static void account(const Case& c, const CaseFacts& f) {
  ST.evaluations++;
  if (f.throwing_effect) ST.label("cases_with_throwing_effect");
  if (f.nested) ST.label("cases_with_nested_call");
  if (f.ref_return) ST.label("cases_with_reference_return");
  if (f.ptr_return) ST.label("cases_with_pointer_return");
  if (f.nontrivial) ST.label("cases_nontrivial");
  ST.label("calls", f.calls);
  ST.label("calls_accepted", f.accepted);
  ST.label("calls_rejected_fatal_report", f.rejected);
  ST.label("calls_rejected_inside_side_effect", f.fatal_inside_side_effect);
  ST.label("calls_nested", f.nested_calls);
  ST.label("calls_nested_same_function", f.recursive_same_fn);
  ST.label("calls_handler_not_newest", f.handler_not_newest);
  ST.label("candidates_saturated_passed_over", f.saturated_skipped);
  ST.label("candidates_rejected_by_with", f.with_rejections);
  for (int k = 0; k < 3; ++k) ST.label("with_first_failure_at_" + std::to_string(k), f.wfail_at[k]);
  for (int k = 0; k < 4; ++k) { ST.label("handler_with_count_" + std::to_string(k), f.hw[k]); ST.label("handler_side_effect_count_" + std::to_string(k), f.hf[k]); }
  for (int k = 0; k <= MAXDEPTH; ++k) ST.label("calls_at_depth_" + std::to_string(k), f.depth_hist[k]);
  ST.label("side_effects_throwing", f.fx_throw);
  ST.label("side_effects_propagating_nested_exception", f.propagated_through_side_effect);
  ST.label("side_effects_swallowing_nested_exception", f.swallowed);
  ST.label("nested_calls_suppressed_by_depth_or_budget", f.budget_noops);
  ST.label("returns_value", f.value_returns);
  ST.label("returns_reference", f.ref_returns);
  ST.label("returns_pointer", f.ptr_returns);
  ST.label("returns_void", f.void_returns);
  ST.label("returns_string_by_value", f.str_returns);
  ST.label("returns_vector_by_value", f.vec_returns);
  ST.label("returns_by_value_from_nonconst_lvalue", f.lvalue_returns);
  ST.label("returns_by_value_from_nonconst_lvalue_2nd_or_later_call_of_same_expectation", f.lvalue_returns_repeated);
  if (f.lvalue_repeat) ST.label("cases_with_repeated_by_value_return_of_an_lvalue");
  ST.label("throws_std", f.term_throw_std);
  ST.label("throws_nonstd", f.term_throw_nonstd);
  if (f.nontrivial) {
    std::string txt = case_text(c);
    for (auto& ch : txt) if (ch == '\n') ch = ';';
    ST.nontrivial_case(vc::fnv1a(txt), txt);
  }
}

static std::string replay_text(const Case& c, const std::string& why) {
  std::string s = "# engine=C8 prop=C08\n";
  std::istringstream w(why);
  std::string l;
  while (std::getline(w, l)) s += "# " + l + "\n";
  s += "# slots are numbered in order of the E lines; newest expectation = last E line before the call\n";
  return s + case_text(c);
}

static int g_cur_fd = -1;
static void save_current(const Case& c) {
  if (g_cur_fd < 0) {
    std::string path = A.faildir + "/cur_case." + std::to_string(getpid()) + ".txt";
    g_cur_fd = open(path.c_str(), O_CREAT | O_WRONLY | O_TRUNC, 0644);
    if (g_cur_fd < 0) return;
  }
  std::string t = replay_text(c, "case in progress when the process ended");
  if (pwrite(g_cur_fd, t.data(), t.size(), 0) == static_cast<ssize_t>(t.size())) { if (ftruncate(g_cur_fd, static_cast<off_t>(t.size())) != 0) {} }
}

// runs one case in both worlds; "" or the disagreement
static std::string run_case(const Case& c, bool save, bool count = true) {
  if (save) save_current(c);
  Model m;
  m.run(c);
  std::string why;
  {
    RealRun rr;
    rr.run(c);
    why = compare(c, m, rr.w);
  }
  if (count) account(c, m.f);
  return why;
}

// Case-level minimisation after rapidcheck's own shrinking (which works on the sequence of random draws and cannot
// drop an operation from the middle): greedy, any disagreement counts as "still failing". Not counted as evaluations.
static Case minimize(Case c, std::string& why, const std::vector<std::vector<const SiteDesc*>>& by_fn) {
  auto fails = [&](const Case& t) { std::string w = run_case(t, true, false); if (w.empty()) return false; why = w; return true; };
  bool progress = true;
  for (int round = 0; progress && round < 20; ++round) {
    progress = false;
    for (size_t i = 0; i < c.size();) {
      Case t = c;
      t.erase(t.begin() + static_cast<long>(i));
      if (!t.empty() && fails(t)) { c = t; progress = true; } else ++i;
    }
    for (size_t i = 0; i < c.size(); ++i) {
      auto attempt = [&](const std::function<void(Op&)>& edit) {
        Case t = c;
        edit(t[i]);
        if (!t[i].is_call) canonicalize(t[i].e);
        if (case_text(t) != case_text(c) && fails(t)) { c = t; progress = true; }
      };
      if (c[i].is_call) { attempt([](Op& o) { o.arg = 0; }); continue; }
      const SiteDesc* d = find_site(c[i].e.site);
      for (const SiteDesc* alt : by_fn[static_cast<size_t>(d->fn)]) {  // a site with fewer clauses on the same function
        const SiteDesc* cur = find_site(c[i].e.site);
        if (alt->nW + alt->nFX < cur->nW + cur->nFX && alt->nW <= cur->nW && alt->nFX <= cur->nFX) attempt([&](Op& o) { o.e.site = alt->name; });
      }
      for (int k = 0; k < 3; ++k) {
        attempt([&](Op& o) { o.e.wmask[k] = 63; });
        attempt([&](Op& o) { o.e.fx[k] = FxAct{}; });
        attempt([&](Op& o) { o.e.fx[k].swallow = 0; });
        attempt([&](Op& o) { o.e.fx[k].arg = 0; });
      }
      attempt([](Op& o) { o.e.retv = 0; });
      attempt([](Op& o) { o.e.lo = 0; o.e.hi = -1; });
    }
  }
  return c;
}

static int do_replay(const std::string& path, bool verbose) {
  std::istringstream in(vc::read_file(path));
  std::string line;
  Case c;
  while (std::getline(in, line)) {
    if (line.empty() || line[0] == '#') continue;
    Op o;
    if (!op_parse(line, o)) { fprintf(stderr, "bad replay line: %s\n", line.c_str()); return 2; }
    c.push_back(o);
  }
  if (!valid_case(c)) { fprintf(stderr, "replay has more than %d E lines\n", MAXSLOT); return 2; }
  std::string why = run_case(c, false);
  if (verbose) {
    printf("%s", case_text(c).c_str());
    if (!why.empty()) printf("DISAGREEMENT: %s\n", why.c_str());
    printf("replay %s: %s\n", path.c_str(), why.empty() ? "passes" : "FAILS");
  }
  return why.empty() ? 0 : 1;
}

static int pick(int n) { return *rc::gen::resize(100, rc::gen::inRange<int>(0, n)); }

static Case gen_case(const std::vector<std::vector<const SiteDesc*>>& by_fn) {
  int primary = pick(NFN);
  int nE = 1 + pick(MAXSLOT), nC = 1 + pick(4);
  std::vector<Op> early, late, calls;
  for (int i = 0; i < nE; ++i) {
    Op o;
    int fn = (i == 0 || pick(10) < 7) ? primary : pick(NFN);  // the primary function always has an expectation
    const auto& lst = by_fn[static_cast<size_t>(fn)];
    o.e.site = lst[static_cast<size_t>(pick(static_cast<int>(lst.size())))]->name;
    for (int k = 0; k < 3; ++k) o.e.wmask[k] = pick(5) < 3 ? 63 : pick(64);
    for (int k = 0; k < 3; ++k) {
      int kk = pick(20);
      FxAct& a = o.e.fx[k];
      a.kind = kk < 9 ? FX_NONE : kk < 17 ? FX_CALL : kk < 19 ? FX_THROW_STD : FX_THROW_NONSTD;
      a.fn = pick(2) == 0 ? fn : pick(NFN);
      a.arg = pick(NARG);
      a.swallow = pick(3) == 2 ? 1 : 0;
    }
    o.e.retv = pick(1000);
    o.e.lo = pick(3);
    int h = pick(4);
    o.e.hi = h == 3 ? -1 : std::max(1, o.e.lo + h);
    canonicalize(o.e);
    (pick(5) == 4 ? late : early).push_back(o);
  }
  for (int i = 0; i < nC; ++i) {
    Op o;
    o.is_call = true;
    o.fn = pick(10) < 8 ? primary : pick(NFN);
    o.arg = pick(NARG);
    calls.push_back(o);
  }
  Case c = early;
  c.push_back(calls[0]);
  c.insert(c.end(), late.begin(), late.end());
  c.insert(c.end(), calls.begin() + 1, calls.end());
  return c;
}

int main(int argc, char** argv) {
  A = vc::parse_args(argc, argv);
  if (A.prop.empty()) A.prop = "C08";
  if (A.prop != "C08") { fprintf(stderr, "engine C8 checks C08 only\n"); return 2; }
  // the table must be usable: unique names, every function present
  std::vector<std::vector<const SiteDesc*>> by_fn(NFN);
  for (auto& s : sites()) {
    by_fn[static_cast<size_t>(s.fn)].push_back(&s);
    for (auto& o : sites()) if (&o != &s && strcmp(o.name, s.name) == 0) { fprintf(stderr, "duplicate site %s (lines %lu, %lu)\n", s.name, s.line, o.line); return 2; }
    for (auto& o : sites()) if (&o != &s && o.line == s.line) { fprintf(stderr, "two sites on line %lu\n", s.line); return 2; }
  }
  for (auto& l : by_fn) if (l.empty()) { fprintf(stderr, "a function without sites\n"); return 2; }
  trompeloeil::set_reporter(reporter);
  ST.rule = "rapidcheck: 1-4 expectations (the first always on the primary function) drawn from " + std::to_string(sites().size()) +
            " separately written sites (8 functions: int(int), int&(int&), int const&(int), int*(int*), void(int), std::string(int), std::vector<int>(int), std::string(std::string&); "
            "0-3 WITH/LR_WITH x 0-3 SIDE_EFFECT/LR_SIDE_EFFECT, 6 clause orders, 41 RETURN/LR_RETURN/THROW/LR_THROW forms incl. non-const lvalue expressions returned by value, 7 call-count forms), 70% on one primary function, created before the first call (80%) or after it; per expectation 3 WITH masks over arguments 0..5 "
            "(60% all-pass), 3 side-effect behaviours (45% none, 40% nested mock call on the own function or any other with its own argument, 1/3 of them swallowing the nested exception, 15% throw), return value, RT_TIMES bounds; "
            "1-4 top-level calls (80% primary function). Nesting depth <= 3, <= 24 calls per case. distinct = FNV-1a of the case text; non-trivial = some accepted call whose handler has >= 2 side effects or >= 2 WITH "
            "while another expectation on the same function is alive";
  ST.assumptions = {"parameter matcher is always the wildcard (matching by value is C01/C02/C10 territory)",
                    "WITH clauses never throw (find() is noexcept) and no clause creates or destroys expectations",
                    "abandoning a WITH pass by starting over at WITH #0 is tolerated; only out-of-order or continued-after-false evaluation is a violation"};
  if (!A.replay.empty()) {
    int rc = do_replay(A.replay, A.has("verbose") || !A.has("quiet"));
    ST.write(A.out);
    return rc;
  }
  bool ok = rc::check("clauses C08", [&]() {
    Case c = gen_case(by_fn);
    std::string why = run_case(c, true);
    if (!why.empty()) {
      std::string path = A.faildir + "/c8_fail.C08." + std::to_string(getpid()) + ".txt";
      vc::write_file(path, replay_text(c, why));
      g_last_fail = path;
      g_last_case = c;
      g_last_msg = why.substr(0, why.find('\n'));
      RC_FAIL(g_last_msg);
    }
  });
  if (!ok && !g_last_fail.empty()) {
    std::string why;
    Case c = minimize(g_last_case, why, by_fn);
    if (!why.empty()) {
      vc::write_file(g_last_fail, replay_text(c, why));
      g_last_msg = why.substr(0, why.find('\n'));
    }
  }
  if (!ok) ST.violations.push_back({g_last_fail, g_last_fail.empty() ? "rapidcheck reported a failure without an oracle disagreement (harness error?)" : "oracle disagreement: " + g_last_msg});
  ST.write(A.out);
  if (!ok && g_last_fail.empty()) return 2;
  return ok ? 0 : 1;
}

// Common support for all engines: CLI, counters, distinct-hash set, samples, JSON result.
// No dependency on trompeloeil.
#pragma once
#include <cstdint>
#include <cstdio>
#include <cstdlib>
#include <cstring>
#include <fstream>
#include <map>
#include <set>
#include <sstream>
#include <string>
#include <unordered_set>
#include <vector>
#include <unistd.h>

namespace vc {

inline uint64_t fnv1a(const void* data, size_t n, uint64_t h = 1469598103934665603ULL) {
  auto p = static_cast<const unsigned char*>(data);
  for (size_t i = 0; i < n; ++i) { h ^= p[i]; h *= 1099511628211ULL; }
  return h;
}
inline uint64_t fnv1a(const std::string& s, uint64_t h = 1469598103934665603ULL) {
  return fnv1a(s.data(), s.size(), h);
}

inline std::string json_escape(const std::string& s) {
  std::string o;
  o.reserve(s.size() + 8);
  for (unsigned char c : s) {
    switch (c) {
      case '"': o += "\\\""; break;
      case '\\': o += "\\\\"; break;
      case '\n': o += "\\n"; break;
      case '\r': o += "\\r"; break;
      case '\t': o += "\\t"; break;
      default:
        if (c < 0x20 || c >= 0x7f) { char b[8]; snprintf(b, sizeof b, "\\u%04x", c); o += b; }
        else o += static_cast<char>(c);
    }
  }
  return o;
}

struct Args {
  std::string prop = "";
  std::string tier = "quick";
  std::string out = "";
  std::string replay = "";
  std::string profile = "";
  std::string faildir = ".";
  long seed = 1;
  long cases = 0;      // 0 = engine default for tier
  long size = 0;       // 0 = engine default
  int shard = 0, nshards = 1;
  std::map<std::string, std::string> extra;
  bool has(const std::string& k) const { return extra.count(k) != 0; }
  std::string get(const std::string& k, const std::string& d = "") const {
    auto i = extra.find(k); return i == extra.end() ? d : i->second;
  }
  long geti(const std::string& k, long d) const {
    auto i = extra.find(k); return i == extra.end() ? d : atol(i->second.c_str());
  }
};

inline Args parse_args(int argc, char** argv) {
  Args a;
  for (int i = 1; i < argc; ++i) {
    std::string k = argv[i];
    if (k.rfind("--", 0) != 0) { a.extra["_pos" + std::to_string(i)] = k; continue; }
    k = k.substr(2);
    std::string v;
    auto eq = k.find('=');
    if (eq != std::string::npos) { v = k.substr(eq + 1); k = k.substr(0, eq); }
    else if (i + 1 < argc && strncmp(argv[i + 1], "--", 2) != 0) v = argv[++i];
    else v = "1";
    if (k == "prop") a.prop = v;
    else if (k == "tier") a.tier = v;
    else if (k == "out") a.out = v;
    else if (k == "replay") a.replay = v;
    else if (k == "profile") a.profile = v;
    else if (k == "faildir") a.faildir = v;
    else if (k == "seed") a.seed = atol(v.c_str());
    else if (k == "cases") a.cases = atol(v.c_str());
    else if (k == "size") a.size = atol(v.c_str());
    else if (k == "shard") { a.shard = atoi(v.c_str()); auto s = v.find('/'); if (s != std::string::npos) a.nshards = atoi(v.c_str() + s + 1); }
    else a.extra[k] = v;
  }
  return a;
}

// Per-run statistics, merged by bin/check across shards.
struct Stats {
  uint64_t evaluations = 0;
  std::map<std::string, uint64_t> labels;
  std::unordered_set<uint64_t> nontrivial;      // hashes of distinct non-trivial cases
  std::vector<std::string> samples;             // rendered cases
  size_t max_samples = 5;
  std::string rule;
  std::vector<std::string> assumptions;
  std::vector<std::pair<std::string, std::string>> violations;     // (replay path, message)
  std::vector<std::pair<std::string, std::string>> known_findings; // (key, message)
  std::map<std::string, std::string> extra_json;                   // raw JSON values
  bool exhaustive = false;

  void label(const std::string& l, uint64_t n = 1) { labels[l] += n; }
  void nontrivial_case(uint64_t h, const std::string& rendered) {
    if (nontrivial.insert(h).second) {
      // keep a spread of samples: first few, then reservoir by hash
      if (samples.size() < max_samples) samples.push_back(rendered);
      else if ((h % 97) == 0) samples[h % max_samples] = rendered;
    }
  }
  void write(const std::string& path) const {
    if (path.empty() || path.rfind("/dev/", 0) == 0) return;  // never rename() onto a device node
    std::ostringstream o;
    o << "{\n \"evaluations\": " << evaluations << ",\n \"distinct_nontrivial\": " << nontrivial.size()
      << ",\n \"exhaustive\": " << (exhaustive ? "true" : "false")
      << ",\n \"rule\": \"" << json_escape(rule) << "\",\n \"labels\": {";
    bool first = true;
    for (auto& kv : labels) { o << (first ? "" : ", ") << "\"" << json_escape(kv.first) << "\": " << kv.second; first = false; }
    o << "},\n \"samples\": [";
    first = true;
    for (auto& s : samples) { o << (first ? "" : ", ") << "\"" << json_escape(s) << "\""; first = false; }
    o << "],\n \"assumptions\": [";
    first = true;
    for (auto& s : assumptions) { o << (first ? "" : ", ") << "\"" << json_escape(s) << "\""; first = false; }
    o << "],\n \"violations\": [";
    first = true;
    for (auto& v : violations) { o << (first ? "" : ", ") << "{\"replay\": \"" << json_escape(v.first) << "\", \"message\": \"" << json_escape(v.second) << "\"}"; first = false; }
    o << "],\n \"known_findings\": [";
    first = true;
    for (auto& v : known_findings) { o << (first ? "" : ", ") << "{\"key\": \"" << json_escape(v.first) << "\", \"message\": \"" << json_escape(v.second) << "\"}"; first = false; }
    o << "]";
    for (auto& kv : extra_json) o << ",\n \"" << json_escape(kv.first) << "\": " << kv.second;
    o << "\n}\n";
    std::string tmp = path + ".tmp";
    { std::ofstream f(tmp); f << o.str(); }
    rename(tmp.c_str(), path.c_str());
    // hashes for cross-shard distinct counting
    std::ofstream hf(path + ".hashes", std::ios::binary);
    for (auto h : nontrivial) hf.write(reinterpret_cast<const char*>(&h), sizeof h);
  }
};

inline std::string read_file(const std::string& p) {
  std::ifstream f(p, std::ios::binary);
  std::ostringstream o; o << f.rdbuf(); return o.str();
}
inline void write_file(const std::string& p, const std::string& s) {
  if (p.rfind("/dev/", 0) == 0) return;
  std::string tmp = p + ".tmp" + std::to_string(getpid());
  { std::ofstream f(tmp, std::ios::binary); f << s; }
  rename(tmp.c_str(), p.c_str());
}

}  // namespace vc

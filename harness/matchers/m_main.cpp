// Engine M (property C10): run-time matcher trees built from the LIBRARY's matchers and combinators behind a
// type-erased wrapper made with the documented trompeloeil::make_matcher<V>, evaluated through
// trompeloeil::param_matches and through real mock calls, against an independent evaluator (plain C++).
//
// CLI: m_main --prop C10 --out <json> --faildir <dir> [--replay <file>] [--quiet|--verbose] [--mode enum|random]
// rapidcheck is configured through RC_PARAMS only.
#include <rapidcheck.h>
#include <fcntl.h>
#include <trompeloeil.hpp>
#include <limits>
#include <functional>
#include <memory>
#include <regex>
#include <sstream>
#include <string>
#include <type_traits>
#include <vector>
#include "common/vcommon.hpp"

// Harness glue that exists once per library matcher type is kept out of the optimiser: it only forwards to library
// templates (which are compiled as the command line says), and optimising ~250 copies of it dominated the build time.
#if defined(__clang__)
#define GLUE __attribute__((optnone, noinline))
#else
#define GLUE __attribute__((optimize("O0"), noinline))
#endif

namespace {

// =====================================================================================================
// 1. Tree description: pure data, shared by the library-side builder and the independent evaluator
// =====================================================================================================
// D_HND / D_NHND / D_CPINT: pointer-like parameter types whose null test is not the built-in one (section 3: Handle is only
// comparable with itself and implicitly constructible from nullptr; NHandle has dedicated nullptr_t comparisons and an
// explicit operator bool; int const* has a const pointee). New domains are appended: the keys are the replay format.
enum Dom : int { D_INT, D_PINT, D_UPINT, D_SPINT, D_STR, D_CSTR, D_S, D_PS, D_HND, D_NHND, D_CPINT, D_COUNT };
const char* const DOM_NAME[D_COUNT] = {"int", "int*", "unique_ptr<int>", "shared_ptr<int>", "std::string", "char const*", "S", "S*", "Handle", "NHandle", "int const*"};
const char* const DOM_KEY[D_COUNT] = {"int", "pint", "upint", "spint", "str", "cstr", "S", "pS", "hnd", "nhnd", "cpint"};

enum Kind : int { K_REL, K_WILD, K_ANY, K_VALUE, K_NULLCMP, K_RE, K_NOT, K_DEREF, K_ANYOF, K_ALLOF, K_NONEOF, K_MEMBER, K_COUNT };
const char* const KIND_KEY[K_COUNT] = {"rel", "wild", "any", "value", "nullcmp", "re", "not", "deref", "anyof", "allof", "noneof", "member"};
enum Rel : int { R_EQ, R_NE, R_LT, R_LE, R_GT, R_GE };
const char* const REL_KEY[6] = {"eq", "ne", "lt", "le", "gt", "ge"};

struct Node {
  Kind k = K_WILD;
  int rel = 0;          // K_REL: Rel; K_NULLCMP: R_EQ / R_NE
  bool typed = false;   // explicit type spelling (eq<V>(v), any_of<V>(...), re<V>(...))
  int iv = 0;           // integer operand (int domain, S::a)
  int sv = 0;           // string pool index operand (string domains, S::s)
  int form = 0;         // K_VALUE in D_CSTR: 0 nullptr, 1 std::string
                        // K_RE: 0 re(s) 1 re(s,opt) 2 re(s,match) 3 re(s,opt,match); +4: pattern passed as std::string
  bool direct = false;  // K_VALUE: handed to the enclosing any_of/all_of/none_of/MEMBER_IS as a plain value (not wrapped)
  int pat = 0;          // K_RE: pattern pool index
  bool icase = false, notbol = false;
  int member = 0;       // K_MEMBER: 0 &S::a, 1 &S::s
  std::vector<Node> kids;
};

constexpr int INT_LO = -2, INT_HI = 6;  // value domain of int, inclusive
constexpr int NPOOL = 12, NPAT = 14;
const char* const POOL[NPOOL] = {"", "a", "A", "ab", "abc", "ABC", "b", "foo", "Foo", "barfoo", "a.c", "abcabc"};
const char* const PATS[NPAT] = {"a", "^a", "c$", "^abc$", "a.c", "a\\.c", "fo+", "^$", "[A-Z]", "(abc)+$",
                                 // a back-reference, an optional group, a counted repeat, a word boundary
                                 "^(abc)\\1$", "^(a)(b)?c?$", "o{2}$", "\\bfoo"};

bool is_ptr_dom(Dom d) { return d == D_PINT || d == D_UPINT || d == D_SPINT || d == D_PS || d == D_HND || d == D_NHND || d == D_CPINT; }
Dom pointee_dom(Dom d) { return d == D_PS ? D_S : D_INT; }
bool is_set(Kind k) { return k == K_ANYOF || k == K_ALLOF || k == K_NONEOF; }
bool is_comb(Kind k) { return k == K_NOT || k == K_DEREF || is_set(k) || k == K_MEMBER; }

// Which static operand signatures of any_of/all_of/none_of are instantiated (every one is a distinct library type and
// costs compile time). mask bit i set = operand i is handed over as a plain value, otherwise as a type-erased sub-matcher.
// The same function drives the static instantiation (if constexpr) and the run-time normalisation of generated trees,
// so what is rendered is what is built.
constexpr size_t max_arity(Dom d) { return d == D_INT ? 4 : d == D_STR ? 3 : (d == D_SPINT || d == D_PS || d == D_NHND || d == D_CPINT) ? 0 : 2; }
constexpr bool sig_ok(Dom d, bool typed, size_t n, unsigned mask) {
  if (n < 1 || n > max_arity(d)) return false;
  switch (d) {
    case D_INT:
      if (mask == 0) return true;
      if (!typed) return (n == 1 && mask == 1) || (n == 2) || (n == 3 && mask == 7) || (n == 4 && mask == 15);
      return n == 3 && mask == 7;
    case D_STR:
      if (typed) return n == 2 && mask == 0;
      return mask == 0 || (n == 2 && mask == 1);
    case D_CSTR:  // operand 0 plain: nullptr; operand 1 plain: std::string (only ever generated behind a null guard)
      if (mask == 0) return !typed || n == 2;
      if (n != 2) return false;
      return mask == 1 ? !typed : typed;
    case D_PINT:
      return !typed && (mask == 0 || (n == 2 && mask == 1));
    default:
      return !typed && mask == 0;
  }
}
constexpr bool prefix_viable(Dom d, bool typed, size_t len, unsigned prefix) {
  for (size_t n = len < 1 ? 1 : len; n <= 4; ++n)
    for (unsigned m = 0; m < (1u << n); ++m)
      if ((m & ((1u << len) - 1)) == prefix && sig_ok(d, typed, n, m)) return true;
  return false;
}
// explicit type spelling instantiated for this leaf?
bool leaf_typed_ok(Dom d, Kind k, int form) {
  (void)form;
  if (k == K_REL) return d == D_INT || d == D_STR;
  if (k == K_NULLCMP) return d == D_PINT;
  return true;
}
bool kid_is_plain_candidate(Dom d, size_t pos, const Node& kid);

// ---- canonical s-expression (replay format and hash input) ----
void sexpr(const Node& n, std::string& o) {
  o += "(";
  o += KIND_KEY[n.k];
  auto num = [&](long v) { o += " " + std::to_string(v); };
  switch (n.k) {
    case K_REL: o += " "; o += REL_KEY[n.rel]; num(n.typed); num(n.iv); num(n.sv); num(n.form); break;
    case K_VALUE: num(n.iv); num(n.sv); num(n.form); num(n.direct); break;
    case K_NULLCMP: o += " "; o += REL_KEY[n.rel]; num(n.typed); break;
    case K_RE: num(n.pat); num(n.icase); num(n.notbol); num(n.form); num(n.typed); break;
    case K_ANYOF: case K_ALLOF: case K_NONEOF: num(n.typed); break;
    case K_MEMBER: num(n.member); break;
    default: break;
  }
  for (auto& k : n.kids) { o += " "; sexpr(k, o); }
  o += ")";
}
std::string sexpr(const Node& n) { std::string o; sexpr(n, o); return o; }

struct Parser {
  const std::string& s; size_t p = 0; bool ok = true;
  void ws() { while (p < s.size() && (s[p] == ' ' || s[p] == '\t')) ++p; }
  std::string tok() { ws(); size_t b = p; while (p < s.size() && s[p] != ' ' && s[p] != '(' && s[p] != ')') ++p; if (b == p) ok = false; return s.substr(b, p - b); }
  long num() { std::string t = tok(); if (t.empty()) { ok = false; return 0; } return atol(t.c_str()); }
  int rel() { std::string t = tok(); for (int i = 0; i < 6; ++i) if (t == REL_KEY[i]) return i; ok = false; return 0; }
  Node node() {
    Node n;
    ws();
    if (p >= s.size() || s[p] != '(') { ok = false; return n; }
    ++p;
    std::string k = tok();
    int ki = -1;
    for (int i = 0; i < K_COUNT; ++i) if (k == KIND_KEY[i]) ki = i;
    if (ki < 0) { ok = false; return n; }
    n.k = static_cast<Kind>(ki);
    switch (n.k) {
      case K_REL: n.rel = rel(); n.typed = num() != 0; n.iv = static_cast<int>(num()); n.sv = static_cast<int>(num()); n.form = static_cast<int>(num()); break;
      case K_VALUE: n.iv = static_cast<int>(num()); n.sv = static_cast<int>(num()); n.form = static_cast<int>(num()); n.direct = num() != 0; break;
      case K_NULLCMP: n.rel = rel(); n.typed = num() != 0; break;
      case K_RE: n.pat = static_cast<int>(num()); n.icase = num() != 0; n.notbol = num() != 0; n.form = static_cast<int>(num()); n.typed = num() != 0; break;
      case K_ANYOF: case K_ALLOF: case K_NONEOF: n.typed = num() != 0; break;
      case K_MEMBER: n.member = static_cast<int>(num()); break;
      default: break;
    }
    for (;;) {
      ws();
      if (p >= s.size()) { ok = false; return n; }
      if (s[p] == ')') { ++p; break; }
      if (s[p] != '(') { ok = false; return n; }
      n.kids.push_back(node());
      if (!ok) return n;
    }
    return n;
  }
};

// Is the tree well-formed for domain d (arity, kinds per domain, operand ranges, null guards)? Replay files and
// shrunk candidates go through this, so that the library is never driven outside its documented domain.
bool valid(const Node& n, Dom d, bool safe /* char const* known to be non-null here */) {
  auto kids = n.kids.size();
  switch (n.k) {
    case K_REL:
      if (kids || n.rel < 0 || n.rel > 5) return false;
      if (d == D_INT) return true;
      if (d == D_STR) return n.sv >= 0 && n.sv < NPOOL && n.form == 0;
      if (d == D_CSTR) return safe && n.sv >= 0 && n.sv < NPOOL && n.form == 0;
      if (d == D_S) return n.rel <= R_NE && n.sv >= 0 && n.sv < NPOOL;
      return false;
    case K_WILD: case K_ANY: return kids == 0;
    case K_VALUE:
      if (kids) return false;
      if (d == D_INT) return true;
      if (d == D_STR || d == D_S) return n.sv >= 0 && n.sv < NPOOL;
      if (d == D_CSTR) return n.form == 0 || (n.form == 1 && safe && n.sv >= 0 && n.sv < NPOOL);
      return true;  // pointers: nullptr
    case K_NULLCMP: return kids == 0 && (is_ptr_dom(d) || d == D_CSTR) && (n.rel == R_EQ || n.rel == R_NE);
    case K_RE: return kids == 0 && (d == D_STR || d == D_CSTR) && n.pat >= 0 && n.pat < NPAT && n.form >= 0 && n.form < 8 &&
                      ((n.form & 3) == 3 || ((n.form & 3) == 0 && !n.icase && !n.notbol) || ((n.form & 3) == 1 && !n.notbol) || ((n.form & 3) == 2 && !n.icase));
    case K_NOT: return kids == 1 && valid(n.kids[0], d, safe);
    case K_DEREF: return kids == 1 && is_ptr_dom(d) && valid(n.kids[0], pointee_dom(d), false);
    case K_MEMBER: return kids == 1 && d == D_S && (n.member == 0 || n.member == 1) && valid(n.kids[0], n.member == 0 ? D_INT : D_STR, false);
    case K_ANYOF: case K_ALLOF: case K_NONEOF: {
      if (kids < 1 || kids > max_arity(d)) return false;  // zero operands: undocumented, never built
      bool s = safe;
      for (size_t i = 0; i < kids; ++i) {
        if (!valid(n.kids[i], d, s)) return false;
        if (i == 0 && d == D_CSTR) {
          const Node& g = n.kids[0];
          if (n.k == K_ALLOF && g.k == K_NULLCMP && g.rel == R_NE) s = true;
          if (n.k != K_ALLOF && ((g.k == K_NULLCMP && g.rel == R_EQ) || (g.k == K_VALUE && g.form == 0))) s = true;
        }
      }
      return true;
    }
    default: return false;
  }
}

bool kid_is_plain_candidate(Dom d, size_t pos, const Node& kid) {
  if (kid.k != K_VALUE || !kid.direct) return false;
  if (d == D_CSTR) return (pos == 0 && kid.form == 0) || (pos == 1 && kid.form == 1);
  return true;
}
unsigned set_mask(const Node& n, Dom d) {
  unsigned m = 0;
  for (size_t i = 0; i < n.kids.size(); ++i) if (kid_is_plain_candidate(d, i, n.kids[i])) m |= 1u << i;
  return m;
}
// drop spellings that the builder does not instantiate, so that what is rendered is what runs
void normalise(Node& n, Dom d) {
  if (n.k == K_DEREF) { normalise(n.kids[0], pointee_dom(d)); n.kids[0].direct = false; return; }
  if (n.k == K_MEMBER) { normalise(n.kids[0], n.member == 0 ? D_INT : D_STR); return; }  // MEMBER_IS(&S::m, value) is documented
  if (n.k == K_NOT) { normalise(n.kids[0], d); n.kids[0].direct = false; return; }
  if ((n.k == K_REL || n.k == K_NULLCMP) && !leaf_typed_ok(d, n.k, n.form)) n.typed = false;
  if (is_set(n.k)) {
    for (size_t i = 0; i < n.kids.size(); ++i) {
      normalise(n.kids[i], d);
      if (n.kids[i].k == K_VALUE && !kid_is_plain_candidate(d, i, n.kids[i])) n.kids[i].direct = false;
    }
    unsigned m = set_mask(n, d);
    size_t k = n.kids.size();
    if (!sig_ok(d, n.typed, k, m)) {
      if (sig_ok(d, n.typed, k, 0)) m = 0;
      else if (sig_ok(d, false, k, m)) n.typed = false;
      else { n.typed = false; m = 0; }
      for (size_t i = 0; i < k; ++i) if (!(m & (1u << i))) n.kids[i].direct = false;
    }
  }
}
void normalise_root(Node& n, Dom d) { normalise(n, d); n.direct = false; }

// ---- human-readable C++ spelling ----
std::string cpp_str(const char* s) { return std::string("\"") + s + "\""; }
std::string pretty(const Node& n, Dom d) {
  auto T = [&](const char* name) { return std::string(name) + (n.typed ? std::string("<") + DOM_NAME[d] + ">" : ""); };
  std::string o;
  switch (n.k) {
    case K_REL:
      o = T(REL_KEY[n.rel]) + "(";
      if (d == D_INT) o += std::to_string(n.iv);
      else if (d == D_S) o += "S{" + std::to_string(n.iv) + "," + cpp_str(POOL[n.sv]) + "}";
      else o += (n.form == 1 ? cpp_str(POOL[n.sv]) : "std::string(" + cpp_str(POOL[n.sv]) + ")");
      return o + ")";
    case K_WILD: return "_";
    case K_ANY: return std::string("ANY(") + DOM_NAME[d] + ")";
    case K_VALUE:
      if (d == D_INT) o = std::to_string(n.iv);
      else if (d == D_STR) o = "std::string(" + cpp_str(POOL[n.sv]) + ")";
      else if (d == D_CSTR) o = n.form == 0 ? "nullptr" : "std::string(" + cpp_str(POOL[n.sv]) + ")";
      else if (d == D_S) o = "S{" + std::to_string(n.iv) + "," + cpp_str(POOL[n.sv]) + "}";
      else o = "nullptr";
      return n.direct ? o : "wrap(" + o + ")";
    case K_NULLCMP: return T(REL_KEY[n.rel]) + "(nullptr)";
    case K_RE: {
      o = T("re") + "(" + ((n.form & 4) ? "std::string(" + cpp_str(PATS[n.pat]) + ")" : cpp_str(PATS[n.pat]));
      if (n.form & 1) o += n.icase ? ", icase" : ", ECMAScript";
      if (n.form & 2) o += n.notbol ? ", match_not_bol" : ", match_default";
      return o + ")";
    }
    case K_NOT: return "!" + pretty(n.kids[0], d);
    case K_DEREF: return "*" + pretty(n.kids[0], pointee_dom(d));
    case K_MEMBER: return std::string("MEMBER_IS(") + (n.member == 0 ? "&S::a" : "&S::s") + ", " + pretty(n.kids[0], n.member == 0 ? D_INT : D_STR) + ")";
    case K_ANYOF: case K_ALLOF: case K_NONEOF: {
      o = T(n.k == K_ANYOF ? "any_of" : n.k == K_ALLOF ? "all_of" : "none_of") + "(";
      for (size_t i = 0; i < n.kids.size(); ++i) o += (i ? ", " : "") + pretty(n.kids[i], d);
      return o + ")";
    }
    default: return "?";
  }
}

int depth(const Node& n) { int m = 0; for (auto& k : n.kids) m = std::max(m, depth(k)); return m + 1; }
struct Shape { int nodes = 0, combs = 0, rel_in_domain = 0, typed = 0, direct = 0, kinds[K_COUNT] = {}; };
void shape(const Node& n, Dom d, Shape& s) {
  s.nodes++; s.kinds[n.k]++;
  if (is_comb(n.k)) s.combs++;
  if (n.typed) s.typed++;
  if (n.k == K_VALUE && n.direct) s.direct++;
  if (n.k == K_REL && (d != D_INT || (n.iv >= INT_LO && n.iv <= INT_HI)) && (d != D_S || (n.iv >= INT_LO && n.iv <= INT_HI))) s.rel_in_domain++;
  Dom kd = n.k == K_DEREF ? pointee_dom(d) : n.k == K_MEMBER ? (n.member == 0 ? D_INT : D_STR) : d;
  for (auto& k : n.kids) shape(k, kd, s);
}

// =====================================================================================================
// 2. Values and the independent evaluator (no trompeloeil below this line until section 3)
// =====================================================================================================
struct Val { bool null = false; int i = 0; int si = 0; };
std::string val_str(Dom d, const Val& v) {
  switch (d) {
    case D_INT: return std::to_string(v.i);
    case D_PINT: case D_UPINT: case D_SPINT: case D_CPINT: return v.null ? "nullptr" : "&" + std::to_string(v.i);
    case D_HND: return v.null ? "Handle(nullptr)" : "Handle(&" + std::to_string(v.i) + ")";
    case D_NHND: return v.null ? "NHandle()" : "NHandle(&" + std::to_string(v.i) + ")";
    case D_STR: return cpp_str(POOL[v.si]);
    case D_CSTR: return v.null ? "nullptr" : cpp_str(POOL[v.si]);
    case D_S: return "S{" + std::to_string(v.i) + "," + cpp_str(POOL[v.si]) + "}";
    case D_PS: return v.null ? "nullptr" : "&S{" + std::to_string(v.i) + "," + cpp_str(POOL[v.si]) + "}";
    default: return "?";
  }
}
const std::vector<Val>& domain_values(Dom d) {
  static std::vector<Val> cache[D_COUNT];
  auto& c = cache[d];
  if (!c.empty()) return c;
  auto ints = [&](bool with_null) { if (with_null) { Val n; n.null = true; c.push_back(n); } for (int i = INT_LO; i <= INT_HI; ++i) { Val v; v.i = i; c.push_back(v); } };
  auto strs = [&](bool with_null) { if (with_null) { Val n; n.null = true; c.push_back(n); } for (int s = 0; s < NPOOL; ++s) { Val v; v.si = s; c.push_back(v); } };
  auto structs = [&](bool with_null) { if (with_null) { Val n; n.null = true; c.push_back(n); } for (int i = INT_LO; i <= INT_HI; ++i) for (int s = 0; s < NPOOL; ++s) { Val v; v.i = i; v.si = s; c.push_back(v); } };
  switch (d) {
    case D_INT: ints(false); break;
    case D_PINT: case D_UPINT: case D_SPINT: case D_HND: case D_NHND: case D_CPINT: ints(true); break;
    case D_STR: strs(false); break;
    case D_CSTR: strs(true); break;
    case D_S: structs(false); break;
    case D_PS: structs(true); break;
    default: break;
  }
  return c;
}

int lexcmp(const char* a, const char* b) {  // own lexicographic comparison on unsigned chars
  for (;; ++a, ++b) {
    unsigned char x = static_cast<unsigned char>(*a), y = static_cast<unsigned char>(*b);
    if (x != y) return x < y ? -1 : 1;
    if (!x) return 0;
  }
}
bool relop(int rel, int c) {  // c = sign of (x compared with operand)
  switch (rel) { case R_EQ: return c == 0; case R_NE: return c != 0; case R_LT: return c < 0; case R_LE: return c <= 0; case R_GT: return c > 0; default: return c >= 0; }
}
const std::regex& oracle_rx(int pat, bool icase) {
  static std::unique_ptr<std::regex> cache[NPAT][2];
  auto& c = cache[pat][icase];
  if (!c) c.reset(new std::regex(PATS[pat], icase ? std::regex_constants::icase : std::regex_constants::ECMAScript));
  return *c;
}
bool oracle(const Node& n, Dom d, const Val& v) {
  switch (n.k) {
    case K_REL:
      if (d == D_INT) return relop(n.rel, v.i < n.iv ? -1 : v.i > n.iv ? 1 : 0);
      if (d == D_S) { bool e = v.i == n.iv && lexcmp(POOL[v.si], POOL[n.sv]) == 0; return n.rel == R_EQ ? e : !e; }
      if (v.null) return false;  // only reachable behind a null guard, where the value is irrelevant
      return relop(n.rel, lexcmp(POOL[v.si], POOL[n.sv]));
    case K_WILD: case K_ANY: return true;
    case K_VALUE:
      if (d == D_INT) return v.i == n.iv;
      if (d == D_STR) return lexcmp(POOL[v.si], POOL[n.sv]) == 0;
      if (d == D_CSTR) return n.form == 0 ? v.null : (!v.null && lexcmp(POOL[v.si], POOL[n.sv]) == 0);
      if (d == D_S) return v.i == n.iv && lexcmp(POOL[v.si], POOL[n.sv]) == 0;
      return v.null;  // nullptr
    case K_NULLCMP: return n.rel == R_EQ ? v.null : !v.null;
    case K_RE: {
      if (v.null) return false;
      const char* s = POOL[v.si];
      return std::regex_search(s, s + strlen(s), oracle_rx(n.pat, n.icase), n.notbol ? std::regex_constants::match_not_bol : std::regex_constants::match_default);
    }
    case K_NOT: return !oracle(n.kids[0], d, v);
    case K_DEREF: return !v.null && oracle(n.kids[0], pointee_dom(d), v);
    case K_MEMBER: return oracle(n.kids[0], n.member == 0 ? D_INT : D_STR, v);
    case K_ANYOF: { bool r = false; for (auto& k : n.kids) r = oracle(k, d, v) || r; return r; }
    case K_ALLOF: { bool r = true; for (auto& k : n.kids) r = oracle(k, d, v) && r; return r; }
    case K_NONEOF: { bool r = false; for (auto& k : n.kids) r = oracle(k, d, v) || r; return !r; }
    default: return false;
  }
}

// =====================================================================================================
// 3. Library side: type-erased matcher made with make_matcher<V>, leaves and combinators are the library's
// =====================================================================================================
struct S { int a; std::string s; };
bool operator==(S const& x, S const& y) { return x.a == y.a && x.s == y.s; }
bool operator!=(S const& x, S const& y) { return !(x == y); }
std::ostream& operator<<(std::ostream& os, S const& v) { return os << "S{" << v.a << ",\"" << v.s << "\"}"; }

// ---- user-defined pointer-like parameter types. Dereferencing a null one is not left to a crash: it is counted, yields
// a reference to a sink holding 0 (a value inside the int domain, so that the value check can fire as well), and every
// place that runs library code compares the counter before and after (null_deref_seen).
unsigned long g_null_derefs = 0;
int g_null_sink = 0;
int& null_deref_sink() { ++g_null_derefs; g_null_sink = 0; return g_null_sink; }

// (a) the only comparisons are Handle against Handle; `h != nullptr` works through the implicit constructor, there is no
// nullptr_t overload and no conversion to bool
struct Handle {
  Handle(std::nullptr_t) noexcept {}
  explicit Handle(int* q) noexcept : p(q) {}
  int& operator*() const { return p ? *p : null_deref_sink(); }
  friend bool operator==(Handle const& x, Handle const& y) noexcept { return x.p == y.p; }
  friend bool operator!=(Handle const& x, Handle const& y) noexcept { return x.p != y.p; }
  friend std::ostream& operator<<(std::ostream& os, Handle const& h) { return h.p ? os << "Handle(&" << *h.p << ")" : os << "Handle(nullptr)"; }
private:
  int* p = nullptr;
};
// (b) dedicated nullptr_t comparisons (member and friends), explicit operator bool, not constructible from nullptr
struct NHandle {
  NHandle() noexcept {}
  explicit NHandle(int* q) noexcept : p(q) {}
  int& operator*() const { return p ? *p : null_deref_sink(); }
  explicit operator bool() const noexcept { return p != nullptr; }
  bool operator==(std::nullptr_t) const noexcept { return p == nullptr; }
  bool operator!=(std::nullptr_t) const noexcept { return p != nullptr; }
  friend bool operator==(std::nullptr_t, NHandle const& x) noexcept { return x.p == nullptr; }
  friend bool operator!=(std::nullptr_t, NHandle const& x) noexcept { return x.p != nullptr; }
  friend std::ostream& operator<<(std::ostream& os, NHandle const& h) { return h.p ? os << "NHandle(&" << *h.p << ")" : os << "NHandle()"; }
private:
  int* p = nullptr;
};

template <typename V> struct Tr;
template <> struct Tr<int> { static constexpr Dom dom = D_INT; };
template <> struct Tr<int*> { static constexpr Dom dom = D_PINT; using pointee = int; };
template <> struct Tr<std::unique_ptr<int>> { static constexpr Dom dom = D_UPINT; using pointee = int; };
template <> struct Tr<std::shared_ptr<int>> { static constexpr Dom dom = D_SPINT; using pointee = int; };
template <> struct Tr<std::string> { static constexpr Dom dom = D_STR; };
template <> struct Tr<char const*> { static constexpr Dom dom = D_CSTR; };
template <> struct Tr<S> { static constexpr Dom dom = D_S; };
template <> struct Tr<S*> { static constexpr Dom dom = D_PS; using pointee = S; };
template <> struct Tr<Handle> { static constexpr Dom dom = D_HND; using pointee = int; };
template <> struct Tr<NHandle> { static constexpr Dom dom = D_NHND; using pointee = int; };
template <> struct Tr<int const*> { static constexpr Dom dom = D_CPINT; using pointee = int; };

template <typename V>
struct HolderBase {
  virtual ~HolderBase() = default;
  virtual bool matches(V const&) const = 0;
  std::string desc;
};
template <typename V>
struct DPred { bool operator()(V const& v, std::shared_ptr<HolderBase<V>> const& h) const { return h->matches(v); } };
template <typename V>
struct DPrint { void operator()(std::ostream& os, std::shared_ptr<HolderBase<V>> const& h) const { os << " matching " << h->desc; } };
template <typename V>
using DM = decltype(trompeloeil::make_matcher<V>(DPred<V>{}, DPrint<V>{}, std::shared_ptr<HolderBase<V>>{}));

template <typename V, typename M>
struct Holder : HolderBase<V> {
  M m;
  template <typename U> GLUE explicit Holder(U&& u) : m(std::forward<U>(u)) {}
  GLUE bool matches(V const& v) const override { return trompeloeil::param_matches(m, std::cref(v)); }
  GLUE ~Holder() override {}
};
// composed matchers never get copied: they are moved into a heap-allocated holder (not_matcher / ptr_deref have
// greedy forwarding constructors that hijack copies of non-const objects)
template <typename V>
__attribute__((noinline)) DM<V> wrap_holder(HolderBase<V>* raw, const Node& n) {  // per V, not per M (compile time)
  std::shared_ptr<HolderBase<V>> h(raw);
  h->desc = pretty(n, Tr<V>::dom);
  return trompeloeil::make_matcher<V>(DPred<V>{}, DPrint<V>{}, std::move(h));
}
template <typename V, typename M>
GLUE DM<V> wrap(M&& m, const Node& n) {
  return wrap_holder<V>(new Holder<V, std::decay_t<M>>(std::forward<M>(m)), n);
}

template <typename V> DM<V> build(const Node& n);

template <typename V, bool ALLOW_TYPED, typename Opnd>
GLUE DM<V> build_rel(const Node& n, Opnd const& v) {
  if constexpr (ALLOW_TYPED) if (n.typed) switch (n.rel) {
    case R_EQ: return wrap<V>(trompeloeil::eq<V>(v), n);
    case R_NE: return wrap<V>(trompeloeil::ne<V>(v), n);
    case R_LT: return wrap<V>(trompeloeil::lt<V>(v), n);
    case R_LE: return wrap<V>(trompeloeil::le<V>(v), n);
    case R_GT: return wrap<V>(trompeloeil::gt<V>(v), n);
    default: return wrap<V>(trompeloeil::ge<V>(v), n);
  }
  switch (n.rel) {
    case R_EQ: return wrap<V>(trompeloeil::eq(v), n);
    case R_NE: return wrap<V>(trompeloeil::ne(v), n);
    case R_LT: return wrap<V>(trompeloeil::lt(v), n);
    case R_LE: return wrap<V>(trompeloeil::le(v), n);
    case R_GT: return wrap<V>(trompeloeil::gt(v), n);
    default: return wrap<V>(trompeloeil::ge(v), n);
  }
}
template <typename V, bool ALLOW_TYPED, typename Opnd>
GLUE DM<V> build_eqne(const Node& n, Opnd const& v) {
  if constexpr (ALLOW_TYPED) if (n.typed) return n.rel == R_EQ ? wrap<V>(trompeloeil::eq<V>(v), n) : wrap<V>(trompeloeil::ne<V>(v), n);
  return n.rel == R_EQ ? wrap<V>(trompeloeil::eq(v), n) : wrap<V>(trompeloeil::ne(v), n);
}
template <typename V>
GLUE DM<V> build_re(const Node& n) {
  namespace rc_ = std::regex_constants;
  auto opt = n.icase ? rc_::icase : rc_::ECMAScript;
  auto mt = n.notbol ? rc_::match_not_bol : rc_::match_default;
  const char* p = PATS[n.pat];
  bool str = (n.form & 4) != 0;
  if (n.typed) switch (n.form & 3) {
    case 0: return str ? wrap<V>(trompeloeil::re<V>(std::string(p)), n) : wrap<V>(trompeloeil::re<V>(p), n);
    case 1: return str ? wrap<V>(trompeloeil::re<V>(std::string(p), opt), n) : wrap<V>(trompeloeil::re<V>(p, opt), n);
    case 2: return str ? wrap<V>(trompeloeil::re<V>(std::string(p), mt), n) : wrap<V>(trompeloeil::re<V>(p, mt), n);
    default: return str ? wrap<V>(trompeloeil::re<V>(std::string(p), opt, mt), n) : wrap<V>(trompeloeil::re<V>(p, opt, mt), n);
  }
  switch (n.form & 3) {
    case 0: return str ? wrap<V>(trompeloeil::re(std::string(p)), n) : wrap<V>(trompeloeil::re(p), n);
    case 1: return str ? wrap<V>(trompeloeil::re(std::string(p), opt), n) : wrap<V>(trompeloeil::re(p, opt), n);
    case 2: return str ? wrap<V>(trompeloeil::re(std::string(p), mt), n) : wrap<V>(trompeloeil::re(p, mt), n);
    default: return str ? wrap<V>(trompeloeil::re(std::string(p), opt, mt), n) : wrap<V>(trompeloeil::re(p, opt, mt), n);
  }
}

// the plain value a K_VALUE node stands for, handed to f with its static type
template <typename V, size_t POS, typename F>
auto with_plain(const Node& k, F&& f) {
  constexpr Dom d = Tr<V>::dom;
  if constexpr (d == D_INT) return f(int(k.iv));
  else if constexpr (d == D_STR) return f(std::string(POOL[k.sv]));
  else if constexpr (d == D_CSTR) { if constexpr (POS == 0) return f(nullptr); else return f(std::string(POOL[k.sv])); }
  else if constexpr (d == D_S) return f(S{k.iv, POOL[k.sv]});
  else return f(nullptr);
}

template <typename V, int CK, bool TYPED, typename... Ops>
GLUE DM<V> finish_set(const Node& n, Ops&&... ops) {
  if constexpr (sizeof...(Ops) == 0) { (void)n; abort(); }  // combinators with zero operands are never built
  else if constexpr (CK == K_ANYOF) {
    if constexpr (TYPED) return wrap<V>(trompeloeil::any_of<V>(std::move(ops)...), n);
    else return wrap<V>(trompeloeil::any_of(std::move(ops)...), n);
  } else if constexpr (CK == K_ALLOF) {
    if constexpr (TYPED) return wrap<V>(trompeloeil::all_of<V>(std::move(ops)...), n);
    else return wrap<V>(trompeloeil::all_of(std::move(ops)...), n);
  } else {
    if constexpr (TYPED) return wrap<V>(trompeloeil::none_of<V>(std::move(ops)...), n);
    else return wrap<V>(trompeloeil::none_of(std::move(ops)...), n);
  }
}
template <typename V, int CK, bool TYPED, unsigned MASK, typename... Ops>
GLUE DM<V> build_set(const Node& n, unsigned want, Ops&&... ops) {
  constexpr size_t pos = sizeof...(Ops);
  constexpr Dom d = Tr<V>::dom;
  if constexpr (pos >= 1 && sig_ok(d, TYPED, pos, MASK)) {
    if (pos == n.kids.size()) return finish_set<V, CK, TYPED>(n, std::move(ops)...);
  }
  if constexpr (pos < 4) {
    if (pos < n.kids.size()) {
      const Node& kid = n.kids[pos];
      if constexpr (prefix_viable(d, TYPED, pos + 1, MASK | (1u << pos))) {
        if (want & (1u << pos))
          return with_plain<V, pos>(kid, [&](auto pv) { return build_set<V, CK, TYPED, (MASK | (1u << pos))>(n, want, std::move(ops)..., std::move(pv)); });
      }
      if constexpr (prefix_viable(d, TYPED, pos + 1, MASK)) {
        if (!(want & (1u << pos))) return build_set<V, CK, TYPED, MASK>(n, want, std::move(ops)..., build<V>(kid));
      }
    }
  }
  fprintf(stderr, "m_main: operand signature not instantiated (normalise() and sig_ok() disagree)\n");
  exit(2);
}

template <typename V>
GLUE DM<V> build(const Node& n) {
  constexpr Dom d = Tr<V>::dom;
  switch (n.k) {
    case K_WILD: return wrap<V>(trompeloeil::_, n);
    case K_ANY: return wrap<V>(ANY(V), n);
    case K_NOT: return wrap<V>(!build<V>(n.kids[0]), n);
    case K_ANYOF: return n.typed ? build_set<V, K_ANYOF, true, 0u>(n, set_mask(n, d)) : build_set<V, K_ANYOF, false, 0u>(n, set_mask(n, d));
    case K_ALLOF: return n.typed ? build_set<V, K_ALLOF, true, 0u>(n, set_mask(n, d)) : build_set<V, K_ALLOF, false, 0u>(n, set_mask(n, d));
    case K_NONEOF: return n.typed ? build_set<V, K_NONEOF, true, 0u>(n, set_mask(n, d)) : build_set<V, K_NONEOF, false, 0u>(n, set_mask(n, d));
    case K_VALUE: return with_plain<V, 0>(n, [&](auto pv) {
      if constexpr (d == D_CSTR) { if (n.form == 1) return wrap<V>(std::string(POOL[n.sv]), n); }
      return wrap<V>(std::move(pv), n);
    });
    default: break;
  }
  if constexpr (d == D_INT) {
    if (n.k == K_REL) return build_rel<V, true>(n, n.iv);
  } else if constexpr (d == D_STR) {
    if (n.k == K_REL) return build_rel<V, true>(n, std::string(POOL[n.sv]));
    if (n.k == K_RE) return build_re<V>(n);
  } else if constexpr (d == D_CSTR) {
    if (n.k == K_REL) return build_rel<V, false>(n, std::string(POOL[n.sv]));
    if (n.k == K_RE) return build_re<V>(n);
    if (n.k == K_NULLCMP) return build_eqne<V, false>(n, nullptr);
  } else if constexpr (d == D_S) {
    if (n.k == K_REL) return build_eqne<V, false>(n, S{n.iv, POOL[n.sv]});
    if (n.k == K_MEMBER) {
      const Node& kid = n.kids[0];
      if (n.member == 0) {
        if (kid.k == K_VALUE && kid.direct) return wrap<V>(MEMBER_IS(&S::a, int(kid.iv)), n);
        return wrap<V>(MEMBER_IS(&S::a, build<int>(kid)), n);
      }
      if (kid.k == K_VALUE && kid.direct) return wrap<V>(MEMBER_IS(&S::s, std::string(POOL[kid.sv])), n);
      return wrap<V>(MEMBER_IS(&S::s, build<std::string>(kid)), n);
    }
  } else {  // pointers
    if (n.k == K_NULLCMP) return build_eqne<V, d == D_PINT>(n, nullptr);
    if (n.k == K_DEREF) return wrap<V>(*build<typename Tr<V>::pointee>(n.kids[0]), n);
  }
  fprintf(stderr, "m_main: node kind %s cannot be built in domain %s\n", KIND_KEY[n.k], DOM_NAME[d]);
  exit(2);
}

// a V lvalue for an abstract value
template <typename V, typename F>
auto with_value(const Val& v, F&& f) {
  constexpr Dom d = Tr<V>::dom;
  if constexpr (d == D_INT) { int x = v.i; return f(x); }
  else if constexpr (d == D_PINT) { std::unique_ptr<int> store(new int(v.i)); int* p = v.null ? nullptr : store.get(); return f(p); }
  else if constexpr (d == D_UPINT) { std::unique_ptr<int> p(v.null ? nullptr : new int(v.i)); return f(p); }
  else if constexpr (d == D_SPINT) { std::shared_ptr<int> p = v.null ? std::shared_ptr<int>() : std::make_shared<int>(v.i); return f(p); }
  else if constexpr (d == D_STR) { std::string s(POOL[v.si]); return f(s); }
  else if constexpr (d == D_CSTR) { std::string s(POOL[v.si]); char const* p = v.null ? nullptr : s.c_str(); return f(p); }
  else if constexpr (d == D_S) { S s{v.i, POOL[v.si]}; return f(s); }
  else if constexpr (d == D_HND) { std::unique_ptr<int> store(new int(v.i)); Handle h = v.null ? Handle(nullptr) : Handle(store.get()); return f(h); }
  else if constexpr (d == D_NHND) { std::unique_ptr<int> store(new int(v.i)); NHandle h = v.null ? NHandle() : NHandle(store.get()); return f(h); }
  else if constexpr (d == D_CPINT) { std::unique_ptr<int> store(new int(v.i)); int const* p = v.null ? nullptr : store.get(); return f(p); }
  else { std::unique_ptr<S> store(new S{v.i, POOL[v.si]}); S* p = v.null ? nullptr : store.get(); return f(p); }
}

// =====================================================================================================
// 4. End to end through a real mock call
// =====================================================================================================
struct fatal_report { std::string msg; };
struct Mock {
  MAKE_MOCK1(fi, void(int));
  MAKE_MOCK1(fp, void(int*));
  MAKE_MOCK1(fu, void(std::unique_ptr<int> const&));
  MAKE_MOCK1(fsp, void(std::shared_ptr<int>));
  MAKE_MOCK1(fs, void(std::string const&));
  MAKE_MOCK1(fc, void(char const*));
  MAKE_MOCK1(fS, void(S const&));
  MAKE_MOCK1(fps, void(S*));
  MAKE_MOCK1(fh, void(Handle));
  MAKE_MOCK1(fnh, void(NHandle const&));
  MAKE_MOCK1(fcp, void(int const*));
};
using Exp = std::unique_ptr<trompeloeil::expectation>;
unsigned long g_nonfatal_reports = 0;

// The root of the tree decides the static shape of the expectation: where a site exists the root combinator / leaf
// is spelled directly in the parameter list (sub-trees type-erased), otherwise the whole tree is one D<V>.
// One expectation per source line.
template <typename V> Exp make_exp(Mock& mk, const Node& r, const char*& site);

template <> Exp make_exp<int>(Mock& mk, const Node& r, const char*& site) {
  using namespace trompeloeil;
  size_t nk = r.kids.size();
  bool plain_kids = false;
  for (auto& k : r.kids) if (k.k == K_VALUE && k.direct) plain_kids = true;
  if (r.k == K_NOT) { auto k0 = build<int>(r.kids[0]); site = "int:!D";
    return NAMED_ALLOW_CALL(mk, fi(!k0)); }
  if (r.k == K_ANYOF && nk == 2 && !r.typed && !plain_kids) { auto k0 = build<int>(r.kids[0]); auto k1 = build<int>(r.kids[1]); site = "int:any_of(D,D)";
    return NAMED_ALLOW_CALL(mk, fi(trompeloeil::any_of(k0, k1))); }
  if (r.k == K_ALLOF && nk == 3 && r.typed && !plain_kids) { auto k0 = build<int>(r.kids[0]); auto k1 = build<int>(r.kids[1]); auto k2 = build<int>(r.kids[2]); site = "int:all_of<int>(D,D,D)";
    return NAMED_ALLOW_CALL(mk, fi(trompeloeil::all_of<int>(k0, k1, k2))); }
  if (r.k == K_REL && !r.typed && r.rel == R_EQ) { site = "int:eq(v)";
    return NAMED_ALLOW_CALL(mk, fi(eq(r.iv))); }
  if (r.k == K_REL && r.typed && r.rel == R_LT) { site = "int:lt<int>(v)";
    return NAMED_ALLOW_CALL(mk, fi(lt<int>(r.iv))); }
  if (r.k == K_VALUE) { site = "int:value";
    return NAMED_ALLOW_CALL(mk, fi(r.iv)); }
  if (r.k == K_WILD) { site = "int:_";
    return NAMED_ALLOW_CALL(mk, fi(_)); }
  auto d = build<int>(r); site = "int:D";
  return NAMED_ALLOW_CALL(mk, fi(d));
}
template <> Exp make_exp<int*>(Mock& mk, const Node& r, const char*& site) {
  using namespace trompeloeil;
  if (r.k == K_DEREF) { auto k0 = build<int>(r.kids[0]); site = "int*:*D";
    return NAMED_ALLOW_CALL(mk, fp(*k0)); }
  auto d = build<int*>(r); site = "int*:D";
  return NAMED_ALLOW_CALL(mk, fp(d));
}
template <> Exp make_exp<std::unique_ptr<int>>(Mock& mk, const Node& r, const char*& site) {
  if (r.k == K_DEREF) { auto k0 = build<int>(r.kids[0]); site = "unique_ptr:*D";
    return NAMED_ALLOW_CALL(mk, fu(*k0)); }
  site = nullptr;  // no site for this root shape
  return nullptr;
}
template <> Exp make_exp<std::shared_ptr<int>>(Mock& mk, const Node& r, const char*& site) {
  if (r.k == K_DEREF) { auto k0 = build<int>(r.kids[0]); site = "shared_ptr:*D";
    return NAMED_ALLOW_CALL(mk, fsp(*k0)); }
  site = nullptr;
  return nullptr;
}
template <> Exp make_exp<std::string>(Mock& mk, const Node& r, const char*& site) {
  namespace rc_ = std::regex_constants;
  if (r.k == K_RE && !r.typed) { site = "string:re(s,opt,match)";
    return NAMED_ALLOW_CALL(mk, fs(trompeloeil::re(PATS[r.pat], r.icase ? rc_::icase : rc_::ECMAScript, r.notbol ? rc_::match_not_bol : rc_::match_default))); }
  auto d = build<std::string>(r); site = "string:D";
  return NAMED_ALLOW_CALL(mk, fs(d));
}
template <> Exp make_exp<char const*>(Mock& mk, const Node& r, const char*& site) {
  namespace rc_ = std::regex_constants;
  if (r.k == K_RE && !r.typed) { site = "cstr:re(s,opt,match)";
    return NAMED_ALLOW_CALL(mk, fc(trompeloeil::re(PATS[r.pat], r.icase ? rc_::icase : rc_::ECMAScript, r.notbol ? rc_::match_not_bol : rc_::match_default))); }
  auto d = build<char const*>(r); site = "cstr:D";
  return NAMED_ALLOW_CALL(mk, fc(d));
}
template <> Exp make_exp<S>(Mock& mk, const Node& r, const char*& site) {
  if (r.k == K_MEMBER && r.member == 0 && !(r.kids[0].k == K_VALUE && r.kids[0].direct)) { site = "S:MEMBER_IS(&S::a,D)";  // operand must be an rvalue: an lvalue operand does not compile (printer lambda takes `const C&` with C = D&)
    return NAMED_ALLOW_CALL(mk, fS(MEMBER_IS(&S::a, build<int>(r.kids[0])))); }
  auto d = build<S>(r); site = "S:D";
  return NAMED_ALLOW_CALL(mk, fS(d));
}
template <> Exp make_exp<S*>(Mock& mk, const Node& r, const char*& site) {
  if (r.k == K_DEREF) { auto k0 = build<S>(r.kids[0]); site = "S*:*D";
    return NAMED_ALLOW_CALL(mk, fps(*k0)); }
  site = nullptr;
  return nullptr;
}

template <> Exp make_exp<Handle>(Mock& mk, const Node& r, const char*& site) {
  if (r.k == K_DEREF) { auto k0 = build<int>(r.kids[0]); site = "Handle:*D";
    return NAMED_ALLOW_CALL(mk, fh(*k0)); }
  if (r.k == K_NOT && r.kids[0].k == K_DEREF) { auto k0 = build<int>(r.kids[0].kids[0]); site = "Handle:!*D";
    return NAMED_ALLOW_CALL(mk, fh(!*k0)); }
  auto d = build<Handle>(r); site = "Handle:D";
  return NAMED_ALLOW_CALL(mk, fh(d));
}
template <> Exp make_exp<NHandle>(Mock& mk, const Node& r, const char*& site) {
  if (r.k == K_DEREF) { auto k0 = build<int>(r.kids[0]); site = "NHandle const&:*D";
    return NAMED_ALLOW_CALL(mk, fnh(*k0)); }
  auto d = build<NHandle>(r); site = "NHandle const&:D";
  return NAMED_ALLOW_CALL(mk, fnh(d));
}
template <> Exp make_exp<int const*>(Mock& mk, const Node& r, const char*& site) {
  if (r.k == K_DEREF) { auto k0 = build<int>(r.kids[0]); site = "int const*:*D";
    return NAMED_ALLOW_CALL(mk, fcp(*k0)); }
  site = nullptr;
  return nullptr;
}

void call_mock(Mock& mk, int& x) { mk.fi(x); }
void call_mock(Mock& mk, int*& x) { mk.fp(x); }
void call_mock(Mock& mk, std::unique_ptr<int>& x) { mk.fu(x); }
void call_mock(Mock& mk, std::shared_ptr<int>& x) { mk.fsp(x); }
void call_mock(Mock& mk, std::string& x) { mk.fs(x); }
void call_mock(Mock& mk, char const*& x) { mk.fc(x); }
void call_mock(Mock& mk, S& x) { mk.fS(x); }
void call_mock(Mock& mk, S*& x) { mk.fps(x); }
void call_mock(Mock& mk, Handle& x) { mk.fh(x); }
void call_mock(Mock& mk, NHandle& x) { mk.fnh(x); }
void call_mock(Mock& mk, int const*& x) { mk.fcp(x); }

// =====================================================================================================
// 5. One case = (domain, tree a, optional tree b for the laws, e2e flag)
// =====================================================================================================
struct Case { Dom dom = D_INT; Node a; Node b; bool has_b = false; bool e2e = false; };

vc::Args A;
vc::Stats ST;
std::string g_last_fail;
bool g_verbose = false;

std::string case_text(const Case& c, const std::string& why) {
  std::string s = "# engine=M prop=C10\n";
  std::istringstream w(why);
  std::string l;
  while (std::getline(w, l)) s += "# " + l + "\n";
  s += "# a = " + pretty(c.a, c.dom) + "\n";
  if (c.has_b) s += "# b = " + pretty(c.b, c.dom) + "\n";
  s += std::string("dom ") + DOM_KEY[c.dom] + "\n";
  s += "a " + sexpr(c.a) + "\n";
  if (c.has_b) s += "b " + sexpr(c.b) + "\n";
  s += std::string("e2e ") + (c.e2e ? "1" : "0") + "\n";
  return s;
}

int g_cur_fd = -1;
void save_current(const Case& c) {  // a sanitizer abort bypasses shrinking; leave the running case behind for the driver
  if (g_cur_fd < 0) {
    std::string path = A.faildir + "/cur_case." + std::to_string(getpid()) + ".txt";
    g_cur_fd = open(path.c_str(), O_CREAT | O_WRONLY | O_TRUNC, 0644);
    if (g_cur_fd < 0) return;
  }
  std::string t = case_text(c, "case in progress when the process ended");
  if (pwrite(g_cur_fd, t.data(), t.size(), 0) == static_cast<ssize_t>(t.size())) { if (ftruncate(g_cur_fd, static_cast<off_t>(t.size())) != 0) {} }
}

// evaluation of any library matcher on an abstract value, type-erased so that the comparison loops exist once
using EvalFn = std::function<bool(const Val&)>;
template <typename V, typename M>
EvalFn make_eval(const M& m) {
  return [&m](const Val& v) { return with_value<V>(v, [&](V& x) { return trompeloeil::param_matches(m, std::ref(x)); }); };
}

// a null Handle / NHandle was dereferenced by library code since the counter read `before`: a disagreement of its own,
// whatever the verdict computed from the sink value was
__attribute__((noinline)) bool null_deref_seen(unsigned long before, const Case& c, const std::string& where, std::string& why) {
  if (g_null_derefs == before) return false;
  ST.label("null_handle_dereferences_detected");
  if (why.empty())
    why = "the library dereferenced a null pointer-like object (" + where + "): *m must reject a null pointer without looking at the pointee\nmatcher (" +
          DOM_NAME[c.dom] + "): " + pretty(c.a, c.dom);
  return true;
}

__attribute__((noinline)) bool run_oracle(const Case& c, const EvalFn& lib, std::vector<char>& expect, std::string& why, bool account) {
  Dom d = c.dom;
  const auto& vals = domain_values(d);
  size_t acc = 0, rej = 0, nulls = 0;
  expect.assign(vals.size(), 0);
  for (size_t i = 0; i < vals.size(); ++i) {
    bool o = oracle(c.a, d, vals[i]);
    unsigned long nd0 = g_null_derefs;
    bool l = lib(vals[i]);
    null_deref_seen(nd0, c, "param_matches on value " + val_str(d, vals[i]), why);
    expect[i] = o;
    (l ? acc : rej)++;
    if (vals[i].null) nulls++;
    if (g_verbose) printf("  x = %-22s oracle %-7s library %s\n", val_str(d, vals[i]).c_str(), o ? "accept" : "reject", l ? "accept" : "reject");
    if (o != l && why.empty())
      why = std::string("param_matches disagrees with the independent evaluator\nmatcher (") + DOM_NAME[d] + "): " + pretty(c.a, d) + "\nvalue: " + val_str(d, vals[i]) +
            "\nexpected: " + (o ? "accept" : "reject") + "   library: " + (l ? "accept" : "reject");
  }
  if (account) {
    ST.label("value_evaluations", vals.size());
    ST.label("lib_accepts", acc);
    ST.label("lib_rejects", rej);
    ST.label("null_values_evaluated", nulls);
    ST.label(acc && rej ? "trees_both_outcomes" : acc ? "trees_accept_everything" : "trees_reject_everything");
  }
  return why.empty();
}

__attribute__((noinline)) bool run_law(const Case& c, const char* name, const EvalFn& l, const EvalFn& r, bool negate_r, std::string& why, bool account) {
  Dom d = c.dom;
  for (auto& v : domain_values(d)) {
    unsigned long nd0 = g_null_derefs;
    bool lv = l(v), rv = r(v);
    if (null_deref_seen(nd0, c, std::string("law ") + name + " on value " + val_str(d, v), why)) return false;
    if (negate_r) rv = !rv;
    if (lv != rv) {
      why = std::string("law violated: ") + name + "\na (" + DOM_NAME[d] + ") = " + pretty(c.a, d) + "\nb = " + pretty(c.b, d) + "\nvalue: " + val_str(d, v) +
            "\nleft side: " + (lv ? "accept" : "reject") + "   right side: " + (rv ? "accept" : "reject");
      return false;
    }
  }
  if (account) ST.label("laws_checked");
  return true;
}

__attribute__((noinline)) bool null_law_result(const Case& c, const char* what, bool s, bool ns, std::string& why, bool account) {
  if (s || !ns) {
    why = std::string("law violated: *m rejects null and !*m accepts null (") + what + ")\nm = " + pretty(c.a, c.dom) + "\n*m on null: " + (s ? "accept" : "reject") + "   !*m on null: " + (ns ? "accept" : "reject");
    return false;
  }
  if (account) ST.label("null_laws_checked");
  return true;
}

// calls the mock with (a sample of) the domain's values; `call` returns "" when accepted, otherwise the fatal report text
__attribute__((noinline)) bool run_e2e(const Case& c, const char* site, const std::function<std::string(const Val&, bool&)>& call, const std::vector<char>& expect, std::string& why, bool account) {
  Dom d = c.dom;
  const auto& vals = domain_values(d);
  if (account) ST.label(std::string("e2e_site_") + site);
  size_t step = vals.size() > 16 ? 7 : 1;
  for (size_t i = 0; i < vals.size(); i += step) {
    bool threw = false;
    unsigned long nf0 = g_nonfatal_reports, nd0 = g_null_derefs;
    std::string msg = call(vals[i], threw);
    if (null_deref_seen(nd0, c, std::string("mock call through expectation site ") + site + " with value " + val_str(d, vals[i]), why)) return false;
    bool ok = expect[i] ? !threw : (threw && msg.find("No match for call of") != std::string::npos);
    if (g_nonfatal_reports != nf0) ok = false;
    if (g_verbose) printf("  call(%s) via site %s: %s\n", val_str(d, vals[i]).c_str(), site, threw ? "fatal report" : "accepted");
    if (account) ST.label(threw ? "e2e_calls_no_match" : "e2e_calls_accepted");
    if (!ok) {
      why = std::string("mock call disagrees with the independent evaluator (expectation site ") + site + ")\nmatcher (" + DOM_NAME[d] + "): " + pretty(c.a, d) + "\nvalue: " + val_str(d, vals[i]) +
            "\nexpected: " + (expect[i] ? "call accepted" : "fatal 'No match' report") + "\nobserved: " + (threw ? "fatal report: " + msg.substr(0, 400) : std::string("call accepted")) +
            (g_nonfatal_reports != nf0 ? "\n(plus an unexpected non-fatal report)" : "");
      return false;
    }
  }
  return true;
}

template <typename V>
bool check_typed(const Case& c, std::string& why, bool account) {
  constexpr Dom d = Tr<V>::dom;
  DM<V> da = build<V>(c.a);
  std::vector<char> expect;
  EvalFn ea = make_eval<V>(da);
  if (!run_oracle(c, ea, expect, why, account)) return false;

  // ---- algebraic laws, library against library (composed matchers live as named prvalues, never copied) ----
  if (c.has_b) {
    DM<V> db = build<V>(c.b);
    (void)db;
    auto notnot_a = !!da;
    auto all_a = trompeloeil::all_of(da);
    auto none_a = trompeloeil::none_of(da);
    if (!run_law(c, "!!a == a", make_eval<V>(notnot_a), ea, false, why, account)) return false;
    if (!run_law(c, "all_of(a) == a", make_eval<V>(all_a), ea, false, why, account)) return false;
    if (!run_law(c, "none_of(a) == not a", make_eval<V>(none_a), ea, true, why, account)) return false;
    // the two-operand laws are instantiated for six of the eleven domains (build time); the combinators are generic in the parameter type
    if constexpr (d == D_INT || d == D_PINT || d == D_STR || d == D_CSTR || d == D_S || d == D_HND) {
      auto any_ab = trompeloeil::any_of(da, db);
      auto any_ba = trompeloeil::any_of(db, da);
      auto all_ab = trompeloeil::all_of(da, db);
      auto all_ba = trompeloeil::all_of(db, da);
      auto none_ab = trompeloeil::none_of(da, db);
      auto not_any_ab = !trompeloeil::any_of(da, db);
      auto not_all_ab = !trompeloeil::all_of(da, db);
      auto any_na_nb = trompeloeil::any_of(!da, !db);
      if (!run_law(c, "!any_of(a,b) == none_of(a,b)", make_eval<V>(not_any_ab), make_eval<V>(none_ab), false, why, account)) return false;
      if (!run_law(c, "any_of(a,b) == any_of(b,a)", make_eval<V>(any_ab), make_eval<V>(any_ba), false, why, account)) return false;
      if (!run_law(c, "all_of(a,b) == all_of(b,a)", make_eval<V>(all_ab), make_eval<V>(all_ba), false, why, account)) return false;
      if (!run_law(c, "!all_of(a,b) == any_of(!a,!b)", make_eval<V>(not_all_ab), make_eval<V>(any_na_nb), false, why, account)) return false;
    }
  }
  // *m on null is false, !*m on null is true, for every pointer kind over this pointee
  if constexpr (d == D_INT || d == D_S) {
    auto star = *da;
    auto nstar = !*da;
    auto null_law = [&](auto np, const char* what) {
      unsigned long nd0 = g_null_derefs;
      bool s = trompeloeil::param_matches(star, std::ref(np));
      bool ns = trompeloeil::param_matches(nstar, std::ref(np));
      if (null_deref_seen(nd0, c, std::string("null law of *m / !*m on a null ") + what, why)) return false;
      return null_law_result(c, what, s, ns, why, account);
    };
    if constexpr (d == D_INT) {
      if (!null_law(static_cast<int*>(nullptr), "int*")) return false;
      if (!null_law(std::unique_ptr<int>(), "unique_ptr<int>")) return false;
      if (!null_law(std::shared_ptr<int>(), "shared_ptr<int>")) return false;
      if (!null_law(Handle(nullptr), "Handle")) return false;
      if (!null_law(NHandle(), "NHandle")) return false;
      if (!null_law(static_cast<int const*>(nullptr), "int const*")) return false;
    } else {
      if (!null_law(static_cast<S*>(nullptr), "S*")) return false;
    }
  }

  // ---- end to end: accepted vs "No match" report ----
  if (c.e2e) {
    Mock mk;
    const char* site = "?";
    Exp e = make_exp<V>(mk, c.a, site);
    if (!e) { if (account) ST.label("e2e_skipped_no_site_for_root_shape"); return true; }
    auto call = [&](const Val& v, bool& threw) -> std::string {
      try {
        with_value<V>(v, [&](V& x) { call_mock(mk, x); return 0; });
      } catch (fatal_report& r) {
        threw = true;
        return r.msg;
      }
      return std::string();
    };
    if (!run_e2e(c, site, call, expect, why, account)) return false;
  }
  return true;
}

bool check_case(const Case& c, std::string& why, bool account) {
  switch (c.dom) {
    case D_INT: return check_typed<int>(c, why, account);
    case D_PINT: return check_typed<int*>(c, why, account);
    case D_UPINT: return check_typed<std::unique_ptr<int>>(c, why, account);
    case D_SPINT: return check_typed<std::shared_ptr<int>>(c, why, account);
    case D_STR: return check_typed<std::string>(c, why, account);
    case D_CSTR: return check_typed<char const*>(c, why, account);
    case D_S: return check_typed<S>(c, why, account);
    case D_PS: return check_typed<S*>(c, why, account);
    case D_HND: return check_typed<Handle>(c, why, account);
    case D_NHND: return check_typed<NHandle>(c, why, account);
    case D_CPINT: return check_typed<int const*>(c, why, account);
    default: return true;
  }
}

bool has_guard(const Node& n) {
  if (n.k == K_REL || (n.k == K_VALUE && n.form == 1)) return true;
  for (auto& k : n.kids) if (has_guard(k)) return true;
  return false;
}

// run + account one case; on disagreement leave a replay file behind
bool run_case(const Case& c, std::string* why_out, const char* origin) {
  save_current(c);
  ST.evaluations++;
  Shape sh;
  shape(c.a, c.dom, sh);
  int dp = depth(c.a);
  ST.label(std::string("cases_") + origin);
  ST.label(std::string("dom_") + DOM_KEY[c.dom]);
  ST.label("depth_" + std::to_string(dp));
  ST.label(std::string("root_") + KIND_KEY[c.a.k]);
  for (int k = 0; k < K_COUNT; ++k) if (sh.kinds[k]) ST.label(std::string("nodes_") + KIND_KEY[k], static_cast<uint64_t>(sh.kinds[k]));
  ST.label("nodes_explicitly_typed", static_cast<uint64_t>(sh.typed));
  ST.label("plain_values_as_direct_operands", static_cast<uint64_t>(sh.direct));
  if (c.dom == D_CSTR && has_guard(c.a)) ST.label("cstr_trees_with_null_guarded_string_operands");
  if (c.e2e) ST.label("cases_with_mock_calls");
  if (is_ptr_dom(c.dom)) {  // which pointer kind met which top-level shape
    const Node& r = c.a;
    const char* sh2 = "leaf";
    if (r.k == K_DEREF) sh2 = r.kids[0].k == K_NOT ? "*!m" : is_comb(r.kids[0].k) ? "*comb" : "*leaf";
    else if (r.k == K_NOT) sh2 = r.kids[0].k == K_DEREF ? "!*m" : "!other";
    else if (is_set(r.k)) {
      size_t derefs = 0;
      for (auto& k : r.kids) if (k.k == K_DEREF) derefs++;
      sh2 = derefs >= 2 ? "set(*a,*b)" : derefs == 1 ? "set(one *m)" : "set(no *m)";
    }
    ST.label(std::string("ptr_shape_") + DOM_KEY[c.dom] + ":" + sh2);
  }
  if (dp >= 2 && sh.combs >= 1 && sh.rel_in_domain >= 1) {
    std::string canon = std::string(DOM_KEY[c.dom]) + " " + sexpr(c.a);
    ST.nontrivial_case(vc::fnv1a(canon), std::string(DOM_NAME[c.dom]) + ": " + pretty(c.a, c.dom));
  }
  std::string why;
  bool ok = check_case(c, why, true);
  if (!ok) {
    std::string path = A.faildir + "/m_fail." + A.prop + "." + std::to_string(getpid()) + ".txt";
    vc::write_file(path, case_text(c, why));
    g_last_fail = path;
    if (why_out) *why_out = why;
  }
  return ok;
}

// =====================================================================================================
// 6. Generator (rapidcheck is the only entropy)
// =====================================================================================================
int pick(int lo, int hi_excl) { return *rc::gen::resize(100, rc::gen::inRange(lo, hi_excl)); }

struct GenCtx { int budget = 24; };

Node gen_node(Dom d, int depth_left, bool safe, GenCtx& g, int leaf_pct = 25);

Node gen_leaf(Dom d, bool safe) {
  Node n;
  int w = pick(0, 100);
  switch (d) {
    case D_INT:
      if (w < 60) { n.k = K_REL; n.rel = pick(0, 6); n.iv = pick(INT_LO - 1, INT_HI + 2); n.typed = pick(0, 2) != 0; }
      else if (w < 80) { n.k = K_VALUE; n.iv = pick(INT_LO - 1, INT_HI + 2); n.direct = pick(0, 3) != 0; }
      else if (w < 90) n.k = K_WILD;
      else n.k = K_ANY;
      break;
    case D_PINT: case D_UPINT: case D_SPINT: case D_PS: case D_HND: case D_NHND: case D_CPINT:
      if (w < 50) { n.k = K_NULLCMP; n.rel = pick(0, 2); n.typed = pick(0, 2) != 0; }
      else if (w < 70) { n.k = K_VALUE; n.direct = pick(0, 2) != 0; }
      else if (w < 85) n.k = K_WILD;
      else n.k = K_ANY;
      break;
    case D_STR:
      if (w < 35) { n.k = K_REL; n.rel = pick(0, 6); n.sv = pick(0, NPOOL); n.form = 0; n.typed = pick(0, 2) != 0; }
      else if (w < 75) { n.k = K_RE; n.pat = pick(0, NPAT); n.icase = pick(0, 2) != 0; n.notbol = pick(0, 2) != 0; n.typed = pick(0, 2) != 0; }
      else if (w < 88) { n.k = K_VALUE; n.sv = pick(0, NPOOL); n.direct = pick(0, 2) != 0; }
      else if (w < 94) n.k = K_WILD;
      else n.k = K_ANY;
      break;
    case D_CSTR:
      if (safe && w < 35) { n.k = K_REL; n.rel = pick(0, 6); n.sv = pick(0, NPOOL); n.form = 0; n.typed = pick(0, 2) != 0; }
      else if (safe && w < 45) { n.k = K_VALUE; n.form = 1; n.sv = pick(0, NPOOL); n.direct = pick(0, 2) != 0; }
      else if (w < 70) { n.k = K_RE; n.pat = pick(0, NPAT); n.icase = pick(0, 2) != 0; n.notbol = pick(0, 2) != 0; n.typed = pick(0, 2) != 0; }
      else if (w < 82) { n.k = K_NULLCMP; n.rel = pick(0, 2); n.typed = pick(0, 2) != 0; }
      else if (w < 88) { n.k = K_VALUE; n.form = 0; n.direct = pick(0, 2) != 0; }
      else if (w < 94) n.k = K_WILD;
      else n.k = K_ANY;
      break;
    case D_S:
      if (w < 50) { n.k = K_REL; n.rel = pick(0, 2); n.iv = pick(INT_LO, INT_HI + 1); n.sv = pick(0, NPOOL); n.typed = pick(0, 2) != 0; }
      else if (w < 75) { n.k = K_VALUE; n.iv = pick(INT_LO, INT_HI + 1); n.sv = pick(0, NPOOL); n.direct = pick(0, 2) != 0; }
      else if (w < 88) n.k = K_WILD;
      else n.k = K_ANY;
      break;
    default: break;
  }
  if (n.k == K_RE) {
    // pick a spelling that can express the flags
    std::vector<int> forms;
    forms.push_back(3);
    if (!n.notbol) forms.push_back(1);
    if (!n.icase) forms.push_back(2);
    if (!n.icase && !n.notbol) forms.push_back(0);
    n.form = forms[static_cast<size_t>(pick(0, static_cast<int>(forms.size())))] | (pick(0, 2) ? 4 : 0);
  }
  return n;
}

Node gen_node(Dom d, int depth_left, bool safe, GenCtx& g, int leaf_pct) {
  g.budget--;
  bool leaf_only = depth_left <= 1 || g.budget <= 0;
  if (leaf_only || pick(0, 100) < leaf_pct) return gen_leaf(d, safe);
  Node n;
  int w = pick(0, 100);
  if (is_ptr_dom(d) && w < 45) {
    n.k = K_DEREF;
    n.kids.push_back(gen_node(pointee_dom(d), depth_left - 1, false, g));
    return n;
  }
  if (d == D_S && w < 50) {
    n.k = K_MEMBER;
    n.member = pick(0, 2);
    n.kids.push_back(gen_node(n.member == 0 ? D_INT : D_STR, depth_left - 1, false, g));
    if (n.kids[0].k != K_VALUE) n.kids[0].direct = false;
    return n;
  }
  w = pick(0, 100);
  if (w < 25 || max_arity(d) == 0) {
    n.k = K_NOT;
    n.kids.push_back(gen_node(d, depth_left - 1, safe, g));
    return n;
  }
  n.k = w < 50 ? K_ANYOF : w < 75 ? K_ALLOF : K_NONEOF;
  n.typed = pick(0, 2) != 0;
  int arity = 1 + pick(0, static_cast<int>(max_arity(d)));
  bool kid_safe = safe;
  if (d == D_CSTR && !safe && pick(0, 100) < 60) {
    // the documented null-guard shapes: all_of(ne(nullptr), ...), any_of(nullptr, ...), none_of(nullptr, ...)
    Node gd;
    if (n.k == K_ALLOF) { gd.k = K_NULLCMP; gd.rel = R_NE; gd.typed = pick(0, 2) != 0; }
    else if (pick(0, 2)) { gd.k = K_NULLCMP; gd.rel = R_EQ; gd.typed = pick(0, 2) != 0; }
    else { gd.k = K_VALUE; gd.form = 0; gd.direct = pick(0, 2) != 0; }
    n.kids.push_back(gd);
    g.budget--;
    kid_safe = true;
    if (arity < 2) arity = 2;
  }
  // operands handed over as plain values: pick one of the instantiated operand signatures
  unsigned plain_mask = 0;
  if (d != D_CSTR && pick(0, 100) < 35) {
    std::vector<std::pair<unsigned, bool>> opts;
    for (unsigned m = 1; m < (1u << arity); ++m)
      for (int t = 0; t < 2; ++t)
        if (sig_ok(d, t != 0, static_cast<size_t>(arity), m)) opts.push_back({m, t != 0});
    if (!opts.empty()) {
      auto o = opts[static_cast<size_t>(pick(0, static_cast<int>(opts.size())))];
      plain_mask = o.first;
      n.typed = o.second;
    }
  }
  // pointer domains: any_of(*a, *b) / all_of(*a, *b) / none_of(*a, *b) would otherwise be rare (each operand draws * independently)
  bool all_deref = is_ptr_dom(d) && max_arity(d) >= 2 && depth_left >= 3 && plain_mask == 0 && pick(0, 100) < 35;
  if (all_deref) arity = 2;
  while (static_cast<int>(n.kids.size()) < arity) {
    size_t pos = n.kids.size();
    if (all_deref) {
      Node k;
      k.k = K_DEREF;
      g.budget--;
      k.kids.push_back(gen_node(pointee_dom(d), depth_left - 2, false, g));
      n.kids.push_back(k);
    } else if (plain_mask & (1u << pos)) {
      Node v;
      v.k = K_VALUE;
      v.direct = true;
      v.iv = pick(INT_LO - 1, INT_HI + 2);
      v.sv = pick(0, NPOOL);
      g.budget--;
      n.kids.push_back(v);
    } else if (d == D_CSTR && kid_safe && pos == 1 && arity == 2 && pick(0, 2)) {
      // all_of<char const*>(ne(nullptr), expected) / any_of<char const*>(nullptr, expected): plain std::string behind the guard
      Node v;
      v.k = K_VALUE;
      v.form = 1;
      v.direct = true;
      v.sv = pick(0, NPOOL);
      g.budget--;
      n.kids.push_back(v);
    } else {
      n.kids.push_back(gen_node(d, depth_left - 1, kid_safe, g));
    }
  }
  if (d == D_CSTR) {
    unsigned m = set_mask(n, d);
    if (!sig_ok(d, n.typed, n.kids.size(), m) && sig_ok(d, !n.typed, n.kids.size(), m)) n.typed = !n.typed;
  }
  return n;
}

Case gen_case() {
  Case c;
  int size = *rc::gen::withSize([](int s) { return rc::gen::just(s); });
  int dmax = size < 3 ? 1 : size < 12 ? 2 : size < 30 ? 3 : 4;
  int w = pick(0, 100);
  c.dom = w < 30 ? D_INT : static_cast<Dom>(1 + (w - 30) / 7);  // int 30 %, each of the other ten domains 7 %
  static_assert(D_COUNT == 11, "domain draw covers D_INT + ten others");
  c.e2e = pick(0, 5) == 0;
  GenCtx g;
  c.a = gen_node(c.dom, dmax, false, g, c.e2e ? 20 : 6);  // mock-call cases: more leaf roots, they have expectation sites of their own
  normalise_root(c.a, c.dom);
  c.has_b = pick(0, 3) != 0;
  if (c.has_b) {
    GenCtx g2; g2.budget = 6;
    c.b = gen_node(c.dom, std::min(dmax, 2), false, g2);
    normalise_root(c.b, c.dom);
  }
  return c;
}

// =====================================================================================================
// 7. Bounded exhaustive enumeration (no randomness): every int tree of depth <= 2 with up to 2 operands over
//    relational leaves with operands -3..7, wildcard, ANY and plain values; and every *leaf / !*leaf on the six
//    pointer kinds over int (int*, unique_ptr, shared_ptr, Handle, NHandle, int const*)
// =====================================================================================================
bool enumerate(std::string& why) {
  std::vector<Node> leaves;
  for (int typed = 0; typed < 2; ++typed)
    for (int r = 0; r < 6; ++r)
      for (int v = INT_LO - 1; v <= INT_HI + 1; ++v) { Node n; n.k = K_REL; n.rel = r; n.iv = v; n.typed = typed != 0; leaves.push_back(n); }
  for (int direct = 0; direct < 2; ++direct)
    for (int v = INT_LO - 1; v <= INT_HI + 1; ++v) { Node n; n.k = K_VALUE; n.iv = v; n.direct = direct != 0; leaves.push_back(n); }
  { Node n; n.k = K_WILD; leaves.push_back(n); n.k = K_ANY; leaves.push_back(n); }
  auto run = [&](Dom d, Node t) {
    Case c; c.dom = d; c.a = std::move(t);
    normalise_root(c.a, d);
    return run_case(c, &why, "enumerated");
  };
  for (auto& l : leaves) {
    if (!l.direct && !run(D_INT, l)) return false;
    if (l.direct) continue;
    Node nt; nt.k = K_NOT; nt.kids.push_back(l);
    if (!run(D_INT, nt)) return false;
    for (Dom pd : {D_PINT, D_UPINT, D_SPINT, D_HND, D_NHND, D_CPINT}) {
      Node st; st.k = K_DEREF; st.kids.push_back(l);
      if (!run(pd, st)) return false;
      Node ns; ns.k = K_NOT; ns.kids.push_back(st);
      if (!run(pd, ns)) return false;
    }
  }
  // one operand: typed and duck-typed spellings; two operands: duck-typed over the untyped leaves x all leaves
  for (Kind ck : {K_ANYOF, K_ALLOF, K_NONEOF}) {
    for (auto& l : leaves)
      for (int typed = 0; typed < 2; ++typed) { Node s; s.k = ck; s.typed = typed != 0; s.kids.push_back(l); if (!run(D_INT, s)) return false; }
    for (auto& l0 : leaves) {
      if (l0.typed) continue;
      for (auto& l1 : leaves) { Node s; s.k = ck; s.kids.push_back(l0); s.kids.push_back(l1); if (!run(D_INT, s)) return false; }
    }
  }
  return true;
}

// =====================================================================================================
// 8. Replay
// =====================================================================================================
// ---- named-lvalue laws -----------------------------------------------------------------------------------------
// Building a matcher FROM a named, non-const matcher object (`!m`, `*m`, `any_of(m, x)`, `MEMBER_IS(&S::s, m)`) must not
// change what `m` itself accepts, and the new matcher must behave as if built from a copy. Library matchers only (no
// harness wrapper), operands long enough that a move would visibly steal the buffer. Exhaustive over the string pool.
static std::string lv_long(int i) { return std::string("0123456789abcdefghij_") + POOL[i]; }
template <typename M>
static std::vector<bool> lv_eval(const M& m, const std::vector<std::string>& vals) {
  std::vector<bool> r;
  for (auto& v : vals) r.push_back(trompeloeil::param_matches(m, std::cref(v)));
  return r;
}
static bool lvalue_laws_one(int ia, int ib, int rel, std::string& why) {
  const std::string A = lv_long(ia), B = lv_long(ib);
  std::vector<std::string> vals{A, B, std::string(), lv_long((ia + 1) % NPOOL), "zzzzzzzzzzzzzzzzzzzzzzzzzzzzzzzz"};
  auto expect = [&](const std::string& opnd, const std::string& v) {
    switch (rel) { case 0: return v == opnd; case 1: return v != opnd; case 2: return v < opnd; default: return v >= opnd; }
  };
  auto fail = [&](const char* what) {
    why = std::string("named-lvalue law violated: ") + what + "\nrelation " + std::to_string(rel) + ", operand a = pool[" + std::to_string(ia) + "], b = pool[" + std::to_string(ib) + "]";
    return false;
  };
  auto run = [&](auto m, auto m2) {   // m, m2: named non-const library matchers on A resp. B
    std::vector<bool> want, want2;
    for (auto& v : vals) { want.push_back(expect(A, v)); want2.push_back(expect(B, v)); }
    if (lv_eval(m, vals) != want) return fail("fresh matcher disagrees with the relation");
    auto n = !m;                                         // negation of an lvalue
    if (lv_eval(m, vals) != want) return fail("`!m` changed the named matcher m");
    { auto r = lv_eval(n, vals); for (size_t i = 0; i < r.size(); ++i) if (r[i] == want[i]) return fail("`!m` built from an lvalue does not accept exactly what m rejects"); }
    auto n2 = !m;                                        // and again
    if (lv_eval(n2, vals) != lv_eval(n, vals) || lv_eval(m, vals) != want) return fail("a second `!m` differs / changed m");
    auto any = trompeloeil::any_of(m, m2);               // combinators from lvalues
    if (lv_eval(m, vals) != want || lv_eval(m2, vals) != want2) return fail("`any_of(m, m2)` changed a named operand");
    { auto r = lv_eval(any, vals); for (size_t i = 0; i < r.size(); ++i) if (r[i] != (want[i] || want2[i])) return fail("`any_of(m, m2)` built from lvalues is wrong"); }
    auto all = trompeloeil::all_of(m, !m2);
    if (lv_eval(m, vals) != want || lv_eval(m2, vals) != want2) return fail("`all_of(m, !m2)` changed a named operand");
    { auto r = lv_eval(all, vals); for (size_t i = 0; i < r.size(); ++i) if (r[i] != (want[i] && !want2[i])) return fail("`all_of(m, !m2)` built from lvalues is wrong"); }
    auto none = trompeloeil::none_of(m, m2);
    if (lv_eval(m, vals) != want || lv_eval(m2, vals) != want2) return fail("`none_of(m, m2)` changed a named operand");
    auto nany = !any;                                    // negation of a named combinator
    { auto r = lv_eval(any, vals); for (size_t i = 0; i < r.size(); ++i) if (r[i] != (want[i] || want2[i])) return fail("`!any` changed the named any_of"); }
    { auto r = lv_eval(nany, vals), q = lv_eval(none, vals); if (r != q) return fail("`!any_of(m, m2)` and `none_of(m, m2)` built from lvalues disagree"); }
    auto d = *m;                                         // dereference matcher from an lvalue
    if (lv_eval(m, vals) != want) return fail("`*m` changed the named matcher m");
    for (size_t i = 0; i < vals.size(); ++i) {
      const std::string* pv = &vals[i];
      if (trompeloeil::param_matches(d, std::cref(pv)) != want[i]) return fail("`*m` built from an lvalue is wrong");
    }
    auto mem = MEMBER_IS(&S::s, m);                      // member matcher from an lvalue
    if (lv_eval(m, vals) != want) return fail("`MEMBER_IS(&S::s, m)` changed the named matcher m");
    for (size_t i = 0; i < vals.size(); ++i) {
      S sv{1, vals[i]};
      if (trompeloeil::param_matches(mem, std::cref(sv)) != want[i]) return fail("`MEMBER_IS(&S::s, m)` built from an lvalue is wrong");
    }
    return true;
  };
  switch (rel) {
    case 0: return run(trompeloeil::eq(A), trompeloeil::eq(B));
    case 1: return run(trompeloeil::ne(A), trompeloeil::ne(B));
    case 2: return run(trompeloeil::lt(A), trompeloeil::lt(B));
    default: return run(trompeloeil::ge(A), trompeloeil::ge(B));
  }
}
// regular expressions kept in a named matcher
static bool lvalue_laws_re(int ia, std::string& why) {
  const std::string pat = std::string("^0123456789abcdefghij_") + (POOL[ia][0] ? POOL[ia] : "$");
  std::vector<std::string> vals{lv_long(ia), lv_long((ia + 3) % NPOOL), std::string(), "0123456789abcdefghij_"};
  auto m = trompeloeil::re(pat);
  auto before = lv_eval(m, vals);
  for (size_t i = 0; i < vals.size(); ++i)
    if (before[i] != std::regex_search(vals[i], std::regex(pat))) { why = "named-lvalue law violated: fresh re() disagrees with std::regex_search, pattern " + pat; return false; }
  auto n = !m;
  if (lv_eval(m, vals) != before) { why = "named-lvalue law violated: `!m` changed the named re() matcher, pattern " + pat; return false; }
  auto r = lv_eval(n, vals);
  for (size_t i = 0; i < r.size(); ++i) if (r[i] == before[i]) { why = "named-lvalue law violated: `!re` built from an lvalue is wrong, pattern " + pat; return false; }
  return true;
}
static bool lvalue_laws_all(std::string& why, int only_a = -1, int only_b = -1, int only_rel = -1) {
  for (int a = 0; a < NPOOL; ++a) {
    if (only_a >= 0 && a != only_a) continue;
    if (only_rel < 0 || only_rel == 9) { ST.evaluations++; if (!lvalue_laws_re(a, why)) { why += "\nlvlaw " + std::to_string(a) + " 0 9"; return false; } }
    for (int b = 0; b < NPOOL; ++b) {
      if (only_b >= 0 && b != only_b) continue;
      for (int rel = 0; rel < 4; ++rel) {
        if (only_rel >= 0 && rel != only_rel) continue;
        ST.evaluations++;
        ST.label("named_lvalue_law_cases");
        if (!lvalue_laws_one(a, b, rel, why)) { why += "\nlvlaw " + std::to_string(a) + " " + std::to_string(b) + " " + std::to_string(rel); return false; }
      }
    }
  }
  return true;
}

// ---- relational matchers on values that are not totally ordered -------------------------------------------------------
// C10 states each relational matcher through its own operator ("le(v) accepts x exactly when x<=v"). On a total order
// `x<=v` and `!(x>v)` coincide; they differ for IEEE NaN and for user types with a partial order. Exhaustive over two
// small domains: doubles {-inf, -1.5, -0.0, 0.0, 1, 2.5, inf, NaN} and the subsets of {0,1,2} ordered by inclusion.
struct PO { unsigned bits; };
static bool operator==(PO a, PO b) { return a.bits == b.bits; }
static bool operator!=(PO a, PO b) { return a.bits != b.bits; }
static bool operator<=(PO a, PO b) { return (a.bits & ~b.bits) == 0; }
static bool operator>=(PO a, PO b) { return (b.bits & ~a.bits) == 0; }
static bool operator<(PO a, PO b) { return a <= b && a.bits != b.bits; }
static bool operator>(PO a, PO b) { return a >= b && a.bits != b.bits; }
static std::ostream& operator<<(std::ostream& os, PO a) { return os << "PO{" << a.bits << "}"; }
template <typename T> struct OrdDom;
template <> struct OrdDom<double> {
  static constexpr int N = 8;
  static double at(int i) {
    static const double v[N] = {-std::numeric_limits<double>::infinity(), -1.5, -0.0, 0.0, 1.0, 2.5, std::numeric_limits<double>::infinity(), std::numeric_limits<double>::quiet_NaN()};
    return v[i];
  }
  static const char* name() { return "double"; }
};
// boundary values of the integer types (the generated trees use the small domain -2..6 only)
template <> struct OrdDom<int> {
  static constexpr int N = 8;
  static int at(int i) { static const int v[N] = {std::numeric_limits<int>::min(), -65536, -256, -1, 0, 255, 65536, std::numeric_limits<int>::max()}; return v[i]; }
  static const char* name() { return "int"; }
};
template <> struct OrdDom<long long> {
  static constexpr int N = 8;
  static long long at(int i) { static const long long v[N] = {std::numeric_limits<long long>::min(), -(1LL << 40), -1, 0, 1, 1LL << 31, 1LL << 40, std::numeric_limits<long long>::max()}; return v[i]; }
  static const char* name() { return "long long"; }
};
template <> struct OrdDom<unsigned> {
  static constexpr int N = 8;
  static unsigned at(int i) { static const unsigned v[N] = {0u, 1u, 255u, 256u, 65535u, 65536u, 1u << 31, std::numeric_limits<unsigned>::max()}; return v[i]; }
  static const char* name() { return "unsigned"; }
};
template <> struct OrdDom<PO> {
  static constexpr int N = 8;
  static PO at(int i) { return PO{static_cast<unsigned>(i)}; }
  static const char* name() { return "PO"; }
};
template <typename T>
static bool ord_expect(int rel, T const& x, T const& v) {
  switch (rel) { case 0: return x == v; case 1: return x != v; case 2: return x < v; case 3: return x <= v; case 4: return x > v; default: return x >= v; }
}
static const char* ord_rel_name(int rel) { static const char* n[] = {"eq", "ne", "lt", "le", "gt", "ge"}; return n[rel]; }
template <typename T, typename F>
static auto ord_with(int rel, bool typed, T const& v, F&& f) {
  using namespace trompeloeil;
  if (typed) switch (rel) { case 0: return f(eq<T>(v)); case 1: return f(ne<T>(v)); case 2: return f(lt<T>(v)); case 3: return f(le<T>(v)); case 4: return f(gt<T>(v)); default: return f(ge<T>(v)); }
  switch (rel) { case 0: return f(eq(v)); case 1: return f(ne(v)); case 2: return f(lt(v)); case 3: return f(le(v)); case 4: return f(gt(v)); default: return f(ge(v)); }
}
template <typename T>
static bool ord_laws_one(int rel, int ix, int iv, bool typed, std::string& why) {
  const T x = OrdDom<T>::at(ix), v = OrdDom<T>::at(iv);
  const bool want = ord_expect(rel, x, v);
  auto fail = [&](const char* form, bool got) {
    std::ostringstream os;
    os << "relational matcher on a not totally ordered domain: " << form << " with " << (typed ? "explicitly typed " : "duck-typed ") << ord_rel_name(rel) << "(v), type "
       << OrdDom<T>::name() << ", x = " << x << ", v = " << v << ": accepted = " << got << ", the operator says " << want;
    why = os.str();
    return false;
  };
  return ord_with(rel, typed, v, [&](auto m) {
    bool g = trompeloeil::param_matches(m, std::cref(x));
    if (g != want) return fail("m", g);
    auto n = !m;
    g = trompeloeil::param_matches(n, std::cref(x));
    if (g != !want) return fail("!m", g);
    g = trompeloeil::param_matches(trompeloeil::any_of(m, m), std::cref(x));
    if (g != want) return fail("any_of(m, m)", g);
    g = trompeloeil::param_matches(trompeloeil::all_of(m, trompeloeil::_), std::cref(x));
    if (g != want) return fail("all_of(m, _)", g);
    g = trompeloeil::param_matches(trompeloeil::none_of(m), std::cref(x));
    if (g != !want) return fail("none_of(m)", g);
    T const* px = &x;
    g = trompeloeil::param_matches(*m, std::cref(px));
    if (g != want) return fail("*m on a pointer to x", g);
    return true;
  });
}
static bool ord_laws_all(std::string& why, int only_t = -1, int only_rel = -1, int only_x = -1, int only_v = -1, int only_typed = -1) {
  for (int t = 0; t < 5; ++t) {
    if (only_t >= 0 && t != only_t) continue;
    for (int rel = 0; rel < 6; ++rel) {
      if (only_rel >= 0 && rel != only_rel) continue;
      for (int ix = 0; ix < 8; ++ix) {
        if (only_x >= 0 && ix != only_x) continue;
        for (int iv = 0; iv < 8; ++iv) {
          if (only_v >= 0 && iv != only_v) continue;
          for (int typed = 0; typed < 2; ++typed) {
            if (only_typed >= 0 && typed != only_typed) continue;
            ST.evaluations++;
            bool unordered = t == 0 ? (ix == 7 || iv == 7) : t == 1 ? !(OrdDom<PO>::at(ix) <= OrdDom<PO>::at(iv)) && !(OrdDom<PO>::at(ix) >= OrdDom<PO>::at(iv)) : false;
            ST.label(t >= 2 ? "relational_on_integer_boundary_values" : unordered ? "relational_on_unordered_pair" : "relational_on_ordered_pair_of_partial_domain");
            bool good = t == 0 ? ord_laws_one<double>(rel, ix, iv, typed != 0, why) : t == 1 ? ord_laws_one<PO>(rel, ix, iv, typed != 0, why)
                      : t == 2 ? ord_laws_one<int>(rel, ix, iv, typed != 0, why) : t == 3 ? ord_laws_one<long long>(rel, ix, iv, typed != 0, why)
                      : ord_laws_one<unsigned>(rel, ix, iv, typed != 0, why);
            if (!good) {
              why += "\nordlaw " + std::to_string(t) + " " + std::to_string(rel) + " " + std::to_string(ix) + " " + std::to_string(iv) + " " + std::to_string(typed);
              return false;
            }
          }
        }
      }
    }
  }
  return true;
}

// ---- plain values and matchers whose operand type differs from the parameter type -------------------------------------
// "x == v" with the usual arithmetic conversions decides (C10: "for plain values used as operands"): the operand must not
// be converted to the parameter's type first (300 is not 44 for an unsigned char, 2.5 is not 2 for an int).
#pragma GCC diagnostic push
#pragma GCC diagnostic ignored "-Wsign-compare"
#pragma GCC diagnostic ignored "-Wfloat-equal"
template <typename P, typename V>
static bool mixed_one(P x, V v, const char* pn, const char* vn, std::string& why) {
  const bool want = (x == v);
  auto fail = [&](const char* form, bool got) {
    std::ostringstream os;
    os << "operand of another arithmetic type: " << form << ", parameter " << pn << " = " << +x << ", operand " << vn << " = " << +v << ": accepted = " << got
       << ", x == v is " << want;
    why = os.str();
    return false;
  };
  bool g = trompeloeil::param_matches(v, std::cref(x));
  if (g != want) return fail("plain value", g);
  g = trompeloeil::param_matches(trompeloeil::eq(v), std::cref(x));
  if (g != want) return fail("eq(v)", g);
  g = trompeloeil::param_matches(trompeloeil::any_of(v, v), std::cref(x));
  if (g != want) return fail("any_of(v, v)", g);
  g = trompeloeil::param_matches(trompeloeil::all_of(v, trompeloeil::_), std::cref(x));
  if (g != want) return fail("all_of(v, _)", g);
  g = trompeloeil::param_matches(trompeloeil::none_of(v), std::cref(x));
  if (g != !want) return fail("none_of(v)", g);
  g = trompeloeil::param_matches(!trompeloeil::ne(v), std::cref(x));
  if (g != want) return fail("!ne(v)", g);
  return true;
}
#pragma GCC diagnostic pop
static bool mixed_laws_all(std::string& why, int only = -1) {
  int n = 0;
  bool ok = true;
  auto run = [&](auto x, auto v, const char* pn, const char* vn) {
    int id = n++;
    if (!ok || (only >= 0 && id != only)) return;
    ST.evaluations++;
    ST.label("operand_type_differs_from_parameter_type");
    if (!mixed_one(x, v, pn, vn, why)) { why += "\nmixlaw " + std::to_string(id); ok = false; }
  };
  const unsigned char ucs[] = {0, 44, 255};
  const int for_uc[] = {300, 44, -212, 556, 255, 256};
  for (unsigned char x : ucs) for (int v : for_uc) run(x, v, "unsigned char", "int");
  const short shs[] = {7, -1, 0};
  const int for_sh[] = {65536 + 7, 7, 65535, -1};
  for (short x : shs) for (int v : for_sh) run(x, v, "short", "int");
  const int ints[] = {0, 2, 3, -1};
  const long long for_i[] = {1LL << 32, (1LL << 32) + 3, 3, -1, (1LL << 32) - 1};
  for (int x : ints) for (long long v : for_i) run(x, v, "int", "long long");
  const double for_id[] = {2.5, 2.0, 0.1, -1.0, 3.000001};
  for (int x : ints) for (double v : for_id) run(x, v, "int", "double");
  const float fls[] = {0.1f, 2.5f, 16777216.0f};
  const double for_f[] = {0.1, 2.5, 16777217.0};
  for (float x : fls) for (double v : for_f) run(x, v, "float", "double");
  const unsigned uns[] = {4294967295u, 5u, 0u};
  const int for_u[] = {-1, 5, 0};
  for (unsigned x : uns) for (int v : for_u) run(x, v, "unsigned", "int");
  const long long lls[] = {1LL << 32, 5, -1};
  const int for_ll[] = {0, 5, -1};
  for (long long x : lls) for (int v : for_ll) run(x, v, "long long", "int");
  return ok;
}

int do_replay(const std::string& path, bool verbose) {
  {
    // replay of a named-lvalue law case: a line `lvlaw <a> <b> <rel>`
    std::istringstream in(vc::read_file(path));
    std::string line;
    while (std::getline(in, line)) {
      if (line.rfind("mixlaw ", 0) == 0) {
        std::string why;
        bool good = mixed_laws_all(why, atoi(line.c_str() + 7));
        if (verbose) printf("replay %s: operand-type law %s: %s\n%s\n", path.c_str(), line.c_str() + 7, good ? "passes" : "FAILS", why.c_str());
        return good ? 0 : 1;
      }
      if (line.rfind("ordlaw ", 0) == 0) {
        int t = 0, rel = 0, x = 0, v = 0, ty = 0;
        sscanf(line.c_str() + 7, "%d %d %d %d %d", &t, &rel, &x, &v, &ty);
        std::string why;
        bool good = ord_laws_all(why, t, rel, x, v, ty);
        if (verbose) printf("replay %s: relational law %d %d %d %d %d: %s\n%s\n", path.c_str(), t, rel, x, v, ty, good ? "passes" : "FAILS", why.c_str());
        return good ? 0 : 1;
      }
      if (line.rfind("lvlaw ", 0) == 0) {
        int a = 0, b = 0, rel = 0;
        sscanf(line.c_str() + 6, "%d %d %d", &a, &b, &rel);
        std::string why;
        bool good = lvalue_laws_all(why, a, rel == 9 ? -1 : b, rel);
        if (verbose) printf("replay %s: named-lvalue law %d %d %d: %s\n%s\n", path.c_str(), a, b, rel, good ? "passes" : "FAILS", why.c_str());
        return good ? 0 : 1;
      }
    }
  }
  std::istringstream in(vc::read_file(path));
  std::string line;
  Case c;
  bool have_a = false, have_dom = false;
  while (std::getline(in, line)) {
    if (line.empty() || line[0] == '#') continue;
    std::istringstream ls(line);
    std::string key;
    ls >> key;
    std::string rest;
    std::getline(ls, rest);
    if (key == "dom") {
      std::string v;
      std::istringstream(rest) >> v;
      for (int i = 0; i < D_COUNT; ++i) if (v == DOM_KEY[i]) { c.dom = static_cast<Dom>(i); have_dom = true; }
    } else if (key == "a" || key == "b") {
      Parser p{rest};
      Node n = p.node();
      p.ws();
      if (!p.ok || p.p != rest.size()) { fprintf(stderr, "bad tree in replay file: %s\n", line.c_str()); return 2; }
      if (key == "a") { c.a = n; have_a = true; } else { c.b = n; c.has_b = true; }
    } else if (key == "e2e") {
      c.e2e = atoi(rest.c_str()) != 0;
    } else {
      fprintf(stderr, "bad replay line: %s\n", line.c_str());
      return 2;
    }
  }
  if (!have_a || !have_dom) { fprintf(stderr, "replay file lacks dom/a lines\n"); return 2; }
  if (!valid(c.a, c.dom, false) || (c.has_b && !valid(c.b, c.dom, false))) { fprintf(stderr, "replay file describes a tree outside the generated domain\n"); return 2; }
  normalise_root(c.a, c.dom);
  if (c.has_b) normalise_root(c.b, c.dom);
  g_verbose = verbose;
  if (verbose) {
    printf("domain %s\na = %s\n", DOM_NAME[c.dom], pretty(c.a, c.dom).c_str());
    if (c.has_b) printf("b = %s\n", pretty(c.b, c.dom).c_str());
  }
  ST.evaluations++;
  std::string why;
  bool ok = check_case(c, why, true);
  if (verbose) {
    if (!ok) printf("DISAGREEMENT\n%s\n", why.c_str());
    printf("replay %s: %s\n", path.c_str(), ok ? "passes" : "FAILS");
  }
  return ok ? 0 : 1;
}

}  // namespace

int main(int argc, char** argv) {
  A = vc::parse_args(argc, argv);
  if (A.prop.empty()) A.prop = "C10";
  std::string mode = A.get("mode", "all");
  ST.rule = "rapidcheck: size-scaled matcher trees (depth <= 4, <= 24 nodes) over 11 parameter domains (int -2..6, int*/unique_ptr<int>/shared_ptr<int>/int const* incl. null, user-defined pointer-likes Handle (implicitly constructible from nullptr, "
            "compared only Handle==Handle) and NHandle (nullptr_t comparisons + explicit operator bool) incl. null, whose dereference while null is counted and is a disagreement by itself, "
            "std::string / char const* from a 12-string pool incl. \"\" and null, struct S{int;string}, S*), nodes eq/ne/lt/le/gt/ge, _, ANY, plain values, eq/ne(nullptr), "
            "re (10 patterns x icase x match_not_bol x 8 spellings), !, *, any_of/all_of/none_of with 1-4 operands, MEMBER_IS, duck-typed and explicitly typed; every tree is "
            "evaluated on its whole value domain through param_matches and compared with an independent evaluator, plus 7 algebraic laws (library against library) and the null laws of *m / !*m, plus real mock calls (accepted vs fatal No match report) for 1 case in 5; "
            "enum mode: every int tree of depth <= 2 with <= 2 operands over leaves with operands -3..7, and *leaf / !*leaf over every int leaf for the six pointer kinds. "
            "non-trivial = depth >= 2 with >= 1 combinator and >= 1 relational leaf whose operand lies inside the value domain; distinct = FNV-1a of domain + canonical s-expression";
  trompeloeil::set_reporter([](trompeloeil::severity s, char const*, unsigned long, std::string const& msg) {
    if (s == trompeloeil::severity::fatal) throw fatal_report{msg};
    g_nonfatal_reports++;
  });
  if (!A.replay.empty()) {
    int rc = do_replay(A.replay, A.has("verbose") || !A.has("quiet"));
    ST.write(A.out);
    return rc;
  }
  bool ok = true;
  {
    // named-lvalue laws: small, exhaustive over the string pool, always run first
    std::string why;
    if (!lvalue_laws_all(why) || !ord_laws_all(why) || !mixed_laws_all(why)) {
      std::string path = A.faildir + "/m_fail." + A.prop + "." + std::to_string(getpid()) + ".txt";
      std::string txt = "# engine=M prop=C10\n";
      std::istringstream w(why);
      std::string l, last;
      while (std::getline(w, l)) { if (l.rfind("lvlaw ", 0) == 0 || l.rfind("ordlaw ", 0) == 0 || l.rfind("mixlaw ", 0) == 0) last = l; else txt += "# " + l + "\n"; }
      vc::write_file(path, txt + last + "\n");
      g_last_fail = path;
      if (!A.has("quiet")) fprintf(stderr, "%s\n", why.c_str());
      ok = false;
    }
  }
  if (ok && (mode == "all" || mode == "enum")) {
    std::string why;
    ok = enumerate(why);
    if (ok) { ST.extra_json["x_enum_scope_complete"] = "true"; }
    else if (!A.has("quiet")) fprintf(stderr, "enumeration: %s\n", why.c_str());
  }
  if (ok && (mode == "all" || mode == "random")) {
    ok = rc::check("C10 matcher trees agree with the independent evaluator", [&]() {
      Case c = gen_case();
      std::string why;
      if (!run_case(c, &why, "random")) RC_FAIL(why);
    });
  }
  if (!ok && !g_last_fail.empty()) ST.violations.push_back({g_last_fail, "oracle disagreement (see replay header)"});
  ST.write(A.out);
  return ok ? 0 : 1;
}

// Engine T (C12): generated multi-threaded programs over shared mocks, sequences and deathwatched
// objects. Every acquisition of the library's global lock goes through the documented
// TROMPELOEIL_CUSTOM_RECURSIVE_MUTEX customisation point, which lets the harness
//   mode A (built with -fsanitize=thread): run free, perturb with yields, stamp each outermost
//          critical section with a global ticket;  oracle 1 = ThreadSanitizer, oracle 2 = linearizability
//   mode B (no TSan needed): own the schedule - park every thread at each outermost lock() and let a
//          generated / exhaustively enumerated schedule decide who proceeds; oracle = linearizability,
//          lock leaks, stuck threads.
// Linearizability oracle: each operation is one atomic event, except expectation creation which the
// property text itself splits into {register in sequence(s) with the bounds so far, set bounds, become
// callable}. The events of an operation are placed on the tickets of its critical sections (identity
// placement first, otherwise a small search) and replayed in ticket order through a sequential model;
// every observed result must be reproduced.
// A second build (-DT_STD_MUTEX, target t_tsan_std) leaves the library's own std::recursive_mutex in place: mode A only,
// oracle = ThreadSanitizer / sanitizer aborts alone (there are no tickets without the shim). There the first program of
// every process starts its workers before the main thread has taken the library's lock even once, so that the creation of
// the lock itself is raced as well.
#ifndef T_STD_MUTEX
#define TROMPELOEIL_CUSTOM_RECURSIVE_MUTEX
#endif
#include <trompeloeil.hpp>
#include <rapidcheck.h>
#include <atomic>
#include <condition_variable>
#include <fcntl.h>
#include <mutex>
#include <thread>
#include "../common/vcommon.hpp"

// ------------------------------------------------------------------------------------------
// lock shim
namespace shim {
constexpr int MAXT = 8;
thread_local int tid = -1;            // worker index, -1: main thread
thread_local int depth = 0;
thread_local std::vector<long>* tickets = nullptr;   // where the current operation records its sections
thread_local const std::vector<int>* yields = nullptr;  // mode A perturbation: yields before the k-th section
thread_local size_t section_no = 0;
std::atomic<long> ticket_counter{0};
std::atomic<int> mutex_instances{0};  // the library is expected to create one; every instance is a lock of its own

// mode B scheduler
bool sched_on = false;
std::mutex smu;
std::condition_variable scv;
enum St { IDLE, RUNNING, PARKED, DONE };
int st[MAXT];
int granted = -1;

#ifndef T_STD_MUTEX
struct Mutex : trompeloeil::custom_recursive_mutex {
  // one real lock per object the library asks for: two library mutexes must not exclude each other here either
  std::recursive_mutex real_mu;
  Mutex() { ++mutex_instances; }
  void lock() override {
    if (depth == 0 && tid >= 0) {
      if (yields && section_no < yields->size()) for (int i = 0; i < (*yields)[section_no]; ++i) std::this_thread::yield();
      ++section_no;
      if (sched_on) {
        std::unique_lock<std::mutex> l(smu);
        st[tid] = PARKED;
        scv.notify_all();
        scv.wait(l, [&] { return granted == tid; });
        granted = -1;
        st[tid] = RUNNING;
      }
    }
    real_mu.lock();
    if (depth++ == 0 && tickets) tickets->push_back(ticket_counter++);
  }
  void unlock() override {
    --depth;
    real_mu.unlock();
  }
};
#endif
}  // namespace shim

#ifndef T_STD_MUTEX
namespace trompeloeil {
std::unique_ptr<custom_recursive_mutex> create_custom_recursive_mutex() { return std::make_unique<shim::Mutex>(); }
}
#endif

// ------------------------------------------------------------------------------------------
// program description
enum TOp { T_CALL = 0, T_CREATE, T_RELEASE, T_QSAT, T_QSATU, T_QCOMP, T_WATCH, T_KILL, T_UNWATCH, T_MOCKLIFE, T_SREL, T_SKILL, T_SWATCH, T_ADOPT, NTOP };
static const char* top_name[] = {"call", "create", "release", "is_satisfied", "is_saturated", "is_completed", "watch", "kill", "unwatch", "mocklife", "srelease", "skill", "swatch", "adopt"};
// create forms (compile time): how sequences and bounds are spelled
enum Form { FM_PLAIN = 0, FM_SEQ_RT, FM_RT_SEQ, FM_SEQ2_RT, FM_SEQ_TIMES2, FM_SEQ_ONLY, NFORM };
struct Op {
  int kind = T_CALL;
  int a = 0, b = 0, c = 0, d = 0, e = 0, f = 0;  // meaning per kind, see run_op
};
struct Program {
  int nthreads = 2;
  std::vector<std::vector<Op>> ops;        // per thread
  std::vector<std::vector<int>> yields;    // per thread, mode A
  std::vector<int> schedule;               // mode B choices
  std::vector<Op> prologue;                // creates executed by the main thread before the workers start
};

static std::string op_text(const Op& o) {
  std::ostringstream s;
  s << top_name[o.kind] << ' ' << o.a << ' ' << o.b << ' ' << o.c << ' ' << o.d << ' ' << o.e << ' ' << o.f;
  return s.str();
}
static std::string program_text(const Program& p) {
  std::ostringstream s;
  s << "threads " << p.nthreads << "\n";
  for (auto& o : p.prologue) s << "P " << op_text(o) << "\n";
  for (int t = 0; t < p.nthreads; ++t) {
    for (auto& o : p.ops[static_cast<size_t>(t)]) s << "T" << t << " " << op_text(o) << "\n";
    s << "Y" << t;
    for (int y : p.yields[static_cast<size_t>(t)]) s << ' ' << y;
    s << "\n";
  }
  s << "S";
  for (int c : p.schedule) s << ' ' << c;
  s << "\n";
  return s.str();
}
static bool parse_program(const std::string& text, Program& p) {
  std::istringstream in(text);
  std::string line;
  p = Program();
  while (std::getline(in, line)) {
    if (line.empty() || line[0] == '#') continue;
    std::istringstream l(line);
    std::string tag;
    l >> tag;
    if (tag == "threads") { l >> p.nthreads; p.ops.assign(static_cast<size_t>(p.nthreads), {}); p.yields.assign(static_cast<size_t>(p.nthreads), {}); continue; }
    if (tag == "S") { int c; while (l >> c) p.schedule.push_back(c); continue; }
    if (tag[0] == 'Y') { int t = atoi(tag.c_str() + 1), y; while (l >> y) p.yields[static_cast<size_t>(t)].push_back(y); continue; }
    std::string name;
    l >> name;
    Op o;
    o.kind = -1;
    for (int k = 0; k < NTOP; ++k) if (name == top_name[k]) o.kind = k;
    if (o.kind < 0) return false;
    l >> o.a >> o.b >> o.c >> o.d >> o.e >> o.f;
    if (tag == "P") p.prologue.push_back(o);
    else if (tag[0] == 'T') p.ops[static_cast<size_t>(atoi(tag.c_str() + 1))].push_back(o);
  }
  return p.nthreads >= 1;
}

// ------------------------------------------------------------------------------------------
// real world
struct fatal_report {};
struct Mk {
  MAKE_MOCK1(f, int(int));
  MAKE_MOCK1(g, int(int));
};
struct Mk1 {
  MAKE_MOCK1(f, int(int));
};
struct Mk1m {   // the same, movable: the library keeps its expectation lists in another class template specialisation
  static constexpr bool trompeloeil_movable_mock = true;
  MAKE_MOCK1(f, int(int));
};
// a thread's private mock object of either class
struct OwnMock {
  virtual ~OwnMock() = default;
  virtual int call(int a) = 0;
  virtual std::unique_ptr<trompeloeil::expectation> expect(trompeloeil::sequence* s, std::size_t lo, std::size_t hi, int id) = 0;
};
template <class M>
struct OwnMockT : OwnMock {
  M m;
  int call(int a) override { return m.f(a); }
  std::unique_ptr<trompeloeil::expectation> expect(trompeloeil::sequence* s, std::size_t lo, std::size_t hi, int id) override {
    if (s) return NAMED_REQUIRE_CALL(m, f(trompeloeil::_)).IN_SEQUENCE(*s).RT_TIMES(lo, hi).RETURN(id);
    return NAMED_REQUIRE_CALL(m, f(trompeloeil::_)).RT_TIMES(lo, hi).RETURN(id);
  }
};
struct Dw { virtual ~Dw() = default; int x = 0; };

struct DataPred { bool operator()(int v, int want) const { return want < 0 || v == want; } };
struct DataPrint { void operator()(std::ostream& os, int want) const { if (want < 0) os << " matching _"; else os << " == " << want; } };
static auto dmatch(int want) { return trompeloeil::make_matcher<int>(DataPred{}, DataPrint{}, want); }

constexpr int NMOCK = 2, NSEQ = 2, SLOTS_PER_THREAD = 2, MAXTH = shim::MAXT;
constexpr int NSLOTS = (MAXTH + 1) * SLOTS_PER_THREAD;  // last pair belongs to the main thread (prologue)

struct ThreadLog {
  std::vector<std::string> results;          // one per operation
  std::vector<std::vector<long>> tickets;    // sections of each operation
};
static thread_local std::vector<std::string>* t_reports = nullptr;  // reports raised during the current operation

struct World {
  Mk* mock[NMOCK];
  std::unique_ptr<trompeloeil::sequence> seq[NSEQ];
  std::unique_ptr<trompeloeil::expectation> slot[NSLOTS];
  trompeloeil::deathwatched<Dw>* dw[MAXTH + 1] = {};
  std::unique_ptr<trompeloeil::expectation> mon[MAXTH + 1];
  OwnMock* own_mock[MAXTH + 1] = {};
  std::unique_ptr<trompeloeil::expectation> own_exp[MAXTH + 1];
  // an expectation on a thread's private mock handed over to whichever thread takes it first (T_ADOPT, or the owner when
  // it destroys the mock): release of an expectation by one thread while another destroys the mock object
  // (the expectation travels together with its id in one heap node: a separate id array would be written by the owner's
  // next publication while the adopter of the previous one still reads it - a race of the harness, not of the library)
  struct Orphan { trompeloeil::expectation* e; int id; };
  std::atomic<Orphan*> orphan[MAXTH + 1] = {};
  // shared deathwatched objects: created (with two requirements each) before the workers start; object i is destroyed
  // by thread i % n, its requirement j is released by thread (i + j + 1) % n - so a release can overlap the death
  trompeloeil::deathwatched<Dw>* sdw[2] = {};
  std::unique_ptr<trompeloeil::expectation> smon[2][3];   // [i][2]: registered later, by the thread that owns the object
  int smon_id[2][3] = {{0, 0, 0}, {0, 0, 0}};
  int nthreads = 1;
};
static World* Wd = nullptr;

// C17 across threads: a tracer installed by the main thread before the workers start is the most recently
// constructed live tracer for every accepted call, whichever thread makes it
struct CountTracer : trompeloeil::tracer {
  std::vector<std::string> records;   // trace() runs inside the mock call, under the library's lock
  void trace(char const*, unsigned long, std::string const& call) override { records.push_back(call); }
};
static bool g_c17 = false;

static void install_reporter() {
  trompeloeil::set_reporter([](trompeloeil::severity s, char const*, unsigned long, std::string const& msg) {
    auto starts = [&](const char* p) { return msg.rfind(p, 0) == 0; };
    const char* k = starts("No match for call") ? "nomatch" : starts("Match of forbidden") ? "forbidden" : starts("Sequence mismatch") ? "seq"
                  : starts("Unfulfilled expectation") ? "unfulfilled" : starts("Pending expectation on destroyed") ? "pending"
                  : starts("Object ") ? "alive" : starts("Unexpected destruction") ? "unexpected" : starts("Sequence expectations not met") ? "seqdtor" : "unknown";
    bool fatal = s == trompeloeil::severity::fatal;
    if (t_reports) t_reports->push_back(std::string(fatal ? "F:" : "N:") + k + ";");
    if (fatal) throw fatal_report{};
  });
}

static std::unique_ptr<trompeloeil::expectation> make_exp(int form, int mock, int func, int want, size_t lo, size_t hi, int s0, int s1, int id) {
  Mk& m = *Wd->mock[mock];
  trompeloeil::sequence& q0 = *Wd->seq[s0];
  trompeloeil::sequence& q1 = *Wd->seq[s1];
#define T_SITE(F) \
  switch (form) { \
    case FM_PLAIN: return NAMED_REQUIRE_CALL(m, F(dmatch(want))).RT_TIMES(lo, hi).RETURN(id); \
    case FM_SEQ_RT: return NAMED_REQUIRE_CALL(m, F(dmatch(want))).IN_SEQUENCE(q0).RT_TIMES(lo, hi).RETURN(id); \
    case FM_RT_SEQ: return NAMED_REQUIRE_CALL(m, F(dmatch(want))).RT_TIMES(lo, hi).IN_SEQUENCE(q0).RETURN(id); \
    case FM_SEQ2_RT: return NAMED_REQUIRE_CALL(m, F(dmatch(want))).IN_SEQUENCE(q0, q1).RT_TIMES(lo, hi).RETURN(id); \
    case FM_SEQ_TIMES2: return NAMED_REQUIRE_CALL(m, F(dmatch(want))).IN_SEQUENCE(q0).TIMES(2).RETURN(id); \
    case FM_SEQ_ONLY: return NAMED_REQUIRE_CALL(m, F(dmatch(want))).IN_SEQUENCE(q0).RETURN(id); \
  }
  if (func == 0) { T_SITE(f) } else { T_SITE(g) }
#undef T_SITE
  return nullptr;
}

// ------------------------------------------------------------------------------------------
// sequential model at event granularity
constexpr long INFV = -1;
struct MExp {
  int id = 0, mock = 0, func = 0, want = -1; long lo = 1, hi = 1, count = 0;
  bool hooked = false, is_mon = false, died = false, dead_mock = false, reported = false;
  int dwo = -1;
  std::vector<int> seqs; std::vector<char> pending;
  bool satisfied() const { return is_mon ? died : count >= lo; }
  bool saturated() const { return is_mon ? died : (hi != INFV && count == hi); }
};
struct Ev { int type; int tid, opi; int id; int a, b, c; long lo, hi; };
enum EvType { E_REG = 0, E_LIMITS, E_HOOK, E_CALL, E_DESTROY, E_QSAT, E_QSATU, E_QCOMP, E_MONLINK, E_KILL, E_MONDTOR, E_OWNMOCK_DTOR };

struct TModel {
  std::map<int, MExp> E;
  std::vector<int> active[NMOCK + MAXTH + 1][2], saturatedl[NMOCK + MAXTH + 1][2];
  std::vector<int> pend[NSEQ];
  std::vector<int> dwreq[MAXTH + 3];
  static constexpr long CINF = 1L << 40;

  long cost(const MExp& e) const {
    long c = 0;
    for (size_t j = 0; j < e.seqs.size(); ++j) {
      long cj = CINF;
      if (e.pending[j]) {
        long k = 0;
        for (int p : pend[e.seqs[j]]) {
          if (p == e.id) { cj = k; break; }
          if (!E.at(p).satisfied()) break;
          ++k;
        }
      }
      c = std::max(c, cj);
    }
    return c;
  }
  void leave(MExp& e) {
    for (size_t j = 0; j < e.seqs.size(); ++j) if (e.pending[j]) {
      auto& v = pend[e.seqs[j]];
      v.erase(std::remove(v.begin(), v.end(), e.id), v.end());
      e.pending[j] = 0;
    }
  }
  void retire_pred(MExp& e) {
    for (size_t j = 0; j < e.seqs.size(); ++j) if (e.pending[j]) {
      auto& v = pend[e.seqs[j]];
      while (!v.empty() && v.front() != e.id) {
        MExp& p = E.at(v.front());
        for (size_t q = 0; q < p.seqs.size(); ++q) if (p.seqs[q] == e.seqs[j]) p.pending[q] = 0;
        v.erase(v.begin());
      }
    }
  }
  // returns the result string the operation would observe from this event ("" = nothing observable)
  std::string apply(const Ev& ev) {
    switch (ev.type) {
      case E_REG: {
        MExp& e = E[ev.id];
        e.id = ev.id;
        e.seqs.push_back(ev.a); e.pending.push_back(1);
        pend[ev.a].push_back(ev.id);
        return "";
      }
      case E_LIMITS: { MExp& e = E[ev.id]; e.id = ev.id; e.lo = ev.lo; e.hi = ev.hi; return ""; }
      case E_HOOK: {
        MExp& e = E[ev.id];
        e.id = ev.id; e.mock = ev.a; e.func = ev.b; e.want = ev.c; e.hooked = true;
        auto& l = active[ev.a][ev.b];
        l.insert(l.begin(), ev.id);
        return "";
      }
      case E_CALL: {
        auto& l = active[ev.a][ev.b];
        int cand = -1; long best = CINF + 1;
        for (int id : l) {
          const MExp& e = E.at(id);
          if (!(e.want < 0 || e.want == ev.c)) continue;
          long c = cost(e);
          if (c < best) { best = c; cand = id; }
        }
        if (cand < 0) {
          bool sat_match = false;
          for (int id : saturatedl[ev.a][ev.b]) { const MExp& e = E.at(id); if (e.want < 0 || e.want == ev.c) sat_match = true; }
          if (!sat_match) for (int id : l) E.at(id).reported = true;   // listed in the report: not reported again later
          return "F:nomatch;";
        }
        MExp& e = E.at(cand);
        if (best >= CINF) return "F:seq;";
        if (e.hi == 0) { e.reported = true; return "F:forbidden;"; }
        e.count++;
        retire_pred(e);
        if (e.hi != INFV && e.count == e.hi) {
          leave(e);
          l.erase(std::remove(l.begin(), l.end(), cand), l.end());
          saturatedl[ev.a][ev.b].push_back(cand);
        }
        return "R:" + std::to_string(cand);
      }
      case E_DESTROY: {
        auto it = E.find(ev.id);
        if (it == E.end()) return "";
        MExp& e = it->second;
        std::string r;
        if (e.hooked && !e.dead_mock && !e.reported && !e.satisfied()) r = "N:unfulfilled;";
        leave(e);
        if (e.hooked) {
          auto& l = active[e.mock][e.func];
          l.erase(std::remove(l.begin(), l.end(), e.id), l.end());
          auto& s = saturatedl[e.mock][e.func];
          s.erase(std::remove(s.begin(), s.end(), e.id), s.end());
        }
        E.erase(it);
        return r;
      }
      case E_QSAT: return E.at(ev.id).satisfied() ? "1" : "0";
      case E_QSATU: return E.at(ev.id).saturated() ? "1" : "0";
      case E_QCOMP: {
        for (int p : pend[ev.a]) if (!E.at(p).satisfied()) return "0";
        return "1";
      }
      case E_MONLINK: { MExp& e = E[ev.id]; e.id = ev.id; e.is_mon = true; e.dwo = ev.a; dwreq[ev.a].push_back(ev.id); return ""; }
      case E_KILL: {
        auto& rq = dwreq[ev.a];
        if (rq.empty()) return "N:unexpected;";
        std::string r;
        for (int id : rq) {
          MExp& e = E.at(id);
          for (size_t j = 0; j < e.seqs.size(); ++j) {
            long cj = CINF;
            if (e.pending[j]) { long k = 0; for (int p : pend[e.seqs[j]]) { if (p == e.id) { cj = k; break; } if (!E.at(p).satisfied()) break; ++k; } }
            if (cj >= CINF) r += "N:seq;";
          }
          e.died = true; e.count = 1;
          retire_pred(e);
          leave(e);
        }
        rq.clear();
        return r;
      }
      case E_MONDTOR: {
        auto it = E.find(ev.id);
        if (it == E.end()) return "";
        std::string r;
        if (!it->second.died) { r = "N:alive;"; auto& rq = dwreq[it->second.dwo]; rq.erase(std::remove(rq.begin(), rq.end(), ev.id), rq.end()); }
        leave(it->second);
        E.erase(it);
        return r;
      }
      case E_OWNMOCK_DTOR: {
        std::string r;
        for (int fn = 0; fn < 2; ++fn) {
          for (int id : active[ev.a][fn]) { MExp& e = E.at(id); if (!e.satisfied() && !e.reported) { r += "N:pending;"; e.reported = true; } e.dead_mock = true; }
          active[ev.a][fn].clear(); saturatedl[ev.a][fn].clear();
        }
        return r;
      }
    }
    return "";
  }
};

// events of one operation, in program order
struct OpRec { int tid, opi; Op op; std::vector<Ev> events; std::vector<long> tickets; std::string observed; };

// ------------------------------------------------------------------------------------------
static vc::Args A;
static vc::Stats ST;
static std::string g_last_fail;
static int g_next_id = 1;
static long g_search_budget = 3000000;   // placements tried before the search is given up (inconclusive); 50000 was too small for 8 threads

static int slot_of(int tid, int k) { return (tid < 0 ? MAXTH : tid) * SLOTS_PER_THREAD + (k % SLOTS_PER_THREAD); }
static int owner_index(int tid) { return tid < 0 ? MAXTH : tid; }

// executes one operation for thread `tid` (or the main thread), records observation + events
struct Exec {
  std::vector<OpRec>* out;
  std::vector<int> slot_id = std::vector<int>(NSLOTS, -1);       // ids live in slots (thread-owned entries only touched by owner)
  std::vector<int> mon_id = std::vector<int>(MAXTH + 1, -1);
  std::vector<int> ownexp_id = std::vector<int>(MAXTH + 1, -1);
};

static void run_op(int tid, int opi, const Op& o, std::vector<int>& slot_id, int& mon_id, int& ownexp_id, OpRec& rec, int id_base) {
  rec.tid = tid; rec.opi = opi; rec.op = o;
  std::vector<std::string> reports;
  t_reports = &reports;
  shim::tickets = &rec.tickets;
  std::string res;
  auto ev = [&](int type, int id, int a = 0, int b = 0, int c = 0, long lo = 0, long hi = 0) { rec.events.push_back(Ev{type, tid, opi, id, a, b, c, lo, hi}); };
  int oi = owner_index(tid);
  try {
    switch (o.kind) {
      case T_CALL: {
        ev(E_CALL, 0, o.a % NMOCK, o.b % 2, o.c);
        int r = (o.b % 2) == 0 ? Wd->mock[o.a % NMOCK]->f(o.c) : Wd->mock[o.a % NMOCK]->g(o.c);
        res = "R:" + std::to_string(r);
        break;
      }
      case T_CREATE: {
        int sl = slot_of(tid, o.a);
        if (Wd->slot[sl]) { res = "skip"; break; }
        int form = o.b % NFORM, mock = o.c % NMOCK, func = (o.c / NMOCK) % 2, want = o.d % 4 == 3 ? -1 : o.d % 4;
        long lo = o.e % 3, hi = (o.e / 3) % 4 == 3 ? INFV : lo + (o.e / 3) % 4;
        if (hi == 0) hi = 1;
        int s0 = o.f % NSEQ, s1 = (s0 + 1) % NSEQ;
        int id = id_base + opi + 1;
        // events in the order the statement evaluates them
        if (form == FM_SEQ_RT) { ev(E_REG, id, s0); ev(E_LIMITS, id, 0, 0, 0, lo, hi); }
        else if (form == FM_RT_SEQ) { ev(E_LIMITS, id, 0, 0, 0, lo, hi); ev(E_REG, id, s0); }
        else if (form == FM_SEQ2_RT) { ev(E_REG, id, s0); ev(E_REG, id, s1); ev(E_LIMITS, id, 0, 0, 0, lo, hi); }
        else if (form == FM_SEQ_TIMES2) { ev(E_REG, id, s0); ev(E_LIMITS, id, 0, 0, 0, 2, 2); }
        else if (form == FM_SEQ_ONLY) { ev(E_REG, id, s0); }
        else { ev(E_LIMITS, id, 0, 0, 0, lo, hi); }
        ev(E_HOOK, id, mock, func, want);
        Wd->slot[sl] = make_exp(form, mock, func, want, static_cast<size_t>(lo), hi == INFV ? ~static_cast<size_t>(0) : static_cast<size_t>(hi), s0, s1, id);
        slot_id[static_cast<size_t>(sl)] = id;
        res = "created";
        break;
      }
      case T_RELEASE: {
        int sl = slot_of(tid, o.a);
        if (!Wd->slot[sl]) { res = "skip"; break; }
        ev(E_DESTROY, slot_id[static_cast<size_t>(sl)]);
        Wd->slot[sl].reset();
        slot_id[static_cast<size_t>(sl)] = -1;
        res = "released";
        break;
      }
      case T_QSAT: case T_QSATU: {
        int sl = slot_of(tid, o.a);
        if (!Wd->slot[sl]) { res = "skip"; break; }
        ev(o.kind == T_QSAT ? E_QSAT : E_QSATU, slot_id[static_cast<size_t>(sl)]);
        res = (o.kind == T_QSAT ? Wd->slot[sl]->is_satisfied() : Wd->slot[sl]->is_saturated()) ? "1" : "0";
        break;
      }
      case T_QCOMP: {
        ev(E_QCOMP, 0, o.a % NSEQ);
        res = Wd->seq[o.a % NSEQ]->is_completed() ? "1" : "0";
        break;
      }
      case T_WATCH: {
        if (Wd->dw[oi] == nullptr) Wd->dw[oi] = new trompeloeil::deathwatched<Dw>();   // thread-private object
        if (Wd->mon[oi]) { res = "skip"; break; }
        int id = id_base + opi + 1;
        ev(E_MONLINK, id, oi);
        auto& obj = *Wd->dw[oi];
        if (o.a % 2) { ev(E_REG, id, o.b % NSEQ); Wd->mon[oi] = NAMED_REQUIRE_DESTRUCTION(obj).IN_SEQUENCE(*Wd->seq[o.b % NSEQ]); }
        else Wd->mon[oi] = NAMED_REQUIRE_DESTRUCTION(obj);
        mon_id = id;
        res = "watched";
        break;
      }
      case T_KILL: {
        if (!Wd->dw[oi]) { res = "skip"; break; }
        ev(E_KILL, 0, oi);
        delete Wd->dw[oi];
        Wd->dw[oi] = nullptr;
        res = "killed";
        break;
      }
      case T_UNWATCH: {
        if (!Wd->mon[oi]) { res = "skip"; break; }
        ev(E_MONDTOR, mon_id);
        Wd->mon[oi].reset();
        mon_id = -1;
        res = "unwatched";
        break;
      }
      case T_SREL: {
        int i = o.a % 2, j = o.b % 3;
        // requirement 2 belongs to the thread that owns the object (it registers it, see T_SWATCH), 0 and 1 to other threads
        if (tid >= 0 && tid != (j == 2 ? i : i + j + 1) % Wd->nthreads) { res = "skip"; break; }
        if (!Wd->smon[i][j]) { res = "skip"; break; }
        ev(E_MONDTOR, Wd->smon_id[i][j]);
        Wd->smon[i][j].reset();
        res = "unwatched";
        break;
      }
      case T_SWATCH: {
        // the owner of a shared object registers one more requirement on it while other threads release theirs
        int i = o.a % 2;
        if (tid >= 0 && tid != i % Wd->nthreads) { res = "skip"; break; }
        if (!Wd->sdw[i] || Wd->smon[i][2]) { res = "skip"; break; }
        int id = id_base + opi + 1;
        ev(E_MONLINK, id, MAXTH + 1 + i);
        auto& obj = *Wd->sdw[i];
        Wd->smon[i][2] = NAMED_REQUIRE_DESTRUCTION(obj);
        Wd->smon_id[i][2] = id;
        res = "watched";
        break;
      }
      case T_ADOPT: {
        // take over (and release) the expectation another thread published for its private mock
        if (tid < 0) { res = "skip"; break; }
        int x = (tid + 1 + o.a % (Wd->nthreads > 1 ? Wd->nthreads - 1 : 1)) % Wd->nthreads;
        auto* p = Wd->orphan[x].exchange(nullptr, std::memory_order_acq_rel);
        if (!p) { res = "skip"; break; }
        ev(E_DESTROY, p->id);
        delete p->e;
        delete p;
        res = "adopted";
        break;
      }
      case T_SKILL: {
        int i = o.a % 2;
        if (tid >= 0 && tid != i % Wd->nthreads) { res = "skip"; break; }
        if (!Wd->sdw[i]) { res = "skip"; break; }
        ev(E_KILL, 0, MAXTH + 1 + i);
        delete Wd->sdw[i];
        Wd->sdw[i] = nullptr;
        res = "killed";
        break;
      }
      case T_MOCKLIFE: {
        // a mock object private to this thread: create, put an expectation on it, maybe call, destroy
        int mi = NMOCK + oi;
        if (!Wd->own_mock[oi]) {
          if ((o.a / 16) % 2) Wd->own_mock[oi] = new OwnMockT<Mk1m>; else Wd->own_mock[oi] = new OwnMockT<Mk1>;
          int id = id_base + opi + 1;
          long lo = o.a % 2, hi = 1 + o.a % 2;
          if ((o.a / 2) % 2) {
            // registered in a SHARED sequence: the private mock may die before this expectation is released
            int k = (o.a / 4) % NSEQ;
            ev(E_REG, id, k);
            ev(E_LIMITS, id, 0, 0, 0, lo, hi);
            ev(E_HOOK, id, mi, 0, -1);
            Wd->own_exp[oi] = Wd->own_mock[oi]->expect(Wd->seq[k].get(), static_cast<size_t>(lo), static_cast<size_t>(hi), id);
          } else {
            ev(E_LIMITS, id, 0, 0, 0, lo, hi);
            ev(E_HOOK, id, mi, 0, -1);
            Wd->own_exp[oi] = Wd->own_mock[oi]->expect(nullptr, static_cast<size_t>(lo), static_cast<size_t>(hi), id);
          }
          ownexp_id = id;
          if ((o.a / 8) % 2) {   // hand the expectation over: published with release order, taken with an atomic exchange
            Wd->orphan[oi].store(new World::Orphan{Wd->own_exp[oi].release(), id}, std::memory_order_release);
          }
          res = "own-created";
        } else {
          if (o.b % 2) { ev(E_CALL, 0, mi, 0, 1); int r = Wd->own_mock[oi]->call(1); res = "R:" + std::to_string(r) + ";"; }
          ev(E_OWNMOCK_DTOR, 0, mi);
          delete Wd->own_mock[oi];
          Wd->own_mock[oi] = nullptr;
          if (Wd->own_exp[oi]) { ev(E_DESTROY, ownexp_id); Wd->own_exp[oi].reset(); }
          else if (auto* p = Wd->orphan[oi].exchange(nullptr, std::memory_order_acq_rel)) { ev(E_DESTROY, ownexp_id); delete p->e; delete p; }
          ownexp_id = -1;
          res += "own-destroyed";
        }
        break;
      }
    }
  } catch (fatal_report&) {
    res = "fatal";
  }
  for (auto& r : reports) res += "|" + r;
  rec.observed = res;
  shim::tickets = nullptr;
  t_reports = nullptr;
  if (shim::depth != 0) { rec.observed += "|LOCK-LEAK"; }
}

// what the model says the operation observes given per-event results
static std::string expected_observation(const OpRec& r, const std::vector<std::string>& evres) {
  // evres: result string per event of this operation
  std::string res, reports;
  auto add_reports = [&](const std::string& s) {
    // s is a concatenation of "F:code;" / "N:code;" items
    size_t p = 0;
    while (p < s.size()) {
      size_t q = s.find(';', p);
      if (q == std::string::npos) break;
      reports += "|" + s.substr(p, q - p + 1);
      p = q + 1;
    }
  };
  switch (r.op.kind) {
    case T_CALL:
      if (evres[0][0] == 'R') res = evres[0];
      else { res = "fatal"; add_reports(evres[0]); }
      break;
    case T_CREATE: res = r.events.empty() ? "skip" : "created"; break;
    case T_RELEASE: res = r.events.empty() ? "skip" : "released"; if (!r.events.empty() && !evres[0].empty()) add_reports(evres[0]); break;
    case T_ADOPT: res = r.events.empty() ? "skip" : "adopted"; if (!r.events.empty() && !evres[0].empty()) add_reports(evres[0]); break;
    case T_QSAT: case T_QSATU: res = r.events.empty() ? "skip" : evres[0]; break;
    case T_QCOMP: res = evres[0]; break;
    case T_SWATCH:
    case T_WATCH: res = r.events.empty() ? "skip" : "watched"; break;
    case T_SKILL:
    case T_KILL: res = r.events.empty() ? "skip" : "killed"; if (!r.events.empty() && !evres[0].empty()) add_reports(evres[0]); break;
    case T_SREL:
    case T_UNWATCH: res = r.events.empty() ? "skip" : "unwatched"; if (!r.events.empty() && !evres[0].empty()) add_reports(evres[0]); break;
    case T_MOCKLIFE: {
      if (!r.events.empty() && r.events.back().type == E_HOOK) { res = "own-created"; break; }
      size_t i = 0;
      if (r.events[0].type == E_CALL) {
        if (evres[0][0] == 'R') res = evres[0] + ";";
        else { res = "fatal"; add_reports(evres[0]); return res + reports; }  // exception skips the rest
        ++i;
      }
      res += "own-destroyed";
      for (; i < r.events.size(); ++i) if (!evres[i].empty()) add_reports(evres[i]);
      break;
    }
  }
  return res + reports;
}

// Replay all events in ticket order under a placement of events on tickets; returns "" if every
// observation is reproduced, else a description of the first difference.
static std::string replay(const std::vector<OpRec>& recs, const std::vector<std::vector<size_t>>& place) {
  struct Item { long ticket; size_t rec, ev; };
  std::vector<Item> items;
  for (size_t r = 0; r < recs.size(); ++r)
    for (size_t e = 0; e < recs[r].events.size(); ++e) items.push_back({recs[r].tickets[place[r][e]], r, e});
  std::stable_sort(items.begin(), items.end(), [](const Item& x, const Item& y) { return x.ticket < y.ticket; });
  TModel m;
  std::vector<std::vector<std::string>> evres(recs.size());
  for (size_t r = 0; r < recs.size(); ++r) evres[r].assign(recs[r].events.size(), "");
  for (auto& it : items) {
    const OpRec& rc = recs[it.rec];
    // a fatal call aborts the rest of a T_MOCKLIFE destroy operation: later events of it did not happen
    if (rc.op.kind == T_MOCKLIFE && it.ev > 0 && rc.events[0].type == E_CALL && !evres[it.rec][0].empty() && evres[it.rec][0][0] == 'F') continue;
    evres[it.rec][it.ev] = m.apply(rc.events[it.ev]);
  }
  for (size_t r = 0; r < recs.size(); ++r) {
    std::string want = expected_observation(recs[r], evres[r]);
    if (want != recs[r].observed)
      return "T" + std::to_string(recs[r].tid) + " op " + std::to_string(recs[r].opi) + " (" + op_text(recs[r].op) + "): observed '" + recs[r].observed + "' but a sequential execution in lock order gives '" + want + "'";
  }
  return "";
}

static std::string linearizable(const std::vector<OpRec>& recs_in, long* searched) {
  // Real critical sections get even tickets. An operation that took the lock zero times (a lock-free
  // implementation would be legitimate) may take effect anywhere between its thread's previous and next
  // critical sections: it gets the odd tickets of that window as candidate positions.
  std::vector<OpRec> recs = recs_in;
  long maxt = 0;
  for (auto& r : recs) for (auto& t : r.tickets) { t *= 2; maxt = std::max(maxt, t); }
  for (size_t i = 0; i < recs.size(); ++i) {
    OpRec& r = recs[i];
    if (r.events.empty() || !r.tickets.empty()) continue;
    long lo = -1, hi = maxt + 1;
    for (size_t j = 0; j < recs.size(); ++j) {
      if (recs[j].tid != r.tid || recs[j].tickets.empty() || (recs[j].tickets.front() & 1)) continue;
      bool before = recs[j].tid == r.tid && (recs[j].opi < r.opi);
      if (r.tid < 0) before = j < i;   // main thread: prologue/epilogue order = vector order
      if (before) lo = std::max(lo, recs[j].tickets.back());
      else if (j != i) hi = std::min(hi, recs[j].tickets.front());
    }
    if (r.tid < 0 && r.opi < 100) hi = std::min(hi, 0L);           // prologue: before every worker section
    for (long t = lo + 1; t < hi + 1 && r.tickets.size() < 64; t += 2) r.tickets.push_back(t | 1);
    if (r.tickets.empty()) r.tickets.push_back(lo + 1);
  }
  std::vector<std::vector<size_t>> place(recs.size());
  // default placement: event i on section i, the last event on the last section
  for (size_t r = 0; r < recs.size(); ++r) {
    size_t ne = recs[r].events.size(), nt = recs[r].tickets.size();
    for (size_t e = 0; e < ne; ++e) place[r].push_back(e + 1 == ne ? nt - 1 : std::min(e, nt - 1));
  }
  std::string first = replay(recs, place);
  if (first.empty()) return "";
  // Search other order-preserving placements. Two sections of one operation with no other thread's section
  // between them are equivalent positions, so only one representative per such block is tried, and only
  // operations that are interleaved with another thread have a choice at all.
  std::vector<long> foreign;  // all tickets with their thread, sorted
  std::vector<std::pair<long, int>> all_t;
  for (auto& r : recs) for (long t : r.tickets) all_t.push_back({t, r.tid});
  std::sort(all_t.begin(), all_t.end());
  auto foreign_between = [&](long a, long b, int tid) {
    for (auto& p : all_t) if (p.first > a && p.first < b && p.second != tid) return true;
    return false;
  };
  std::vector<size_t> multi;
  std::vector<std::vector<size_t>> reps(recs.size());   // representative section index of each block
  for (size_t r = 0; r < recs.size(); ++r) {
    if (recs[r].events.empty()) continue;
    const auto& tk = recs[r].tickets;
    reps[r].push_back(0);
    for (size_t i = 1; i < tk.size(); ++i) if (foreign_between(tk[i - 1], tk[i], recs[r].tid)) reps[r].push_back(i);
    if (reps[r].size() > 1) multi.push_back(r);
  }
  if (multi.empty()) return first;
  long budget = g_search_budget;
  std::function<bool(size_t)> rec_search = [&](size_t k) -> bool {
    if (k == multi.size()) { ++*searched; if (--budget < 0) return false; return replay(recs, place).empty(); }
    size_t r = multi[k];
    size_t ne = recs[r].events.size(), nb = reps[r].size();
    std::vector<size_t> cur(ne, 0);
    std::function<bool(size_t, size_t)> gen = [&](size_t e, size_t lo) -> bool {
      if (e == ne) { for (size_t i = 0; i < ne; ++i) place[r][i] = reps[r][cur[i]]; return rec_search(k + 1); }
      for (size_t t = lo; t < nb; ++t) { cur[e] = t; if (gen(e + 1, t)) return true; if (budget < 0) return false; }
      return false;
    };
    return gen(0, 0);
  };
  if (rec_search(0)) return "";
  // the search was cut off: whether a placement explains the observation is not known. A budget hit is inconclusive,
  // never a violation (it is counted, and the share of such cases is part of the evidence)
  if (budget < 0) { ST.label("cases_inconclusive_placement_search_budget_exhausted"); return ""; }
  return first + " [no placement of the operation's steps on its critical sections explains it]";
}

// ------------------------------------------------------------------------------------------
struct RunResult { std::string problem; size_t sections = 0; bool overlap = false; std::vector<int> branching; bool shared_touch = false; };

static RunResult run_program(const Program& p, bool sched_mode) {
  RunResult rr;
  World w;
  Wd = &w;
  install_reporter();
  for (int i = 0; i < NMOCK; ++i) w.mock[i] = new Mk;
  for (int i = 0; i < NSEQ; ++i) w.seq[i] = std::make_unique<trompeloeil::sequence>();
  std::vector<std::vector<OpRec>> recs(static_cast<size_t>(p.nthreads) + 1);
  std::vector<int> slot_id(NSLOTS, -1);
  std::vector<int> mon_ids(MAXTH + 1, -1), own_ids(MAXTH + 1, -1);
  shim::ticket_counter = 0;   // no worker thread is running here
#ifdef T_STD_MUTEX
  static bool first_program = true;
  const bool bare_start = first_program;   // nothing on the main thread may take the library's lock before the workers run
  first_program = false;
#else
  const bool bare_start = false;
#endif
  // prologue on the main thread (tid -1)
  auto& prec = recs[static_cast<size_t>(p.nthreads)];
  prec.resize(bare_start ? 0 : p.prologue.size());
  for (size_t i = 0; i < prec.size(); ++i) run_op(-1, static_cast<int>(i), p.prologue[i], slot_id, mon_ids[MAXTH], own_ids[MAXTH], prec[i], 9000);
  // shared deathwatched objects and their requirements (main thread; recorded like prologue operations)
  w.nthreads = p.nthreads;
  for (int i = 0; i < 2 && !bare_start; ++i) {
    w.sdw[i] = new trompeloeil::deathwatched<Dw>();
    for (int j = 0; j < 2; ++j) {
      OpRec r;
      r.tid = -1; r.opi = 50 + 2 * i + j; r.op = Op{T_WATCH, 0, 0};
      int id = 20000 + 2 * i + j;   // outside every thread's id range (thread t: 1000 * (t + 1) + op index, prologue: 9000 +); 8000 + collided with thread 7
      r.events.push_back(Ev{E_MONLINK, -1, r.opi, id, MAXTH + 1 + i, 0, 0, 0, 0});
      shim::tickets = &r.tickets;
      auto& obj = *w.sdw[i];
      w.smon[i][j] = NAMED_REQUIRE_DESTRUCTION(obj);
      shim::tickets = nullptr;
      w.smon_id[i][j] = id;
      r.observed = "watched";
      prec.push_back(r);
    }
  }
  std::unique_ptr<CountTracer> tracer;
  if (g_c17) tracer = std::make_unique<CountTracer>();
  std::atomic<int> go{0};
  shim::sched_on = sched_mode;
  for (int t = 0; t < shim::MAXT; ++t) shim::st[t] = shim::IDLE;
  shim::granted = -1;
  std::vector<std::thread> th;
  for (int t = 0; t < p.nthreads; ++t) {
    recs[static_cast<size_t>(t)].resize(p.ops[static_cast<size_t>(t)].size());
    { std::lock_guard<std::mutex> l(shim::smu); shim::st[t] = shim::RUNNING; }
    th.emplace_back([&, t] {
      shim::tid = t;
      shim::depth = 0;
      shim::section_no = 0;
      shim::yields = &p.yields[static_cast<size_t>(t)];
      while (go.load(std::memory_order_acquire) == 0) std::this_thread::yield();
      auto& ops = p.ops[static_cast<size_t>(t)];
      for (size_t i = 0; i < ops.size(); ++i)
        run_op(t, static_cast<int>(i), ops[i], slot_id, mon_ids[static_cast<size_t>(t)], own_ids[static_cast<size_t>(t)], recs[static_cast<size_t>(t)][i], 1000 * (t + 1));
      shim::yields = nullptr;
      std::lock_guard<std::mutex> l(shim::smu);
      shim::st[t] = shim::DONE;
      shim::scv.notify_all();
    });
  }
  go.store(1, std::memory_order_release);
  if (sched_mode) {
    size_t step = 0;
    for (;;) {
      std::unique_lock<std::mutex> l(shim::smu);
      shim::scv.wait(l, [&] {
        if (shim::granted >= 0) return false;
        for (int t = 0; t < p.nthreads; ++t) if (shim::st[t] == shim::RUNNING) return false;
        return true;
      });
      std::vector<int> parked;
      for (int t = 0; t < p.nthreads; ++t) if (shim::st[t] == shim::PARKED) parked.push_back(t);
      if (parked.empty()) break;
      int c = step < p.schedule.size() ? p.schedule[step] : 0;
      rr.branching.push_back(static_cast<int>(parked.size()));
      ++step;
      shim::granted = parked[static_cast<size_t>(c) % parked.size()];
      shim::st[shim::granted] = shim::RUNNING;
      shim::scv.notify_all();
    }
  }
  for (auto& t : th) t.join();
  shim::sched_on = false;
  std::string tracer_problem;
  if (tracer) {
    size_t accepted = 0, fatal_calls = 0;
    for (int t = 0; t < p.nthreads; ++t) for (auto& r : recs[static_cast<size_t>(t)]) {
      if (r.op.kind != T_CALL && r.op.kind != T_MOCKLIFE) continue;
      if (r.observed.rfind("R:", 0) == 0) ++accepted;
      else if (r.observed.rfind("fatal", 0) == 0) ++fatal_calls;
    }
    size_t got = tracer->records.size();
    // a rejected (forbidden / out-of-sequence) call may or may not be traced; every accepted call must be, exactly once
    if (got < accepted || got > accepted + fatal_calls)
      tracer_problem = "tracer installed by the main thread received " + std::to_string(got) + " records for " + std::to_string(accepted) + " accepted calls made by the worker threads (" + std::to_string(fatal_calls) + " rejected)";
    tracer.reset();
  }
  // epilogue: main thread releases whatever is left, as operations of its own (checked as well)
  std::vector<OpRec> all;
  for (auto& r : prec) all.push_back(r);
  for (int t = 0; t < p.nthreads; ++t) for (auto& r : recs[static_cast<size_t>(t)]) all.push_back(r);
  {
    int opi = 100;
    auto epi = [&](int owner_tid, Op o, int& monid, int& ownid) {
      OpRec r;
      run_op(owner_tid, opi++, o, slot_id, monid, ownid, r, 0);
      r.tid = owner_tid;
      all.push_back(r);
    };
    for (int t = -1; t < p.nthreads; ++t) {
      int oi = owner_index(t);
      for (int k = 0; k < SLOTS_PER_THREAD; ++k) if (w.slot[slot_of(t, k)]) epi(t, Op{T_RELEASE, k}, mon_ids[static_cast<size_t>(oi)], own_ids[static_cast<size_t>(oi)]);
      if (w.mon[oi]) epi(t, Op{T_UNWATCH}, mon_ids[static_cast<size_t>(oi)], own_ids[static_cast<size_t>(oi)]);
      if (w.dw[oi]) epi(t, Op{T_KILL}, mon_ids[static_cast<size_t>(oi)], own_ids[static_cast<size_t>(oi)]);
      if (w.own_mock[oi]) epi(t, Op{T_MOCKLIFE, 0, 0}, mon_ids[static_cast<size_t>(oi)], own_ids[static_cast<size_t>(oi)]);
    }
  }
  {
    int opi = 200;
    for (int i = 0; i < 2; ++i) {
      for (int j = 0; j < 3; ++j) if (w.smon[i][j]) { OpRec r; run_op(-1, opi++, Op{T_SREL, i, j}, slot_id, mon_ids[MAXTH], own_ids[MAXTH], r, 0); r.tid = -1; all.push_back(r); }
      if (w.sdw[i]) { OpRec r; run_op(-1, opi++, Op{T_SKILL, i}, slot_id, mon_ids[MAXTH], own_ids[MAXTH], r, 0); r.tid = -1; all.push_back(r); }
    }
  }
  for (int i = 0; i < NMOCK; ++i) delete w.mock[i];
  for (int i = 0; i < NSEQ; ++i) w.seq[i].reset();
  Wd = nullptr;
  // analysis
  for (auto& r : all) {
    rr.sections += r.tickets.size();
    if (r.observed.find("LOCK-LEAK") != std::string::npos) { rr.problem = "lock still held after operation " + op_text(r.op); return rr; }
  }
  // overlap: some multi-section operation has another thread's section between its first and last
  for (auto& r : all) if (r.tickets.size() > 1)
    for (auto& q : all) if (q.tid != r.tid) for (long t : q.tickets) if (t > r.tickets.front() && t < r.tickets.back()) rr.overlap = true;
  {
    // >= 2 threads touch the same sequence or the same mock function
    std::map<std::string, std::set<int>> touch;
    for (auto& r : all) for (auto& e : r.events) {
      if (r.tid < 0) continue;
      if (e.type == E_REG || e.type == E_QCOMP) touch["s" + std::to_string(e.a)].insert(r.tid);
      if (e.type == E_CALL || e.type == E_HOOK) touch["m" + std::to_string(e.a) + "." + std::to_string(e.b)].insert(r.tid);
    }
    for (auto& kv : touch) if (kv.second.size() >= 2) rr.shared_touch = true;
  }
  if (g_c17) { rr.problem = tracer_problem; return rr; }   // under C17 only the tracing rule is judged (linearizability belongs to C12)
#ifdef T_STD_MUTEX
  return rr;   // no tickets without the shim: ThreadSanitizer and the other sanitizers are the oracle of this build
#endif
  long searched = 0;
  rr.problem = linearizable(all, &searched);
  if (searched) ST.label("placement_searches", static_cast<uint64_t>(searched));
  return rr;
}

// ------------------------------------------------------------------------------------------
static void account(const Program& p, const RunResult& r, const char* mode) {
  ST.evaluations++;
  ST.label(std::string("runs_mode_") + mode);
  ST.label("critical_sections", r.sections);
  ST.label("threads_" + std::to_string(p.nthreads));
  if (r.overlap) ST.label("runs_with_interleaved_multi_section_operation");
  if (r.shared_touch) ST.label("runs_with_shared_sequence_or_function");
  if (r.shared_touch && (r.overlap || p.nthreads >= 2)) {
    // non-trivial: >= 2 threads touch the same sequence / mock function (and for distinctness the schedule matters)
    std::string t = program_text(p);
    if (r.overlap) ST.nontrivial_case(vc::fnv1a(t + mode), t);
  }
}

static int g_cur_fd = -1;
static void save_current(const Program& p, const char* mode) {
  if (g_cur_fd < 0) {
    std::string path = A.faildir + "/cur_case." + std::to_string(getpid()) + ".txt";
    g_cur_fd = open(path.c_str(), O_CREAT | O_WRONLY | O_TRUNC, 0644);
    if (g_cur_fd < 0) return;
  }
  std::string t = "# engine=T prop=" + A.prop + " mode=" + std::string(mode) + "\n# case in progress when the process ended\n" + program_text(p);
  if (pwrite(g_cur_fd, t.data(), t.size(), 0) == static_cast<ssize_t>(t.size())) { if (ftruncate(g_cur_fd, static_cast<off_t>(t.size())) != 0) {} }
}

static bool check_program(const Program& p, bool sched, std::string* why, RunResult* out = nullptr) {
  const char* mode = sched ? "B" : "A";
  save_current(p, mode);
  RunResult r = run_program(p, sched);
  account(p, r, mode);
  if (out) *out = r;
  if (!r.problem.empty()) {
    if (why) *why = r.problem;
    std::string path = A.faildir + "/t_fail." + A.prop + "." + std::to_string(getpid()) + ".txt";
    vc::write_file(path, "# engine=T prop=" + A.prop + " mode=" + std::string(mode) + "\n# " + r.problem + "\n" + program_text(p));
    g_last_fail = path;
    return false;
  }
  return true;
}

static rc::Gen<Op> gen_op(bool prologue) {
  return rc::gen::exec([prologue]() {
    Op o;
    int k = *rc::gen::resize(100, rc::gen::inRange(0, 100));
    if (prologue) o.kind = T_CREATE;
    else if (k < 34) o.kind = T_CALL;
    else if (k < 56) o.kind = T_CREATE;
    else if (k < 66) o.kind = T_RELEASE;
    else if (k < 72) o.kind = T_QSAT;
    else if (k < 76) o.kind = T_QSATU;
    else if (k < 84) o.kind = T_QCOMP;
    else if (k < 89) o.kind = T_WATCH;
    else if (k < 92) o.kind = T_KILL;
    else if (k < 94) o.kind = T_UNWATCH;
    else if (k < 95) o.kind = T_MOCKLIFE;
    else if (k < 96) o.kind = T_ADOPT;
    else if (k < 98) o.kind = T_SREL;
    else if (k < 99) o.kind = T_SKILL;
    else o.kind = T_SWATCH;
    auto small = [](int n) { return *rc::gen::resize(100, rc::gen::inRange(0, n)); };
    switch (o.kind) {
      case T_CALL: o.a = small(4) ? 0 : 1; o.b = small(4) ? 0 : 1; o.c = small(3); break;
      case T_CREATE: o.a = small(2); o.b = small(NFORM * 2) % NFORM; o.c = small(5) ? 0 : small(4); o.d = small(4); o.e = small(12); o.f = small(3) ? 0 : 1; if (small(3) == 0) o.b = FM_PLAIN; break;
      case T_RELEASE: case T_QSAT: case T_QSATU: o.a = small(2); break;
      case T_QCOMP: o.a = small(3) ? 0 : 1; break;
      case T_WATCH: o.a = small(2); o.b = small(3) ? 0 : 1; break;
      case T_MOCKLIFE: o.a = small(32); o.b = small(2); break;
      case T_ADOPT: o.a = small(4); break;
      case T_SREL: o.a = small(2); o.b = small(3); break;
      case T_SKILL: case T_SWATCH: o.a = small(2); break;
      default: break;
    }
    return o;
  });
}

static rc::Gen<Program> gen_program(int max_threads, int max_ops) {
  return rc::gen::exec([=]() {
    Program p;
    p.nthreads = *rc::gen::resize(100, rc::gen::inRange(2, max_threads + 1));
    p.prologue = *rc::gen::container<std::vector<Op>>(gen_op(true));
    if (p.prologue.size() > 2) p.prologue.resize(2);
    for (int t = 0; t < p.nthreads; ++t) {
      auto v = *rc::gen::container<std::vector<Op>>(gen_op(false));
      if (static_cast<int>(v.size()) > max_ops) v.resize(static_cast<size_t>(max_ops));
      if (v.empty()) v.push_back(Op{T_CALL, 0, 0, 0});
      p.ops.push_back(v);
      auto y = *rc::gen::container<std::vector<int>>(rc::gen::resize(100, rc::gen::inRange(0, 4)));
      if (y.size() > 24) y.resize(24);
      p.yields.push_back(y);
    }
    // half of the programs: one shared deathwatched object is destroyed by its owner thread while its two
    // requirements are released by (possibly) other threads, at generated positions
    if (*rc::gen::resize(100, rc::gen::inRange(0, 2)) == 1) {
      int i = *rc::gen::resize(100, rc::gen::inRange(0, 2));
      auto put = [&](int t, Op o) {
        auto& v = p.ops[static_cast<size_t>(t)];
        size_t pos = static_cast<size_t>(*rc::gen::resize(100, rc::gen::inRange(0, static_cast<int>(v.size()) + 1)));
        v.insert(v.begin() + static_cast<long>(pos), o);
      };
      put(i % p.nthreads, Op{T_SKILL, i});
      for (int j = 0; j < 2; ++j) put((i + j + 1) % p.nthreads, Op{T_SREL, i, j});
      // ... and in half of those the owner also registers a third requirement (and may release it) meanwhile
      if (*rc::gen::resize(100, rc::gen::inRange(0, 2)) == 1) {
        put(i % p.nthreads, Op{T_SWATCH, i});
        if (*rc::gen::resize(100, rc::gen::inRange(0, 2)) == 1) put(i % p.nthreads, Op{T_SREL, i, 2});
      }
    }
    // a third of the programs: a thread creates its private mock with an expectation that it publishes, and destroys the
    // mock later on; another thread adopts (releases) that expectation at a generated position
    if (*rc::gen::resize(100, rc::gen::inRange(0, 3)) == 1) {
      int t = *rc::gen::resize(100, rc::gen::inRange(0, p.nthreads));
      int u = (t + 1 + *rc::gen::resize(100, rc::gen::inRange(0, p.nthreads - 1))) % p.nthreads;   // u != t
      auto& v = p.ops[static_cast<size_t>(t)];
      size_t p1 = static_cast<size_t>(*rc::gen::resize(100, rc::gen::inRange(0, static_cast<int>(v.size()) + 1)));
      v.insert(v.begin() + static_cast<long>(p1), Op{T_MOCKLIFE, 8 + *rc::gen::resize(100, rc::gen::inRange(0, 8)) + 16 * *rc::gen::resize(100, rc::gen::inRange(0, 2)), 0});
      size_t p2 = p1 + 1 + static_cast<size_t>(*rc::gen::resize(100, rc::gen::inRange(0, static_cast<int>(v.size() - p1))));
      v.insert(v.begin() + static_cast<long>(p2), Op{T_MOCKLIFE, 0, *rc::gen::resize(100, rc::gen::inRange(0, 2))});
      auto& w = p.ops[static_cast<size_t>(u)];
      size_t p3 = static_cast<size_t>(*rc::gen::resize(100, rc::gen::inRange(0, static_cast<int>(w.size()) + 1)));
      // adopt's operand selects the victim relative to the adopting thread: x = (u + 1 + a % (n - 1)) % n == t
      int a = ((t - u - 1) % p.nthreads + p.nthreads) % p.nthreads;
      w.insert(w.begin() + static_cast<long>(p3), Op{T_ADOPT, a});
    }
    p.schedule = *rc::gen::container<std::vector<int>>(rc::gen::resize(100, rc::gen::inRange(0, 8)));
    if (p.schedule.size() > 64) p.schedule.resize(64);
    return p;
  });
}

// exhaustive enumeration of lock-order schedules of a tiny program (mode B)
static bool enumerate_all(Program p, long* count, std::string* why, long cap) {
  p.schedule.clear();
  for (;;) {
    RunResult r;
    if (!check_program(p, true, why, &r)) return false;
    ++*count;
    if (*count >= cap) { ST.label("enumerations_capped"); return true; }
    // next schedule in odometer order over the observed branching factors
    std::vector<int> c = p.schedule;
    c.resize(r.branching.size(), 0);
    long i = static_cast<long>(c.size()) - 1;
    while (i >= 0 && c[static_cast<size_t>(i)] + 1 >= r.branching[static_cast<size_t>(i)]) --i;
    if (i < 0) return true;
    c[static_cast<size_t>(i)]++;
    c.resize(static_cast<size_t>(i) + 1);
    p.schedule = c;
  }
}

int main(int argc, char** argv) {
  A = vc::parse_args(argc, argv);
  g_search_budget = A.geti("budget", 3000000);
  g_c17 = A.prop == "C17";
  std::string mode = A.get("mode", "A");   // A: free-running (TSan build), B: owned random schedules, E: exhaustive schedules of tiny programs
  ST.rule = "rapidcheck generates programs of 2..N threads x 1..6 operations {call, create (6 spellings of IN_SEQUENCE/TIMES order), release, "
            "is_satisfied, is_saturated, is_completed, watch/kill/unwatch a thread-private deathwatched object (optionally in a shared sequence), "
            "thread-private mock life} over 2 shared mocks x 2 functions and 2 shared sequences, plus a prologue; mode A adds a yield table per thread "
            "(under ThreadSanitizer), mode B a schedule at critical-section granularity, mode E enumerates every schedule of tiny programs. "
            "non-trivial = >= 2 threads touch the same sequence or mock function AND a multi-section operation is interleaved with another thread's section; "
            "distinct = FNV-1a of program text + mode";
  ST.assumptions = {"caller obligations are respected by construction: expectations, monitors and private mocks are only used by their owning thread; shared mocks and sequences outlive the workers; the reporter is installed before the workers start",
                    "the lock order (tickets stamped inside the custom mutex) is the linearization order; creation may spread its three documented steps over its critical sections in any order-preserving way"};
  if (!A.replay.empty()) {
    Program p;
    std::string text = vc::read_file(A.replay);
    if (!parse_program(text, p)) { fprintf(stderr, "bad replay file\n"); return 2; }
    bool sched = text.find("mode=B") != std::string::npos || text.find("mode=E") != std::string::npos;
    if (A.has("mode")) sched = mode != "A";
    int reps = static_cast<int>(A.geti("reps", sched ? 1 : 200));
    std::string why;
    bool bad = false;
    for (int i = 0; i < reps && !bad; ++i) if (!check_program(p, sched, &why)) bad = true;
    if (A.has("verbose") || !A.has("quiet")) printf("%sreplay %s (%s, %d runs): %s %s\n", program_text(p).c_str(), A.replay.c_str(), sched ? "owned schedule" : "free running", reps, bad ? "FAILS" : "passes", why.c_str());
    ST.write(A.out);
    return bad ? 1 : 0;
  }
  int max_threads = static_cast<int>(A.geti("threads", 4));
  int max_ops = static_cast<int>(A.geti("ops", 6));
  bool ok = true;
  if (mode == "E") {
    long total = 0;
    ok = rc::check("C12 exhaustive schedules of tiny programs", [&]() {
      Program p = *gen_program(std::min(max_threads, 3), std::min(max_ops, 3));
      long n = 0;
      std::string why;
      bool good = enumerate_all(p, &n, &why, A.geti("cap", 3000));
      total += n;
      ST.label("programs_enumerated");
      if (!good) RC_FAIL(why);
    });
    ST.label("schedules_enumerated", static_cast<uint64_t>(total));
  } else {
    bool sched = mode == "B";
    int reps = static_cast<int>(A.geti("reps", sched ? 1 : 3));
    ok = rc::check(std::string("C12 mode ") + mode, [&]() {
      Program p = *gen_program(max_threads, max_ops);
      std::string why;
      for (int i = 0; i < reps; ++i) if (!check_program(p, sched, &why)) RC_FAIL(why);
    });
  }
  if (!ok && !g_last_fail.empty()) ST.violations.push_back({g_last_fail, "see replay header"});
  ST.write(A.out);
  return ok ? 0 : 1;
}

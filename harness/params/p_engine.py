#!/usr/bin/env python3-vt
"""Engine P (C09): generated parameter-passing programs.

  python3-vt p_engine.py --prop C09 --tier quick|thorough --seed N --out <json> --faildir <dir>
                         [--replay <file>] [--quiet]

Flow
  1. every translation unit (TU) is one Hypothesis example of gen_params.tu_spec(), drawn under
     @seed(derive(N, tu)) with database=None, deadline=None, report_multiple_bugs=False;
     forced arities make the arity coverage deterministic (quick: 0,1,2,15 and the four declaration macros of every arity; thorough: 0..15).
  2. the TUs are emitted, compiled (ASan+UBSan) 16 in parallel, run, and their
     "F <function> <check> ok|FAIL" lines are parsed into one verdict per function.
  3. when a function fails, the same Hypothesis run is repeated with the shrink phase enabled and a
     test function that answers from the verdict cache (unknown function variants are re-emitted
     alone in a 1-function TU and compiled on demand), so Hypothesis itself minimises the program.
  4. the minimal failing function is written as a self-contained source to
     <faildir>/p_fail.C09.<n>.txt and listed in the JSON; exit status 1.

Exit status: 0 no violation, 1 violation(s), 3 a generated TU does not compile (harness error unless
the program is legal and the library rejects it), 2 any other harness error.
"""
import argparse
import array
import collections
import json
import os
import re
import shutil
import subprocess
import sys
import tempfile
import threading
import time
from concurrent.futures import ThreadPoolExecutor

HERE = os.path.dirname(os.path.abspath(__file__))
sys.path.insert(0, HERE)

import hypothesis  # noqa: E402
from hypothesis import HealthCheck, Phase, given, settings  # noqa: E402

import gen_params as G  # noqa: E402

REPO = os.environ.get("VERIF_REPO", "/repo")
PAR = 16
BASE_FLAGS = ["-g", "-O1", "-fsanitize=address,undefined", "-fno-sanitize-recover=undefined", "-DTROMPELOEIL_SANITY_CHECKS"]
CRASH_RC = 77
RUN_ENV = {
    "ASAN_OPTIONS": "exitcode=%d:detect_leaks=1:abort_on_error=0:detect_stack_use_after_return=1" % CRASH_RC,
    "UBSAN_OPTIONS": "exitcode=%d:halt_on_error=1:print_stacktrace=1" % CRASH_RC,
    "LSAN_OPTIONS": "exitcode=%d" % CRASH_RC,
}
RULE = ("engine P: Hypothesis draws translation units of mock functions (arity 0..15, passing mode per position from "
        "{int, int&, int const&, int&&, int*, Tr, Tr&, Tr const&, Tr&&, unique_ptr<int>, unique_ptr<int>&&, reference_wrapper<int>, reference_wrapper<int>&}, const / "
        "overloaded / interface-implementing, return void / int / T& returning _k, terminal RETURN / THROW, plain or LR_ "
        "flavour per clause, capture checks); each function's driver carries the oracle inside WITH, SIDE_EFFECT, "
        "RETURN/THROW and checks the caller-side post-state. non-trivial (C09): a function with arity >= 2 and >= 2 "
        "different passing modes; distinct by (arity, mode vector, const/overload/interface kind, return kind), "
        "counted as FNV-1a hashes. evaluations = functions generated, compiled, run and checked.")
ASSUMPTIONS = [
    "conforming reporter: throws on severity::fatal, records and never throws on severity::nonfatal (any report at all is a failure here)",
    "by-value Tr arguments are passed as lvalue (one copy) or xvalue (one move), never as prvalue, so exactly one construction creates the parameter at every language level",
    "a by-value parameter is one object for the whole call: every clause must see the same address and the writes of earlier clauses",
    "plain clauses refer to caller objects only through raw pointers taken before the expectation is created (naming the object would copy it into the clause)",
    "a generated TU that does not compile is reported as harness error (exit 3), not as a property violation",
]


def log(*a):
    print(*a, flush=True)


def derive_seed(seed, idx):
    s = (int(seed) * 1000003 + idx * 7919 + 17) % 2147483647
    return s or 1


def fnv1a(s):
    h = 1469598103934665603
    for b in s.encode():
        h ^= b
        h = (h * 1099511628211) & 0xFFFFFFFFFFFFFFFF
    return h


# --------------------------------------------------------------------------- Hypothesis runs
def hyp_run(strategy, seed, test, shrink=False, max_examples=2):
    """Run one Hypothesis test.  Returns the exception raised by a failing test (or None)."""
    phases = [Phase.generate, Phase.shrink] if shrink else [Phase.generate]

    @hypothesis.seed(seed)
    @settings(database=None, deadline=None, report_multiple_bugs=False, max_examples=max_examples, phases=phases,
              suppress_health_check=list(HealthCheck), verbosity=hypothesis.Verbosity.quiet, derandomize=False)
    @given(strategy)
    def run(x):
        test(x)

    try:
        run()
    except _PropertyFailed as e:
        return e
    except Exception as e:      # e.g. hypothesis.errors.FlakyFailure wrapping ours
        if "_PropertyFailed" in repr(e) or "function fails" in str(e):
            return e
        raise
    return None


class _PropertyFailed(Exception):
    pass


# --------------------------------------------------------------------------- compile / run
class Toolchain:
    def __init__(self, compiler, std, cheap=False):
        # cheap: -O0 without sanitizers; only used for shrink candidates of failures that are FAIL lines
        # (not sanitizer aborts); the shrunk program is always confirmed with the real flags afterwards
        self.compiler, self.std, self.cheap = compiler, std, cheap

    def key(self):
        return "%s/%s%s" % (self.compiler, self.std, "/cheap" if self.cheap else "")

    def cmd(self, src, exe):
        flags = ["-O0", "-DTROMPELOEIL_SANITY_CHECKS"] if self.cheap else BASE_FLAGS
        return [self.compiler, "-std=" + self.std] + flags + ["-I" + os.path.join(REPO, "include"), "-I" + HERE, src, "-o", exe]


def parse_output(text, nfun):
    """-> (per function dict idx -> {'status', 'fails': [(id, detail)]}, done flag)"""
    res = {i: {"status": "notrun", "fails": []} for i in range(nfun)}
    done = False
    for line in text.splitlines():
        if line.startswith("B "):
            i = int(line.split()[1])
            if i in res:
                res[i]["status"] = "abort"     # until E is seen
        elif line.startswith("E "):
            i = int(line.split()[1])
            if i in res and res[i]["status"] == "abort":
                res[i]["status"] = "fail" if res[i]["fails"] else "ok"
        elif line.startswith("F "):
            p = line.split(None, 4)
            if len(p) >= 4 and p[3] == "FAIL":
                i = int(p[1])
                if i in res:
                    res[i]["fails"].append((p[2], p[4] if len(p) > 4 else ""))
        elif line.startswith("DONE"):
            done = True
    return res, done


_SLOTS = threading.BoundedSemaphore(PAR)     # at most PAR compiler / program processes at any time
_UID_LOCK = threading.Lock()


def build_and_run(src_text, tc, workdir, name, salt, timeout=1800):
    """Compile and run one TU.  -> dict(compiled, cerr, rc, out, secs)"""
    with _SLOTS:
        return _build_and_run(src_text, tc, workdir, name, salt, timeout)


def _build_and_run(src_text, tc, workdir, name, salt, timeout):
    src = os.path.join(workdir, name + ".cpp")
    exe = os.path.join(workdir, name + ".bin")
    with open(src, "w") as f:
        f.write(src_text)
    t0 = time.time()
    try:
        c = subprocess.run(tc.cmd(src, exe), stdout=subprocess.PIPE, stderr=subprocess.STDOUT, text=True, errors="replace", timeout=timeout)
    except subprocess.TimeoutExpired:
        return dict(compiled=False, cerr="compiler timeout", rc=None, out="", secs=time.time() - t0, timeout=True)
    if c.returncode != 0:
        return dict(compiled=False, cerr=c.stdout, rc=None, out="", secs=time.time() - t0)
    env = dict(os.environ)
    for k, v in RUN_ENV.items():
        env.setdefault(k, v)
    try:
        r = subprocess.run([exe, str(salt)], stdout=subprocess.PIPE, stderr=subprocess.STDOUT, text=True, errors="replace", timeout=120, env=env)
        rc, out = r.returncode, r.stdout
    except subprocess.TimeoutExpired as ex:
        rc, out = -9, (ex.stdout or "") if isinstance(ex.stdout, str) else (ex.stdout or b"").decode(errors="replace")
    try:
        os.unlink(exe)
    except OSError:
        pass
    return dict(compiled=True, cerr="", rc=rc, out=out, secs=time.time() - t0)


def sanitizer_summary(out):
    for l in out.splitlines():
        if "ERROR: AddressSanitizer" in l or "runtime error:" in l or "ERROR: LeakSanitizer" in l or "SUMMARY:" in l:
            return l.strip()[:300]
    return ""


# --------------------------------------------------------------------------- the engine
class Engine:
    def __init__(self, a):
        self.a = a
        self.tier = a.tier
        self.seed = int(a.seed)
        self.salt = self.seed % 1000
        self.faildir = os.path.abspath(a.faildir)
        os.makedirs(self.faildir, exist_ok=True)
        self.scratch = tempfile.mkdtemp(prefix="p_scratch.", dir=self.faildir)
        self.cache = {}            # (canon spec, toolchain key) -> verdict dict
        self.labels = collections.Counter()
        self.hashes = set()
        self.samples = []
        self.evaluations = 0
        self.violations = []       # (replay path, message)
        self.compile_errors = []   # (path, first error line)
        self.notes = []
        self.nfail_files = 0
        self.uid = 0
        self.minimal_seen = set()
        self.tu_secs = {}

    # ----- plan
    def plan(self):
        """-> list of dict(idx, forced, lo, hi, tc)"""
        tus = []
        if self.tier == "quick":
            for i in range(16):
                # arities 0, 1, 2 and 15 are present deterministically (several times), the rest is drawn
                forced = [(0, 15), (1, 15), (2,), (15,), (0, 2), (1,), (15, 2), ()][i % 8]
                # the four declaration macros of arity i (MAKE_MOCKi, MAKE_CONST_MOCKi, IMPLEMENT_MOCKi, IMPLEMENT_CONST_MOCKi):
                # every entry of the macro table is used in every run, whatever else is drawn
                forced = tuple(forced) + ((i, False, "plain", "n"), (i, True, "plain", "n"), (i, False, "iface", "implement"), (i, True, "iface", "implement"))
                tus.append(dict(idx=i, forced=forced, lo=6, hi=10, tc=Toolchain("clang++", "c++17")))
        else:
            comps = ["g++", "clang++"]
            stds = ["c++14", "c++17", "c++20"]
            for i in range(192):
                forced = (i % 16,)
                tus.append(dict(idx=i, forced=forced, lo=8, hi=12, tc=Toolchain(comps[i % 2], stds[(i // 2) % 3])))
        n = os.environ.get("P_ENGINE_MAX_TUS")
        if n:
            tus = tus[: int(n)]
        return tus

    def strategy(self, tu):
        return G.tu_spec(forced=tu["forced"], lo=tu["lo"], hi=tu["hi"])

    def draw(self, tu):
        """Pass 1: collect the examples Hypothesis generates for this TU (never fails)."""
        got = []
        hyp_run(self.strategy(tu), derive_seed(self.seed, tu["idx"]), got.append)
        fns, seen = [], set()
        # got[-1] is the seeded random example, got[0] Hypothesis' minimal example (all-int functions of the
        # forced arities): keep both; a minimal function is checked once per toolchain, not once per TU
        for n, ex in enumerate(reversed(got)):
            for s in ex:
                k = G.canon(s)
                if k in seen or (n > 0 and (k, tu["tc"].key()) in self.minimal_seen):
                    continue
                seen.add(k)
                if n > 0:
                    self.minimal_seen.add((k, tu["tc"].key()))
                fns.append(s)
        tu["examples"] = got
        tu["fns"] = fns

    # ----- evaluation
    def check_tu(self, fns, tc, name):
        """Compile + run a list of function specs as one TU; fill the verdict cache; on TU-level trouble
        (compile error, abort) fall back to 1-function TUs.  Returns the emitted source."""
        src, _ids = G.emit_tu(fns, title=name, std=tc.std)
        r = build_and_run(src, tc, self.scratch, name, self.salt)
        self.tu_secs[name] = round(r["secs"], 1)
        if r.get("timeout"):
            self.notes.append("%s: compiler timeout (inconclusive)" % name)
            for s in fns:
                self.cache[(G.canon(s), tc.key())] = dict(status="skip", fails=[], detail="compiler timeout")
            return src
        single = []
        if not r["compiled"]:
            if len(fns) == 1:
                self.cache[(G.canon(fns[0]), tc.key())] = dict(status="cerr", fails=[], detail=first_error(r["cerr"]), cerr=r["cerr"], src=src)
                return src
            single = list(fns)
        else:
            res, done = parse_output(r["out"], len(fns))
            clean_exit = done and r["rc"] in (0, 1)
            for i, s in enumerate(fns):
                v = res[i]
                st_ = v["status"]
                if st_ in ("ok", "notrun") and not clean_exit:
                    # the process ended abnormally in another function, before this one ran, or at exit (leak
                    # report): decide this function alone; a 1-function TU owns the abnormal termination
                    if len(fns) > 1:
                        single.append(s)
                        continue
                    st_ = "abort"
                d = dict(status=st_, fails=v["fails"], detail="", out=r["out"] if st_ != "ok" else "")
                if st_ == "abort":
                    d["detail"] = "abnormal termination rc=%s %s" % (r["rc"], sanitizer_summary(r["out"]))
                elif st_ == "fail":
                    d["detail"] = "; ".join("%s: %s" % f for f in v["fails"][:4])
                self.cache[(G.canon(s), tc.key())] = d
        if single:
            self.check_singles(single, tc, name)
        return src

    def check_singles(self, fns, tc, name):
        todo = [s for s in fns]

        def one(item):
            j, s = item
            return self.check_tu([s], tc, "%s_s%d_%d" % (name, j, self.next_uid()))
        with ThreadPoolExecutor(max_workers=PAR) as ex:
            list(ex.map(one, enumerate(todo)))

    def next_uid(self):
        with _UID_LOCK:
            self.uid += 1
            return self.uid

    def verdict(self, s, tc):
        return self.cache.get((G.canon(s), tc.key()))

    # ----- statistics
    def account(self, tu):
        for s in tu["fns"]:
            v = self.verdict(s, tu["tc"])
            if v is None or v["status"] == "skip":
                continue
            self.evaluations += 1
            modes = G.modes_of(s)
            self.labels["arity=%02d" % len(modes)] += 1
            for m in modes:
                self.labels["mode=" + G.ctype(m).replace("ps::", "").replace("std::", "")] += 1
            self.labels["kind=" + G.kind_label(s)] += 1
            self.labels["decl=" + s["decl"]] += 1
            self.labels["ret=" + s["ret"]] += 1
            self.labels["term=" + s["term"] + (":LR" if s["t_lr"] and s["term"] != "none" else "")] += 1
            self.labels["WITH=" + ("LR" if s["w_lr"] else "plain")] += 1
            if s["w_cap"] != "none":
                self.labels["capture:WITH:%s:%s" % ("LR" if s["w_lr"] else "plain", s["w_cap"])] += 1
            if s["s1_cap"]:
                self.labels["capture:SIDE_EFFECT:" + ("LR" if s["s1_lr"] else "plain")] += 1
            if s["s2"] and s["s2_cap"]:
                self.labels["capture:SIDE_EFFECT:" + ("LR" if s["s2_lr"] else "plain")] += 1
            if s["term"] != "none" and s["t_val"] == "cap" and not (s["term"] == "return" and s["ret"] == "ref"):
                self.labels["capture:%s:%s" % ("RETURN" if s["term"] == "return" else "THROW", "LR" if s["t_lr"] else "plain")] += 1
            self.labels["toolchain=" + tu["tc"].key()] += 1
            self.labels["verdict=" + v["status"]] += 1
            if G.is_nontrivial(s):
                self.labels["nontrivial"] += 1
                h = fnv1a(G.nontrivial_key(s))
                if h not in self.hashes:
                    self.hashes.add(h)
                    if len(self.samples) < 5:
                        self.samples.append(G.render(s))
                    elif h % 97 == 0:
                        self.samples[h % 5] = G.render(s)

    # ----- failures
    def shrink(self, tu, budget):
        """Pass 2: repeat the TU's Hypothesis run with shrinking.  The test function answers from the verdict
        cache: a TU that still contains a function known to fail fails without compiling anything (so
        simplifying the other functions is free); otherwise the unknown function variants are re-emitted alone
        in 1-function TUs and compiled on demand.  Returns the minimal failing function spec (or None)."""
        tc = tu["tc"]
        known = [(s, self.verdict(s, tc)) for s in tu["fns"]]
        only_fail_lines = all(v["status"] != "abort" for _, v in known if v)
        stc = Toolchain(tc.compiler, tc.std, cheap=True) if only_fail_lines else tc
        if stc is not tc:
            for s, v in known:
                if v:
                    self.cache.setdefault((G.canon(s), stc.key()), v)
        deadline = time.time() + budget
        state = dict(last=None, compiled=0)

        def failing(fns):
            for s in fns:
                v = self.verdict(s, stc)
                if v and v["status"] in ("fail", "abort"):
                    return s, v
            return None

        def test(fns):
            f = failing(fns)
            if f is None:
                unknown, seen = [], set()
                for s in fns:
                    k = G.canon(s)
                    if k not in seen and (k, stc.key()) not in self.cache:
                        seen.add(k)
                        unknown.append(s)
                if unknown:
                    if time.time() > deadline:
                        return      # budget exhausted: unknown variants count as passing, shrinking stops here
                    state["compiled"] += len(unknown)
                    self.check_singles(unknown, stc, "shr%d" % tu["idx"])
                    f = failing(fns)
            if f is not None:
                state["last"] = f[0]
                raise _PropertyFailed("function fails: " + f[1]["detail"])

        hyp_run(self.strategy(tu), derive_seed(self.seed, tu["idx"]), test, shrink=True)
        self.labels["shrink_candidates_compiled"] += state["compiled"]
        return state["last"]

    def write_fail(self, s, tc, why):
        """Emit s alone, verify that it still fails, and write the replay file.  Returns path or None."""
        src, _ = G.emit_tu([s], title="failing function re-emitted alone", support_include=inline_support(), std=tc.std)
        v = self.verdict(s, tc)
        self.nfail_files += 1
        path = os.path.join(self.faildir, "p_fail.C09.%d.txt" % self.nfail_files)
        checks = ", ".join("%s (%s)" % f for f in v["fails"][:6]) if v and v["fails"] else (v["detail"] if v else why)
        with open(path, "w") as f:
            f.write("# engine=P prop=C09\n")
            f.write("# compiler=%s std=%s\n" % (tc.compiler, tc.std))
            f.write("# failing check: %s\n" % G_one_line(checks))
            f.write("# function: %s\n" % G.render(s))
            f.write("# seed=%d salt=%d\n" % (self.seed, self.salt))
            f.write(src)
        return path, checks

    def confirm_alone(self, s, tc, tag):
        """Re-emit s alone with the real flags; True when it fails by itself."""
        key = (G.canon(s), tc.key())
        before = self.cache.pop(key, None)
        self.check_tu([s], tc, "confirm%s_%d" % (tag, self.next_uid()))
        v = self.cache.get(key)
        if v and v["status"] in ("fail", "abort"):
            return True
        if before is not None:
            self.cache[key] = before
        return False

    def handle_failures(self, tus):
        failing = []
        for tu in tus:
            bad = [s for s in tu["fns"] if (self.verdict(s, tu["tc"]) or {}).get("status") in ("fail", "abort")]
            if bad:
                failing.append((tu, bad))
        self.labels["failing_functions"] += sum(len(b) for _, b in failing)
        budget = 45 if self.tier == "quick" else 240
        max_files = 4
        reported = set()
        for n, (tu, bad) in enumerate(failing):
            if self.nfail_files >= max_files:
                break
            tc = tu["tc"]
            cands = []
            if n < 2:
                t = self.shrink(tu, budget)
                if t is not None:
                    cands.append(t)
            cands.append(bad[0])
            target = None
            for c in cands:
                # the single-function re-emission must fail by itself (real flags) to be a valid replay
                if self.confirm_alone(c, tc, str(tu["idx"])):
                    target = c
                    break
            if target is None:
                # fails only in the company of the other functions: keep the whole TU as the replay
                v = self.verdict(bad[0], tc)
                src, _ = G.emit_tu(tu["fns"], title="whole TU (function does not fail alone)", support_include=inline_support(), std=tc.std)
                self.nfail_files += 1
                path = os.path.join(self.faildir, "p_fail.C09.%d.txt" % self.nfail_files)
                msg = v["detail"] if v else "failure"
                with open(path, "w") as f:
                    f.write("# engine=P prop=C09\n# compiler=%s std=%s\n# failing check: %s\n# seed=%d salt=%d\n" % (tc.compiler, tc.std, G_one_line(msg), self.seed, self.salt))
                    f.write(src)
                self.violations.append((path, "TU %d: %s" % (tu["idx"], msg)))
                continue
            k = (G.canon(target), tc.key())
            if k in reported:
                continue
            reported.add(k)
            path, checks = self.write_fail(target, tc, "failure")
            self.violations.append((path, "%s  [%s %s]  failing: %s" % (G.render(target), tc.compiler, tc.std, checks)))

    def handle_compile_errors(self, tus):
        n = 0
        for tu in tus:
            for s in tu["fns"]:
                v = self.verdict(s, tu["tc"])
                if v and v["status"] == "cerr":
                    n += 1
                    if len(self.compile_errors) < 4:
                        # every generated program uses documented forms only and compiles against the unchanged tree on
                        # every run (same seed, same programs): a tree that rejects one fails the check, with the
                        # program as the replay (a replay passes again once the program compiles and its checks hold)
                        path = os.path.join(self.faildir, "p_compile_error.C09.%d.txt" % (len(self.compile_errors) + 1))
                        src, _ = G.emit_tu([s], title="does not compile", support_include=inline_support(), std=tu["tc"].std)
                        first = next((l for l in v.get("cerr", "").splitlines() if "error" in l), v["detail"])
                        with open(path, "w") as f:
                            f.write("# engine=P prop=C09\n# compiler=%s std=%s\n# failing check: generated program does not compile: %s\n# seed=%d salt=%d\n" % (
                                tu["tc"].compiler, tu["tc"].std, G_one_line(first), self.seed, self.salt))
                            f.write("/* compiler output (head):\n%s\n*/\n" % "\n".join(v.get("cerr", "").splitlines()[:60]).replace("*/", "* /"))
                            f.write(src)
                        self.compile_errors.append((path, v["detail"]))
                        self.violations.append((path, "%s  [%s %s]  does not compile: %s" % (G.render(s), tu["tc"].compiler, tu["tc"].std, G_one_line(first)[:300])))
        self.labels["functions_not_compiling"] += n

    # ----- main
    def run(self):
        t0 = time.time()
        tus = self.plan()
        for tu in tus:
            self.draw(tu)
        t_draw = time.time() - t0

        def job(tu):
            tu["src"] = self.check_tu(tu["fns"], tu["tc"], "tu%03d" % tu["idx"])
            return tu
        with ThreadPoolExecutor(max_workers=PAR) as ex:
            list(ex.map(job, tus))
        t_check = time.time() - t0 - t_draw
        for tu in tus:
            self.account(tu)
        self.handle_failures(tus)
        self.handle_compile_errors(tus)
        self.wall = time.time() - t0
        if not self.a.quiet:
            log("engine P: %d TUs, %d functions, %d distinct non-trivial; draw %.1fs, compile+run %.1fs, total %.1fs" % (
                len(tus), self.evaluations, len(self.hashes), t_draw, t_check, self.wall))
        self.write_json()
        if self.violations:
            for p, m in self.violations:
                log("VIOLATION property=C09 replay=%s\n  %s" % (p, m))
            return 1
        return 0

    def write_json(self):
        out = self.a.out
        if not out:
            return
        doc = {
            "evaluations": self.evaluations,
            "distinct_nontrivial": len(self.hashes),
            "exhaustive": False,
            "rule": RULE,
            "labels": dict(sorted(self.labels.items())),
            "samples": self.samples,
            "assumptions": ASSUMPTIONS,
            "violations": [{"replay": p, "message": m} for p, m in self.violations],
            "known_findings": [],
            "x_p_compile_errors": [{"source": p, "message": m} for p, m in self.compile_errors],
            "x_p_notes": self.notes,
            "x_p_tu_secs": {k: v for k, v in sorted(self.tu_secs.items()) if k.startswith("tu")},
            "x_p_repo": REPO,
        }
        tmp = out + ".tmp"
        with open(tmp, "w") as f:
            json.dump(doc, f, indent=1)
        os.replace(tmp, out)
        with open(out + ".hashes", "wb") as f:
            array.array("Q", sorted(self.hashes)).tofile(f)

    def cleanup(self):
        shutil.rmtree(self.scratch, ignore_errors=True)


def first_error(text):
    for l in text.splitlines():
        if "error" in l:
            return l.strip()[:300]
    return (text.strip().splitlines() or ["compile error"])[0][:300]


def G_one_line(s):
    return re.sub(r"\s+", " ", s)[:600]


_support_cache = []


def inline_support():
    """p_support.hpp pasted into replay files so that they are self-contained."""
    if not _support_cache:
        with open(os.path.join(HERE, "p_support.hpp")) as f:
            txt = f.read().replace("#pragma once\n", "")
        _support_cache.append("// ---- begin p_support.hpp (inlined)\n" + txt + "// ---- end p_support.hpp")
    return _support_cache[0]


# --------------------------------------------------------------------------- replay
def replay(a):
    path = a.replay
    head, body = {}, []
    with open(path) as f:
        lines = f.read().split("\n")
    i = 0
    while i < len(lines) and lines[i].startswith("# "):
        for m in re.finditer(r"(\w+)=(\S+)", lines[i]):
            head.setdefault(m.group(1), m.group(2))
        if lines[i].startswith("# failing check:"):
            head["check"] = lines[i][len("# failing check:"):].strip()
        i += 1
    body = "\n".join(lines[i:])
    compiler, std = head.get("compiler", "clang++"), head.get("std", "c++17")
    if shutil.which(compiler) is None:
        log("harness error: compiler %s not found" % compiler)
        return 2
    faildir = os.path.abspath(a.faildir or tempfile.gettempdir())
    os.makedirs(faildir, exist_ok=True)
    work = tempfile.mkdtemp(prefix="p_replay.", dir=faildir)
    try:
        salt = int(head.get("salt", "0"))
        r = build_and_run(body, Toolchain(compiler, std), work, "replay", salt)
    finally:
        shutil.rmtree(work, ignore_errors=True)
    verbose = a.verbose or not a.quiet
    if not r["compiled"]:
        log("replay %s: the recorded program no longer compiles with %s -std=%s against %s" % (path, compiler, std, REPO))
        if verbose:
            log("\n".join(r["cerr"].splitlines()[:40]))
        return 1
    fails = [l for l in r["out"].splitlines() if re.match(r"^F \d+ \S+ FAIL", l)]
    done = any(l.startswith("DONE") for l in r["out"].splitlines())
    bad = bool(fails) or not done or r["rc"] not in (0, 1)
    if verbose:
        log("replay %s  [%s -std=%s, include %s]" % (path, compiler, std, REPO))
        log("recorded failing check: %s" % head.get("check", "?"))
        for l in fails[:40]:
            log("  " + l)
        if not done or r["rc"] not in (0, 1):
            log("  abnormal termination rc=%s %s" % (r["rc"], sanitizer_summary(r["out"])))
        log("result: %s" % ("still FAILS" if bad else "passes"))
    elif bad:
        log((fails[0] if fails else "abnormal termination rc=%s %s" % (r["rc"], sanitizer_summary(r["out"])))[:300])
    return 1 if bad else 0


def main(argv):
    ap = argparse.ArgumentParser()
    ap.add_argument("--prop", default="C09")
    ap.add_argument("--tier", default="quick", choices=["quick", "thorough"])
    ap.add_argument("--seed", default="1")
    ap.add_argument("--out", default="")
    ap.add_argument("--faildir", default="")
    ap.add_argument("--replay")
    ap.add_argument("--quiet", action="store_true")
    ap.add_argument("--verbose", action="store_true")
    a = ap.parse_args(argv)
    if a.prop != "C09":
        log("engine P only decides C09")
        return 2
    if not os.path.isfile(os.path.join(REPO, "include", "trompeloeil.hpp")):
        log("harness error: %s/include/trompeloeil.hpp not found" % REPO)
        return 2
    if a.replay:
        return replay(a)
    if not a.faildir:
        a.faildir = tempfile.mkdtemp(prefix="p_engine.")
    try:
        a.seed = int(a.seed)
    except ValueError:
        a.seed = 1
    eng = Engine(a)
    try:
        return eng.run()
    finally:
        eng.cleanup()


if __name__ == "__main__":
    try:
        rc = main(sys.argv[1:])
    except SystemExit:
        raise
    except BaseException:
        import traceback
        traceback.print_exc()
        rc = 2
    sys.exit(rc)

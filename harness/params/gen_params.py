"""Engine P (C09): generator of parameter-passing programs.

A *function spec* (plain dict, JSON-serialisable) is drawn by the Hypothesis strategy
fn_spec(); emit_tu() renders a list of specs into one self-contained C++ translation unit
whose drivers contain the C09 oracle (see DESIGN.md 5/C09 and p_support.hpp).

Soundness rules built into the generator (every emitted program is legal per
docs/reference.md, so a TU that does not compile is a harness error or a finding):
  * caller objects are never named inside plain (copy-capturing) clauses; plain clauses use
    raw pointers q<k>/r<k> taken before the expectation is created (a named Tr would be
    copied into the lambda and its address would be the copy's; a named unique_ptr would not
    compile).  LR_ clauses name the caller objects directly.
  * by-value move-only arguments and every && argument are passed with std::move; WITH on a
    move-only parameter only reads through it (get(), operator*).
  * by-value Tr arguments are passed as lvalue (copy) or xvalue (move), never as prvalue, so
    "exactly one construction creates the parameter" holds at every language level.
  * overloaded functions with an overload of the same arity use ANY(type) in every position;
    const/non-const twins place the expectation on a const / non-const object.
  * IMPLEMENT_MOCKn is only used on non-overloaded interface functions.
  * one MAKE_MOCK / IMPLEMENT_MOCK / REQUIRE_CALL per source line.
"""
import json

from hypothesis import strategies as st

# ---------------------------------------------------------------------------- passing modes
# name -> (C++ parameter type, underlying family)
MODES = {
    "int": ("int", "int"),
    "int&": ("int&", "int"),
    "intc&": ("int const&", "int"),
    "int&&": ("int&&", "int"),
    "int*": ("int*", "ptr"),
    "Tr": ("ps::Tr", "tr"),
    "Tr&": ("ps::Tr&", "tr"),
    "Trc&": ("ps::Tr const&", "tr"),
    "Tr&&": ("ps::Tr&&", "tr"),
    "UP": ("std::unique_ptr<int>", "up"),
    "UP&&": ("std::unique_ptr<int>&&", "up"),
    # a parameter whose own type is a reference wrapper: _k is the wrapper object, not what it refers to
    "RW": ("std::reference_wrapper<int>", "rw"),
    "RW&": ("std::reference_wrapper<int>&", "rw"),
}
MODE_NAMES = list(MODES)
LVREF = ("int&", "intc&", "Tr&", "Trc&")            # RETURN(_k) from a T&-returning function
ADDR = ("int&", "intc&", "int&&", "Tr&", "Trc&", "Tr&&", "UP&&", "RW&")   # &_k must be the caller's object
BYVAL = ("int", "Tr", "UP", "RW")
WRITABLE = ("int", "int&", "int&&", "int*", "Tr", "Tr&", "Tr&&", "RW", "RW&")
STEALABLE = ("Tr&&", "UP", "UP&&")
REF_RET_TYPE = {"int&": "int&", "intc&": "int const&", "Tr&": "ps::Tr&", "Trc&": "ps::Tr const&"}
DECOY_T = "ps::Other const&"


def ctype(mode):
    return MODES[mode][0]


def family(mode):
    return MODES[mode][1]


# ---------------------------------------------------------------------------- strategy
@st.composite
def _param(draw):
    mode = draw(st.sampled_from(MODE_NAMES))
    return {
        "mode": mode,
        "arg": draw(st.sampled_from(["_", "ANY", "val"])),   # expectation argument for this position
        "write": draw(st.booleans()),                          # SIDE_EFFECT writes through / into _k
        "steal": draw(st.booleans()),                          # SIDE_EFFECT moves out of _k (&&, move-only)
        "move": draw(st.booleans()),                           # by-value Tr: created by move instead of copy
    }


@st.composite
def fn_spec(draw, arity=None, lo=0, hi=15, fixed=None):
    """fixed = (const, kind, decl): the declaration spelling is given, not drawn (one entry of the macro table)"""
    if arity is not None:
        lo = hi = arity
    # arity is drawn explicitly (uniform over lo..hi); a plain st.lists() would make long lists rare
    n = draw(st.integers(lo, hi))
    params = draw(st.lists(_param(), min_size=n, max_size=n))
    modes = [p["mode"] for p in params]
    spec = {"params": params}
    spec["const"] = draw(st.booleans())
    kind = draw(st.sampled_from(["plain", "overload", "iface"]))
    if fixed is not None:
        spec["const"], kind = fixed[0], fixed[1]
    spec["kind"] = kind
    if kind == "iface":
        spec["decl"] = draw(st.sampled_from(["implement", "override"]))
    else:
        spec["decl"] = draw(st.sampled_from(["n", "auto"]))
    if fixed is not None:
        spec["decl"] = fixed[2]
    if kind == "overload":
        choices = ["const"]
        if n < 15:
            choices.append("arity+1")
        if n > 0:
            choices += ["arity-1", "type"]
        spec["ovl"] = draw(st.sampled_from(choices))
        spec["ovl_pos"] = draw(st.integers(1, n)) if spec["ovl"] == "type" else 0
        spec["ovl_first"] = draw(st.booleans())     # decoy declared before the driven overload
    # expectation on / call through a const object (always for a const twin)
    spec["via_const"] = draw(st.booleans()) if spec["const"] else False
    # return kind
    refs = [i + 1 for i, m in enumerate(modes) if m in LVREF]
    rets = ["void", "int"] + (["ref"] if refs else [])
    spec["ret"] = draw(st.sampled_from(rets))
    spec["ret_k"] = draw(st.sampled_from(refs)) if spec["ret"] == "ref" else 0
    terms = ["throw"] + (["none"] if spec["ret"] == "void" else ["return", "return"])
    spec["term"] = draw(st.sampled_from(terms))
    # clause flavours (False = plain copy-capturing macro, True = LR_ macro) and capture checks
    spec["w_lr"] = draw(st.booleans())
    spec["w_cap"] = draw(st.sampled_from(["none", "rec", "direct"]))
    intpos = [i + 1 for i, m in enumerate(modes) if family(m) == "int"]
    if spec["w_cap"] == "direct" and not intpos:
        spec["w_cap"] = "rec"
    spec["w_cap_k"] = draw(st.sampled_from(intpos)) if spec["w_cap"] == "direct" else 0
    spec["s1_lr"] = draw(st.booleans())
    spec["s1_cap"] = draw(st.booleans())
    spec["s2"] = draw(st.booleans())
    spec["s2_lr"] = draw(st.booleans())
    spec["s2_cap"] = draw(st.booleans())
    spec["t_lr"] = draw(st.booleans())
    # value produced by RETURN (int functions) / THROW: a constant, a captured local, a parameter
    tv = ["const", "cap"] + (["param"] if n else [])
    spec["t_val"] = draw(st.sampled_from(tv))
    spec["t_val_k"] = draw(st.integers(1, n)) if spec["t_val"] == "param" else 0
    spec["bare_ref"] = draw(st.booleans())     # T& functions: bare RETURN(_k) without checks in the clause
    return spec


@st.composite
def tu_spec(draw, forced=(), lo=6, hi=10):
    """One translation unit: the functions with deterministically forced arities first, then free ones
    (lo..hi functions in total)."""
    fns = [draw(fn_spec(arity=a[0], fixed=a[1:])) if isinstance(a, tuple) else draw(fn_spec(arity=a)) for a in forced]
    k = len(fns)
    fns += draw(st.lists(fn_spec(), min_size=max(0, lo - k), max_size=max(0, hi - k)))
    return fns


# ---------------------------------------------------------------------------- derived facts
def modes_of(spec):
    return [p["mode"] for p in spec["params"]]


def kind_label(spec):
    k = spec["kind"]
    if k == "overload":
        k += ":" + spec["ovl"]
    if k == "iface":
        k += ":" + spec["decl"]
    return ("const " if spec["const"] else "") + k


def nontrivial_key(spec):
    """(arity, mode vector, const/overload/interface kind, return kind)"""
    return "%d|%s|%s|%s" % (len(spec["params"]), ",".join(modes_of(spec)), kind_label(spec),
                            spec["ret"] + (str(spec["ret_k"]) if spec["ret"] == "ref" else ""))


def is_nontrivial(spec):
    m = modes_of(spec)
    return len(m) >= 2 and len(set(m)) >= 2


def canon(spec):
    return json.dumps(spec, sort_keys=True, separators=(",", ":"))


def ret_type(spec):
    if spec["ret"] == "void":
        return "void"
    if spec["ret"] == "int":
        return "int"
    return REF_RET_TYPE[modes_of(spec)[spec["ret_k"] - 1]]


def render(spec, name="f"):
    s = "%s %s(%s)%s" % (ret_type(spec), name, ", ".join(ctype(m) for m in modes_of(spec)), " const" if spec["const"] else "")
    extra = [spec["kind"] + ("/" + spec.get("ovl", "") if spec["kind"] == "overload" else "") + "/" + spec["decl"],
             "term=" + spec["term"] + ("(LR)" if spec["t_lr"] else ""),
             "WITH=" + ("LR" if spec["w_lr"] else "plain") + "/cap:" + spec["w_cap"],
             "SE=" + ("LR" if spec["s1_lr"] else "plain") + ("+cap" if spec["s1_cap"] else "")
             + ("," + ("LR" if spec["s2_lr"] else "plain") + ("+cap" if spec["s2_cap"] else "") if spec["s2"] else "")]
    if spec["ret"] == "ref":
        extra.append("RETURN(_%d)" % spec["ret_k"])
    return s + "  [" + " ".join(extra) + "]"


def cost(spec):
    """rough compile cost used to balance TUs"""
    return 3 + len(spec["params"]) * (2 + (1 if spec["s2"] else 0))


# ---------------------------------------------------------------------------- emission
def _sig(ret, types):
    return "%s(%s)" % (ret, ", ".join(types))


def _decl_lines(spec, name, std="c++17"):
    """Lines for the mock class / the interface.  Returns (iface_lines, mi_lines, m_lines).
    docs/reference.md (MAKE_MOCK): the arity-deducing macros handle nullary functions only from C++20 on
    (or with TROMPELOEIL_HAS_GCC_PP and -std=gnu++NN); below that a nullary function uses MAKE_MOCK0."""
    types = [ctype(m) for m in modes_of(spec)]
    n = len(types)
    rt = ret_type(spec)
    c = spec["const"]
    if spec["kind"] == "iface":
        iface = ["  virtual %s %s(%s)%s = 0;" % (rt, name, ", ".join(types), " const" if c else "")]
        if spec["decl"] == "implement":
            mi = ["  IMPLEMENT_%sMOCK%d(%s);" % ("CONST_" if c else "", n, name)]
        else:
            mi = ["  MAKE_%sMOCK%d(%s, %s, override);" % ("CONST_" if c else "", n, name, _sig(rt, types))]
        return iface, mi, []

    def mk(const, ret, tys):
        if spec["decl"] == "auto" and (tys or std not in ("c++11", "c++14", "c++17")):
            return "  MAKE_%sMOCK(%s, auto (%s) -> %s);" % ("CONST_" if const else "", name, ", ".join(tys), ret)
        return "  MAKE_%sMOCK%d(%s, %s);" % ("CONST_" if const else "", len(tys), name, _sig(ret, tys))

    lines = [mk(c, rt, types)]
    if spec["kind"] == "overload":
        o = spec["ovl"]
        if o == "const":
            decoy = mk(not c, "void", types)
        elif o == "arity+1":
            decoy = mk(c, "void", types + [DECOY_T])
        elif o == "arity-1":
            decoy = mk(c, "void", types[:-1])
        else:
            t2 = list(types)
            t2[spec["ovl_pos"] - 1] = DECOY_T
            decoy = mk(c, "void", t2)
        lines = [decoy] + lines if spec["ovl_first"] else lines + [decoy]
    return [], [], lines


def _tag(k):
    return "B0 + %d" % k


def _wval(k):
    return "B0 + %d" % (50 + k)


def _value_expr(mode, k):
    f = family(mode)
    if f == "int":
        return "_%d" % k
    if f == "ptr":
        return "*_%d" % k
    if f == "tr":
        return "_%d.tag" % k
    if f == "rw":
        return "_%d.get()" % k
    return "*_%d" % k


class _Fn:
    """Emission state of one function: which positions are written / stolen, expected ids."""

    def __init__(self, spec, idx, name):
        self.s, self.idx, self.name = spec, idx, name
        self.modes = modes_of(spec)
        self.n = len(self.modes)
        self.ids = []
        P = spec["params"]
        self.will_write = {k + 1 for k, p in enumerate(P) if p["write"] and p["mode"] in WRITABLE and not (p["steal"] and p["mode"] in STEALABLE)}
        self.will_steal = {k + 1 for k, p in enumerate(P) if p["steal"] and p["mode"] in STEALABLE}
        self.nc = sum(1 for p in P if p["mode"] == "Tr" and not p["move"])
        self.nm = sum(1 for p in P if p["mode"] == "Tr" and p["move"])
        self.steal_tr = sum(1 for k in self.will_steal if self.modes[k - 1] == "Tr&&")

    def id(self, s):
        self.ids.append(s)
        return '"%s"' % s

    # expected int value of position k in a context
    def val(self, k, after):
        if after and k in self.will_write:
            return _wval(k)
        return _tag(k)

    def checks(self, ctx, lr, after):
        """Oracle expressions for one clause context.  after = the writes/steals of S1 have happened."""
        out = []
        for k, m in enumerate(self.modes, 1):
            q = ("&a%d" % k) if lr else ("q%d" % k)
            stolen = after and k in self.will_steal
            if m in ADDR:
                out.append("ps::same(%s, &_%d, %s)" % (self.id("%s.a%d" % (ctx, k)), k, q))
            elif m == "int*":
                out.append("ps::same(%s, _%d, %s)" % (self.id("%s.a%d" % (ctx, k)), k, q))
            else:   # by value: one parameter object, distinct from the caller's, the same in every clause
                if ctx == "W":
                    out.append("ps::keep(%d, &_%d)" % (k, k))
                    out.append("ps::chk(%s, static_cast<void const*>(&_%d) != static_cast<void const*>(%s))" % (self.id("W.d%d" % k), k, q))
                else:
                    out.append("ps::same(%s, &_%d, ps::kept(%d))" % (self.id("%s.o%d" % (ctx, k)), k, k))
            if family(m) == "up":
                if stolen:
                    out.append("ps::chk(%s, !_%d)" % (self.id("%s.n%d" % (ctx, k)), k))
                else:
                    out.append("ps::same(%s, _%d.get(), r%d)" % (self.id("%s.p%d" % (ctx, k)), k, k))
                    out.append("ps::eq(%s, *_%d, %s)" % (self.id("%s.v%d" % (ctx, k)), k, _tag(k)))
            elif stolen:    # Tr&& moved from
                out.append("ps::eq(%s, _%d.tag, ps::MOVED)" % (self.id("%s.v%d" % (ctx, k)), k))
            else:
                out.append("ps::eq(%s, %s, %s)" % (self.id("%s.v%d" % (ctx, k)), _value_expr(m, k), self.val(k, after)))
        out.append("ps::cm(%s, %d, %d)" % (self.id(ctx + ".cm"), self.nc, self.nm))
        out.append("ps::as(%s, 0, %d)" % (self.id(ctx + ".as"), self.steal_tr if after else 0))
        return out

    def mutations(self):
        out = []
        for k, m in enumerate(self.modes, 1):
            if k in self.will_steal:
                if m == "Tr&&":
                    out.append("ps::sink_tr(%d) = std::move(_%d)" % (k, k))
                else:
                    out.append("ps::sink_up(%d) = std::move(_%d)" % (k, k))
            elif k in self.will_write:
                f = family(m)
                if f == "int":
                    out.append("_%d = %s" % (k, _wval(k)))
                elif f == "ptr":
                    out.append("*_%d = %s" % (k, _wval(k)))
                elif f == "rw":     # through the wrapper: the caller's integer changes, the wrapper is not re-seated
                    out.append("_%d.get() = %s" % (k, _wval(k)))
                else:
                    out.append("_%d.tag = %s" % (k, _wval(k)))
        return out

    def post(self):
        out = []
        for k, m in enumerate(self.modes, 1):
            pid = self.id("P.%d" % k)
            w = k in self.will_write
            stolen = k in self.will_steal
            p = self.s["params"][k - 1]
            if m == "int":
                out.append("ps::eq(%s, a%d, %s);" % (pid, k, _tag(k)))
            elif m in ("int&", "int&&", "int*"):
                out.append("ps::eq(%s, a%d, %s);" % (pid, k, _wval(k) if w else _tag(k)))
            elif m == "intc&":
                out.append("ps::eq(%s, a%d, %s);" % (pid, k, _tag(k)))
            elif m == "Tr":
                out.append("ps::eq(%s, a%d.tag, %s);" % (pid, k, "ps::MOVED" if p["move"] else _tag(k)))
            elif m == "Tr&":
                out.append("ps::eq(%s, a%d.tag, %s);" % (pid, k, _wval(k) if w else _tag(k)))
            elif m == "Trc&":
                out.append("ps::eq(%s, a%d.tag, %s);" % (pid, k, _tag(k)))
            elif m == "Tr&&":
                if stolen:
                    out.append("ps::eq(%s, a%d.tag, ps::MOVED);" % (pid, k))
                    out.append("ps::eq(%s, ps::sink_tr(%d).tag, %s);" % (self.id("P.s%d" % k), k, _tag(k)))
                else:
                    out.append("ps::eq(%s, a%d.tag, %s);" % (pid, k, _wval(k) if w else _tag(k)))
            elif family(m) == "rw":
                out.append("ps::eq(%s, b%d, %s);" % (pid, k, _wval(k) if w else _tag(k)))
                out.append("ps::same(%s, &a%d.get(), &b%d);" % (self.id("P.w%d" % k), k, k))
            elif m == "UP":
                out.append("ps::chk(%s, !a%d);" % (pid, k))
                if stolen:
                    out.append("ps::same(%s, ps::sink_up(%d).get(), r%d);" % (self.id("P.s%d" % k), k, k))
            elif m == "UP&&":
                if stolen:
                    out.append("ps::chk(%s, !a%d);" % (pid, k))
                    out.append("ps::same(%s, ps::sink_up(%d).get(), r%d);" % (self.id("P.s%d" % k), k, k))
                else:
                    out.append("ps::same(%s, a%d.get(), r%d);" % (pid, k, k))
                    out.append("ps::eq(%s, a%d ? *a%d : -1, %s);" % (self.id("P.v%d" % k), k, k, _tag(k)))
        out.append("ps::cm(%s, %d, %d);" % (self.id("P.cm"), self.nc, self.nm))
        out.append("ps::as(%s, 0, %d);" % (self.id("P.as"), self.steal_tr))
        return out


def _wrap(items, indent, sep):
    """join long expression lists over several lines (inside one macro invocation)"""
    pad = "\n" + " " * indent
    return (sep + pad).join(items)


def emit_driver(spec, idx, name):
    """C++ text of drive_<idx>() and the list of expected check ids."""
    F = _Fn(spec, idx, name)
    s = spec
    n = F.n
    L = []
    A = L.append
    A("// %s" % render(spec, name))
    A("void drive_%d() {" % idx)
    A("  ps::begin(%d);" % idx)
    A("  try {")
    A("    const int B0 = ps::salt() + %d;" % (idx * 100))
    mock_t = "MI" if s["kind"] == "iface" else "M"
    A("    %s m;" % mock_t)
    A("    %s const& mc = m; (void)mc;" % mock_t)
    if s["kind"] == "iface":
        A("    I& ci = m; I const& cic = m; (void)ci; (void)cic;")
    # caller objects
    for k, m in enumerate(F.modes, 1):
        f = family(m)
        if f in ("int", "ptr"):
            A("    int a%d = %s; int* const q%d = &a%d; (void)q%d;" % (k, _tag(k), k, k, k))
        elif f == "tr":
            A("    ps::Tr a%d(%s); ps::Tr* const q%d = &a%d; (void)q%d;" % (k, _tag(k), k, k, k))
        elif f == "rw":
            A("    int b%d = %s; std::reference_wrapper<int> a%d(b%d); std::reference_wrapper<int>* const q%d = &a%d; (void)q%d;" % (k, _tag(k), k, k, k, k, k))
        else:
            A("    ps::UP a%d(new int(%s)); int* const r%d = a%d.get(); ps::UP* const q%d = &a%d; (void)q%d; (void)r%d;" % (k, _tag(k), k, k, k, k, k, k))
    # capture locals: value at expectation creation -> value at the call
    CA = {"w": 71, "s1": 72, "s2": 73, "t": 74}

    def cap_init(tag):
        return "B0 + %d" % CA[tag]

    def cap_late(tag):
        return "B0 + %d" % (CA[tag] + 10)

    def rd(var, lr):
        """how the clause reads the captured local: a plain clause's copy is immutable (docs/reference.md), so std::move of it
        is a const rvalue and ps::seen() takes its read-only overload; a copy the clause could modify would take the other"""
        return var if lr else "ps::seen(std::move(%s))" % var

    late = []
    # WITH capture
    if s["w_cap"] == "rec":
        A("    int lw = %s;" % cap_init("w"))
        late.append("lw = %s;" % cap_late("w"))
    elif s["w_cap"] == "direct":
        k = s["w_cap_k"]
        if s["w_lr"]:   # LR_WITH(_k == lw): must see the value assigned after the expectation was created
            A("    int lw = %s;" % cap_init("w"))
            late.append("lw = %s;" % _tag(k))
        else:           # WITH(_k == lw): must keep the value it had when the expectation was created
            A("    int lw = %s;" % _tag(k))
            late.append("lw = %s;" % cap_late("w"))
    if s["s1_cap"]:
        A("    int ls1 = %s;" % cap_init("s1"))
        late.append("ls1 = %s;" % cap_late("s1"))
    if s["s2"] and s["s2_cap"]:
        A("    int ls2 = %s;" % cap_init("s2"))
        late.append("ls2 = %s;" % cap_late("s2"))
    term = s["term"]
    t_cap = term != "none" and s["t_val"] == "cap" and not (term == "return" and s["ret"] == "ref")
    if t_cap:
        A("    int lt = %s;" % cap_init("t"))
        late.append("lt = %s;" % cap_late("t"))

    # expectation arguments
    same_arity_decoy = s["kind"] == "overload" and s["ovl"] == "type"
    args = []
    for k, p in enumerate(s["params"], 1):
        m = p["mode"]
        a = p["arg"]
        if same_arity_decoy:
            a = "ANY"
        if a == "val" and m == "int&":
            # a non-const lvalue reference parameter needs an lvalue in the expectation (its value is copied)
            A("    int ev%d = %s;" % (k, _tag(k)))
            args.append("ev%d" % k)
        elif a == "val" and family(m) == "int":
            args.append("(%s)" % _tag(k))
        elif a == "val" and m == "int*":
            args.append("q%d" % k)
        elif a == "ANY":
            args.append("ANY(%s)" % ctype(m))
        else:
            args.append("_")
    use_const_obj = s["const"] and (s["via_const"] or (s["kind"] == "overload" and s["ovl"] == "const"))
    obj = "mc" if use_const_obj else "m"

    # clauses
    cl = []
    if s["w_cap"] == "direct":
        cl.append(".%sWITH(_%d == lw)" % ("LR_" if s["w_lr"] else "", s["w_cap_k"]))
    w = F.checks("W", s["w_lr"], False)
    if s["w_cap"] == "rec":
        w.append("ps::eq(%s, %s, %s)" % (F.id("W.cap"), rd("lw", s["w_lr"]), cap_late("w") if s["w_lr"] else cap_init("w")))
    cl.append(".%sWITH(%s)" % ("LR_" if s["w_lr"] else "", _wrap(w, 16, " &&")))
    s1 = F.checks("S1", s["s1_lr"], False)
    if s["s1_cap"]:
        s1.append("ps::eq(%s, %s, %s)" % (F.id("S1.cap"), rd("ls1", s["s1_lr"]), cap_late("s1") if s["s1_lr"] else cap_init("s1")))
    s1 += F.mutations()
    cl.append(".%sSIDE_EFFECT(%s)" % ("LR_" if s["s1_lr"] else "", _wrap(s1, 16, ";")))
    if s["s2"]:
        s2 = F.checks("S2", s["s2_lr"], True)
        if s["s2_cap"]:
            s2.append("ps::eq(%s, %s, %s)" % (F.id("S2.cap"), rd("ls2", s["s2_lr"]), cap_late("s2") if s["s2_lr"] else cap_init("s2")))
        cl.append(".%sSIDE_EFFECT(%s)" % ("LR_" if s["s2_lr"] else "", _wrap(s2, 16, ";")))
    # terminal
    want_val = None
    if term != "none":
        ctx = "R" if term == "return" else "T"
        tlr = s["t_lr"]
        if term == "return" and s["ret"] == "ref":
            k = s["ret_k"]
            if s["bare_ref"]:
                cl.append(".%sRETURN(_%d)" % ("LR_" if tlr else "", k))
            else:
                t = F.checks(ctx, tlr, True)
                cl.append(".%sRETURN((%s,\n                _%d))" % ("LR_" if tlr else "", _wrap(t, 16, ","), k))
        else:
            if t_cap:
                vexpr = rd("lt", tlr)
                want_val = cap_late("t") if tlr else cap_init("t")
            elif s["t_val"] == "param" and s["t_val_k"] and not (s["t_val_k"] in F.will_steal):
                k = s["t_val_k"]
                vexpr = _value_expr(F.modes[k - 1], k)
                if family(F.modes[k - 1]) == "up":
                    want_val = _tag(k)
                else:
                    want_val = F.val(k, True)
                if term == "throw":
                    vexpr = "static_cast<int>(%s)" % vexpr
            else:
                vexpr = "B0 + 90"
                want_val = "B0 + 90"
            t = F.checks(ctx, tlr, True)
            macro = "RETURN" if term == "return" else "THROW"
            cl.append(".%s%s((%s,\n                %s))" % ("LR_" if tlr else "", macro, _wrap(t, 16, ","), vexpr))

    A("    {")
    A("      REQUIRE_CALL(%s, %s(%s))" % (obj, name, ", ".join(args)))
    for i, c in enumerate(cl):
        A("        " + c + (";" if i == len(cl) - 1 else ""))
    for l in late:
        A("      " + l)
    # the call
    cargs = []
    for k, p in enumerate(s["params"], 1):
        m = p["mode"]
        if m in ("int&&", "Tr&&", "UP", "UP&&") or (m == "Tr" and p["move"]):
            cargs.append("std::move(a%d)" % k)
        elif m == "int*":
            cargs.append("&a%d" % k)
        else:
            cargs.append("a%d" % k)
    if s["kind"] == "iface":
        target = "cic" if use_const_obj else "ci"
    else:
        target = "mc" if use_const_obj else "m"
    call = "%s.%s(%s)" % (target, name, ", ".join(cargs))
    A("      ps::arm();")
    if term == "throw":
        A("      try {")
        A("        %s;" % call)
        A("        ps::chk(%s, false);" % F.id("C.thrown"))
        A("      } catch (int thrown) {")
        A("        ps::chk(%s, true);" % '"C.thrown"')
        A("        ps::eq(%s, thrown, %s);" % (F.id("C.tval"), want_val))
        A("      }")
    elif s["ret"] == "void":
        A("      %s;" % call)
    elif s["ret"] == "int":
        A("      int got = %s;" % call)
        A("      ps::eq(%s, got, %s);" % (F.id("C.ret"), want_val))
    else:
        A("      auto&& got = %s;" % call)
        A("      ps::same(%s, &got, &a%d);" % (F.id("C.raddr"), s["ret_k"]))
    A("      ps::chk(%s, true);" % F.id("C.done"))
    A("    }")
    for l in F.post():
        A("    " + l)
    A("  } catch (ps::fatal_report const& e) {")
    A('    ps::unexpected("X.fatal", std::string("fatal report: ") + e.what());')
    A("  } catch (std::exception const& e) {")
    A('    ps::unexpected("X.exception", std::string("exception: ") + e.what());')
    A("  } catch (...) {")
    A('    ps::unexpected("X.exception", "unknown exception");')
    A("  }")
    ids = []
    for i in F.ids:
        if i not in ids:
            ids.append(i)
    # ids are split over adjacent string literals to keep lines short
    chunks = [" ".join(ids[i:i + 12]) for i in range(0, len(ids), 12)] or [""]
    A("  ps::end(%d," % idx)
    for i, c in enumerate(chunks):
        A('          "%s%s"%s' % (c, " " if i < len(chunks) - 1 else "", ");" if i == len(chunks) - 1 else ""))
    A("}")
    return "\n".join(L), ids


def emit_tu(specs, title="", support_include='#include "p_support.hpp"', std="c++17"):
    """Render a list of function specs into one translation unit.  Returns (source, [ids per function])."""
    names = ["f%d" % i for i in range(len(specs))]
    iface, mi, mm = [], [], []
    for i, s in enumerate(specs):
        a, b, c = _decl_lines(s, names[i], std)
        iface += a
        mi += b
        mm += c
    out = []
    A = out.append
    A("// engine P (C09) generated translation unit%s" % ((": " + title) if title else ""))
    A("// %d mock function(s); oracle is inside the expectation clauses and the drivers." % len(specs))
    A(support_include)
    A("using trompeloeil::_;")
    A("namespace {")
    if iface:
        A("struct I {")
        A("  virtual ~I() = default;")
        out += iface
        A("};")
        A("struct MI : trompeloeil::mock_interface<I> {")
        out += mi
        A("};")
    if mm:
        A("struct M {")
        out += mm
        A("};")
    all_ids = []
    for i, s in enumerate(specs):
        txt, ids = emit_driver(s, i, names[i])
        A(txt)
        all_ids.append(ids)
    A("}  // namespace")
    A("int main(int argc, char** argv) {")
    A("  ps::init(argc, argv);")
    for i in range(len(specs)):
        A("  drive_%d();" % i)
    A("  return ps::finish();")
    A("}")
    return "\n".join(out) + "\n", all_ids

// Engine P (C09) run-time support for generated parameter-passing programs.
//
//  * ps::Tr        copy/move-counting value type with a tag; a moved-from Tr carries ps::MOVED
//  * reporter      conforming: throws ps::fatal_report on severity::fatal, records (never throws)
//                  on severity::nonfatal
//  * recorder      every oracle check prints one line "F <function> <check id> ok|FAIL <detail>";
//                  ps::end() additionally fails every check id that was expected but never
//                  executed (a clause that silently did not run must not look like a pass)
//
// Output protocol (stdout, flushed per line):
//   B <idx>                       driver of function <idx> starts
//   F <idx> <id> ok|FAIL <detail>
//   E <idx>                       driver finished (absence after B = abort inside that function)
//   DONE                          main returned normally
//
// Only documented trompeloeil entry points are used.  C++14 compatible (no inline variables).
#pragma once
#include <trompeloeil.hpp>

#include <cstdio>
#include <cstdlib>
#include <cstring>
#include <exception>
#include <functional>
#include <memory>
#include <set>
#include <sstream>
#include <string>
#include <utility>

namespace ps {
// Reading a local that a clause names. A plain (copying) clause holds immutable copies: std::move(copy) is a const rvalue
// and binds to the first overload. A clause that were able to modify its copy would bind to the second one, which answers
// with a value no check expects (and spoils the copy, so that a second evaluation shows it too).
inline int seen(int const&& v) { return v; }
inline int seen(int&& v) { int r = v; v = -7777; return r + 500000; }


constexpr int MOVED = -7;  // tag of a moved-from Tr

struct Counters {
  long copies = 0, moves = 0, cassign = 0, massign = 0, dtors = 0;
};
inline Counters& cnt() {
  static Counters c;
  return c;
}

// Copy/move-counting type.  Equality and printing are provided so that the library can print
// a Tr in a report without falling back to a hex dump.
struct Tr {
  int tag;
  explicit Tr(int t = 0) noexcept : tag(t) {}
  Tr(Tr const& o) noexcept : tag(o.tag) { ++cnt().copies; }
  Tr(Tr&& o) noexcept : tag(o.tag) {
    o.tag = MOVED;
    ++cnt().moves;
  }
  Tr& operator=(Tr const& o) noexcept {
    tag = o.tag;
    ++cnt().cassign;
    return *this;
  }
  Tr& operator=(Tr&& o) noexcept {
    tag = o.tag;
    o.tag = MOVED;
    ++cnt().massign;
    return *this;
  }
  ~Tr() { ++cnt().dtors; }
  friend bool operator==(Tr const& a, Tr const& b) noexcept { return a.tag == b.tag; }
  friend std::ostream& operator<<(std::ostream& o, Tr const& t) { return o << "Tr{" << t.tag << "}"; }
};

// A type none of the generated passing modes uses: parameter of decoy overloads.
struct Other {
  int x = 0;
};

using UP = std::unique_ptr<int>;

struct fatal_report : std::exception {
  std::string msg;
  explicit fatal_report(std::string m) : msg(std::move(m)) {}
  char const* what() const noexcept override { return msg.c_str(); }
};

struct State {
  int cur = -1;                 // function being driven
  int salt = 0;                 // run-time value offset (argv[1])
  long fails = 0;
  std::set<std::string> seen;   // check ids executed for the current function
  Tr sink_tr[16];               // where clauses move Tr&& parameters to (slot = position)
  UP sink_up[16];               // where clauses move unique_ptr parameters to
  void const* kept[16] = {};    // address of by-value parameter objects as first seen (WITH)
};
inline State& st() {
  static State s;
  return s;
}

inline int salt() { return st().salt; }
inline long copies() { return cnt().copies; }
inline long moves() { return cnt().moves; }
inline long cassigns() { return cnt().cassign; }
inline long massigns() { return cnt().massign; }
inline Tr& sink_tr(int k) { return st().sink_tr[k]; }
inline UP& sink_up(int k) { return st().sink_up[k]; }
inline bool keep(int k, void const* p) {
  st().kept[k] = p;
  return true;
}
inline void const* kept(int k) { return st().kept[k]; }

inline std::string one_line(std::string s) {
  for (auto& c : s)
    if (c == '\n' || c == '\r') c = '|';
  if (s.size() > 400) s.resize(400);
  return s;
}

inline bool line(char const* id, bool ok, std::string const& detail) {
  auto& s = st();
  s.seen.insert(id);
  if (ok) {
    std::printf("F %d %s ok\n", s.cur, id);
  } else {
    ++s.fails;
    std::printf("F %d %s FAIL %s\n", s.cur, id, one_line(detail).c_str());
  }
  std::fflush(stdout);
  return true;  // always true: usable as a WITH condition without influencing the match
}

// boolean check
inline bool chk(char const* id, bool ok) { return line(id, ok, "condition false"); }

// value equality (ints, tags)
inline bool eq(char const* id, long long got, long long want) {
  if (got == want) return line(id, true, "");
  std::ostringstream o;
  o << "got=" << got << " want=" << want;
  return line(id, false, o.str());
}
// address identity
inline bool same(char const* id, void const volatile* got, void const volatile* want) {
  if (got == want) return line(id, true, "");
  std::ostringstream o;
  o << "address got=" << const_cast<void const*>(got) << " want=" << const_cast<void const*>(want);
  return line(id, false, o.str());
}
// Tr copy/move constructions since arm(): exactly the ones that create by-value parameters
inline bool cm(char const* id, long want_copies, long want_moves) {
  auto& c = cnt();
  if (c.copies == want_copies && c.moves == want_moves) return line(id, true, "");
  std::ostringstream o;
  o << "Tr copies=" << c.copies << " (want " << want_copies << ") moves=" << c.moves << " (want " << want_moves << ")";
  return line(id, false, o.str());
}
// Tr assignments since arm(): only the ones the clauses themselves perform
inline bool as(char const* id, long want_cassign, long want_massign) {
  auto& c = cnt();
  if (c.cassign == want_cassign && c.massign == want_massign) return line(id, true, "");
  std::ostringstream o;
  o << "Tr copy-assign=" << c.cassign << " (want " << want_cassign << ") move-assign=" << c.massign << " (want " << want_massign << ")";
  return line(id, false, o.str());
}

// reset the counters: called immediately before the call expression
inline void arm() { cnt() = Counters{}; }

inline void begin(int idx) {
  auto& s = st();
  s.cur = idx;
  s.seen.clear();
  for (auto& u : s.sink_up) u.reset();
  for (auto& t : s.sink_tr) t.tag = 0;
  for (auto& p : s.kept) p = nullptr;
  cnt() = Counters{};
  std::printf("B %d\n", idx);
  std::fflush(stdout);
}

// expected: space separated check ids that must have been executed at least once
inline void end(int idx, char const* expected) {
  auto& s = st();
  std::istringstream is(expected);
  std::string id;
  while (is >> id)
    if (!s.seen.count(id)) line(id.c_str(), false, "check was never executed (clause did not run)");
  for (auto& u : s.sink_up) u.reset();
  std::printf("E %d\n", idx);
  std::fflush(stdout);
  s.cur = -1;
}

inline void unexpected(char const* id, std::string const& what) { line(id, false, what); }

inline void install_reporter() {
  trompeloeil::set_reporter([](trompeloeil::severity sev, char const* file, unsigned long ln, std::string const& msg) {
    std::ostringstream o;
    o << (file ? file : "?") << ":" << ln << " " << msg;
    if (sev == trompeloeil::severity::fatal) throw fatal_report(o.str());
    line("X.nonfatal", false, "non-fatal report: " + o.str());
  });
}

inline void init(int argc, char** argv) {
  st().salt = argc > 1 ? std::atoi(argv[1]) % 1000 * 1000 : 0;
  if (st().salt < 0) st().salt = -st().salt;
  install_reporter();
}

inline int finish() {
  std::printf("DONE fails=%ld\n", st().fails);
  std::fflush(stdout);
  return st().fails ? 1 : 0;
}

}  // namespace ps

#!/usr/bin/env python3
"""Writes the expectation sites of engine Q into q_main.cpp (between the GENERATED markers).

Each site is one source line: a SiteInfo initialiser (what the reference model needs to know) and the
expectation(s) with their clause list, both rendered from the same description, so they cannot drift.
Site ids are positions in SITES: append new sites at the end, replay files name sites by id.

usage: python3 gen_sites.py          (rewrites q_main.cpp in place)
"""
import os
import re

HERE = os.path.dirname(os.path.abspath(__file__))

# CO_THROW on a generator whose promise ends with return_void() did not compile before /repo commit
# 61f4efd (co_throw_handler_t co_returned the yield type). Set to False to build against a tree without
# that fix: those site slots then hold CO_RETURN() variants instead, so site ids do not move.
COTHROW_ON_RETURN_VOID_GEN = True

TYPES = {"ti": ("TY_TI", False), "tv": ("TY_TV", False), "gii": ("TY_GII", True), "giv": ("TY_GIV", True)}
TIMES = {  # name -> (clause, TK, lo, hi)
    "DEF": ("", "TK_STATIC", "1", "1"),
    "N2": (".TIMES(2)", "TK_STATIC", "2", "2"),
    "AL1": (".TIMES(AT_LEAST(1))", "TK_STATIC", "1", "INF"),
    "AM2": (".TIMES(AT_MOST(2))", "TK_STATIC", "0", "2"),
    "R13": (".TIMES(1, 3)", "TK_STATIC", "1", "3"),
    "RT": (".RT_TIMES(d.loA, d.hiA)", "TK_RT", "0", "0"),
    "RT1": (".RT_TIMES(d.hiA)", "TK_RT1", "0", "0"),
    "ALLOW": ("", "TK_STATIC", "0", "INF"),
}
MATCH = {
    "ANY": ("ANY(int)", "M_ANY"), "WILD": ("_", "M_WILD"), "VAL": ("d.mv", "M_VAL"),
    "EQ": ("trompeloeil::eq(d.mv)", "M_EQ"), "NE": ("trompeloeil::ne(d.mv)", "M_NE"),
    "GT": ("trompeloeil::gt(d.mv)", "M_GT"), "GE": ("trompeloeil::ge(d.mv)", "M_GE"),
    "LT": ("trompeloeil::lt(d.mv)", "M_LT"), "LE": ("trompeloeil::le(d.mv)", "M_LE"),
}


# reference-parameter functions: kind -> (function prefix, arity, RK, what the caller passes)
REFS = {"c": ("r", 1, "RK_C", "x.p1"), "m": ("w", 1, "RK_M", "x.p1"), "cm": ("u", 2, "RK_CM", "x.p1, x.p2")}
MATCH_INT_REF = dict(MATCH, ANY=("ANY(int&)", "M_ANY"))  # ANY(int) does not bind to int&


def argexpr(arity, ref=None):
    if ref == "cm":
        return "_1 * 100 + _2"
    return {0: "-1", 1: "_1", 2: "_1 * 10 + static_cast<int>(_2.size())"}[arity]


def writeexpr(ref):
    return {"m": "_1 += 10", "cm": "_1 * 100 + (_2 += 10)"}[ref]


def fn_name(arity, ty, lazy, ref=None):
    return "%s_%s_%s" % (REFS[ref][0] if ref else "zpq"[arity], ty, "l" if lazy else "e")


def call_expr(arity, ty, lazy, ref=None):
    f = fn_name(arity, ty, lazy, ref)
    if ref:  # every call gets its own argument objects, owned by the Ctx, alive until the case is over
        return "[&](int a) { ArgCell& x = c.new_cell(a); return hold(m.%s(%s)); }" % (f, REFS[ref][3])
    if arity == 0:
        return "[&](int a) { (void)a; return hold(m.%s()); }" % f
    if arity == 1:
        return "[&](int a) { return hold(m.%s(a)); }" % f
    return "[&](int a) { return hold(m.%s(a, str_for(a))); }" % f


def render(i, s):
    ty, lazy, arity = s["ty"], s["lazy"], s.get("arity", 0)
    ref = s.get("ref")                # None | "c" (int const&) | "m" (int&) | "cm" (int const&, int&)
    if ref:
        arity = REFS[ref][1]
    tyc, is_gen = TYPES[ty]
    ys = s.get("yields", "")          # e.g. "CLC": CO_YIELD / LR_CO_YIELD per position
    k = len(ys)
    use = s.get("use", "n" * (k + 1))  # reference-parameter sites: per clause n | p | r | w (see SiteInfo::use)
    if ty == "giv" and s["fin"] in ("THROW", "LRTHROW", "THROWINT") and not COTHROW_ON_RETURN_VOID_GEN:
        s = dict(s, fin="VOID")
        use = use[:k] + "n"
    assert len(use) == k + 1 and (ref or set(use) == {"n"}) and ("w" not in use or ref in ("m", "cm"))
    assert is_gen or k == 0
    fin = s["fin"]                    # RET LRRET RETARG VOID THROW LRTHROW THROWINT
    suspended_eval = lazy or (is_gen and k > 0)
    if fin == "RETARG":
        assert arity > 0 and not suspended_eval, "exclusion: no _N in a clause evaluated after the call returned"
    if ty in ("tv", "giv"):
        assert fin in ("VOID", "THROW", "LRTHROW", "THROWINT")
    else:
        assert fin != "VOID"
    mk = s.get("mk", "WILD") if arity else None
    w = s.get("with", 0) if arity else 0
    nfx = s.get("fx", 1)
    tm = s.get("times", "RT")
    seq = s.get("seq", None)          # None | "PLAIN" | "CORO"
    b_first = s.get("b_first", False)
    seq_first = s.get("seq_first", False)   # IN_SEQUENCE before TIMES
    ret_pos = s.get("ret_pos", k)     # position of the final clause among the yields
    bk = s.get("b", seq)              # B without a sequence is possible too
    ae = argexpr(arity, ref)
    match = MATCH_INT_REF if ref == "m" else MATCH

    def pex(u):                       # the parameter expression of a clause that names _N
        return writeexpr(ref) if u == "w" else ae

    uf = use[k]
    if uf == "n":
        fin_clause, finc = {
            "RET": (".CO_RETURN(rvf(d, %d))" % k, "F_RET"),
            "LRRET": (".LR_CO_RETURN(rvf(ld, %d))" % k, "F_RET"),
            "RETARG": (".CO_RETURN(rvf(d, %d) + 100000 * (%s))" % (k, ae), "F_RETARG"),
            "VOID": (".CO_RETURN()", "F_VOID"),
            "THROW": (".CO_THROW(mkerr(d))", "F_THROW"),
            "LRTHROW": (".LR_CO_THROW(mkerr(ld))", "F_THROW"),
            "THROWINT": (".CO_THROW(tag(d.ti))", "F_THROWINT"),
        }[fin]
    elif uf == "p":
        fin_clause, finc = {
            "RET": (".CO_RETURN((%s) * 2)" % ae, "F_RET"),
            "LRRET": (".LR_CO_RETURN((%s) * 2)" % ae, "F_RET"),
            "THROW": (".CO_THROW(std::runtime_error(std::to_string(%s)))" % ae, "F_THROW"),
            "LRTHROW": (".LR_CO_THROW(std::runtime_error(std::to_string(%s)))" % ae, "F_THROW"),
        }[fin]
    else:
        fin_clause, finc = {
            "RET": (".CO_RETURN(rva(d, %d, %s))" % (k, pex(uf)), "F_RET"),
            "LRRET": (".LR_CO_RETURN(rva(ld, %d, %s))" % (k, pex(uf)), "F_RET"),
            "THROW": (".CO_THROW(mkerra(d, %s))" % pex(uf), "F_THROW"),
            "LRTHROW": (".LR_CO_THROW(mkerra(ld, %s))" % pex(uf), "F_THROW"),
            "THROWINT": (".CO_THROW(tag(d.ti) + 100000 * (%s))" % pex(uf), "F_THROWINT"),
        }[fin]

    cl = []
    if w == 1:
        cl.append(".WITH(_1 != d.wv)")
    elif w == 2:
        cl.append(".LR_WITH(_1 != ld.wv)")
    fxn = 0

    def fxc():
        nonlocal fxn
        c = ".%sSIDE_EFFECT(fx(0, %d, %s))" % ("LR_" if fxn % 2 else "", fxn, ae)
        fxn += 1
        return c
    if nfx >= 1:
        cl.append(fxc())
    body = []
    for j, y in enumerate(ys):
        mac, dd, u = (".CO_YIELD", "d", use[j]) if y == "C" else (".LR_CO_YIELD", "ld", use[j])
        if u == "n":
            if (i + j) % 3 == 1:   # an lvalue into a temporary of the same full expression: the value must be copied while that lives
                body.append("%s(TempBox(yv(%s, %d)).ref())" % (mac, dd, j))
            else:
                body.append("%s(yv(%s, %d))" % (mac, dd, j))
        elif u == "p":
            body.append("%s(%s)" % (mac, ae if j == 0 else "%s + %d" % (ae, j)))
        else:
            body.append("%s(yva(%s, %d, %s))" % (mac, dd, j, pex(u)))
    body.insert(ret_pos, fin_clause)
    if nfx >= 2:  # second side effect in the middle of the coroutine clauses
        body.insert(len(body) // 2, fxc())
    cl += body
    if nfx >= 3:
        cl.append(fxc())
    tcl = TIMES[tm][0]
    scl = ".IN_SEQUENCE(sq)" if seq else ""
    cl += [scl, tcl] if seq_first else [tcl, scl]
    macro = "NAMED_ALLOW_CALL" if tm == "ALLOW" else "NAMED_REQUIRE_CALL"
    if arity == 0:
        args = ""
    elif arity == 1:
        args = match[mk][0]
    else:
        args = match[mk][0] + ", _"
    fA = fn_name(arity, ty, lazy, ref)
    expA = "auto eA = %s(m, %s(%s))%s;" % (macro, fA, args, "".join(cl))

    b_arity, b_k = 0, 0
    expB, callB, eB = "", "Caller{}", "nullptr"
    if bk:
        bseq = ".IN_SEQUENCE(sq)" if seq else ""
        if bk == "PLAIN":
            b_arity = 1
            expB = "auto eB = NAMED_REQUIRE_CALL(m, plain(_)).SIDE_EFFECT(fx(1, 0, _1))%s.RT_TIMES(d.loB, d.hiB);" % bseq
            callB = "[&](int a) -> std::unique_ptr<CoObj> { m.plain(a); return nullptr; }"
        else:
            b_arity = 0 if arity else 1
            b_k = 2 if is_gen else 0
            fB = fn_name(b_arity, ty, lazy)
            bcl = ".SIDE_EFFECT(fx(1, 0, %s))" % argexpr(b_arity)
            for j in range(b_k):
                bcl += ".CO_YIELD(yvb(d, %d))" % j
            bcl += ".CO_RETURN()" if ty in ("tv", "giv") else ".CO_RETURN(rvb(d))"
            expB = "auto eB = NAMED_REQUIRE_CALL(m, %s(%s))%s%s.RT_TIMES(d.loB, d.hiB);" % (fB, "_" if b_arity else "", bcl, bseq)
            callB = call_expr(b_arity, ty, lazy)
        eB = "eB.get()"
    exps = (expB + " " + expA) if b_first else (expA + " " + expB)
    text = re.sub(r"\s+", " ", exps).strip().replace("\\", "\\\\").replace('"', '\\"')
    info = "{%d, %s, %s, %d, %d, %s, %s, %s, %d, %s, %s, %s, %s, %s, %s, %d, %d, \"%s\"}" % (
        i, tyc, "true" if lazy else "false", arity, k, finc, MATCH[mk][1] if mk else "M_NONE", "true" if w else "false", nfx,
        TIMES[tm][1], TIMES[tm][2], TIMES[tm][3], "true" if seq else "false", "true" if b_first else "false",
        {"PLAIN": "B_PLAIN", "CORO": "B_CORO", None: "B_NONE"}[bk], b_arity, b_k, text)
    if ref:
        info = info[:-1] + ", %s, \"%s\"}" % (REFS[ref][2], use)
    return ("#if Q_HAS(%d)\nstatic void s%d(Ctx& c) { static const SiteInfo I%s; if (c.begin(I)) return; SITE_PROLOGUE(MK_%s_%s); %s SITE_AFTER_SETUP; "
            "c.drive(eA.get(), %s, %s, %s, [&] { %s }); }\nstatic const Reg r%d{%d, &s%d};\n#endif" % (i, i, info, ty, "l" if lazy else "e", exps.strip(), call_expr(arity, ty, lazy, ref), eB, callB, "eA.reset(); eB.reset();" if bk else "eA.reset();", i, i, i))


def build_sites():
    S = []
    mks = ["WILD", "EQ", "GT", "ANY", "NE", "LE", "VAL", "GE", "LT"]
    withs = [0, 1, 0, 2, 0]
    fxs = [1, 2, 0, 3, 1, 2]
    times = ["RT", "RT", "N2", "RT", "AL1", "RT", "R13", "RT1", "AM2", "RT", "DEF", "RT", "ALLOW"]
    n = [0]

    def add(**kw):
        j = n[0]
        n[0] += 1
        kw.setdefault("mk", mks[j % len(mks)])
        kw.setdefault("with", withs[j % len(withs)])
        kw.setdefault("fx", fxs[j % len(fxs)])
        kw.setdefault("times", times[j % len(times)])
        if j % 5 == 3 and "seq" not in kw:
            kw["seq"] = "CORO" if (j // 5) % 2 == 0 else "PLAIN"
            kw["b_first"] = (j // 5) % 3 == 2
            kw["seq_first"] = (j // 5) % 2 == 1
        S.append(kw)

    # tasks
    for lazy in (False, True):
        add(ty="ti", lazy=lazy, arity=0, fin="RET")
        add(ty="ti", lazy=lazy, arity=1, fin="RETARG" if not lazy else "RET")
        add(ty="ti", lazy=lazy, arity=1, fin="LRRET")
        add(ty="ti", lazy=lazy, arity=0, fin="THROW")
        add(ty="ti", lazy=lazy, arity=1, fin="LRTHROW")
        add(ty="ti", lazy=lazy, arity=2, fin="RETARG" if not lazy else "RET")
        add(ty="ti", lazy=lazy, arity=0, fin="THROWINT")
        add(ty="tv", lazy=lazy, arity=0, fin="VOID")
        add(ty="tv", lazy=lazy, arity=1, fin="VOID")
        add(ty="tv", lazy=lazy, arity=1, fin="THROW")
        add(ty="tv", lazy=lazy, arity=0, fin="LRTHROW")
    # generators, no parameters: every k x {return, throw}
    pats = {0: [""], 1: ["C", "L"], 2: ["CC", "LC"], 3: ["CLC", "CCC"], 4: ["CCLL", "LCCC"]}
    for ty in ("gii", "giv"):
        for lazy in (False, True):
            for k in range(5):
                retfin = "RET" if ty == "gii" else "VOID"
                if ty == "gii" and k == 3:
                    retfin = "LRRET"
                add(ty=ty, lazy=lazy, arity=0, yields=pats[k][0], fin=retfin)
                add(ty=ty, lazy=lazy, arity=0, yields=pats[k][1 % len(pats[k])], fin=["THROW", "LRTHROW", "THROWINT"][k % 3])
    # generators with parameters (clauses evaluated after mock_func returned; none names _N)
    for ty in ("gii", "giv"):
        for lazy in (False, True):
            retfin = "RET" if ty == "gii" else "VOID"
            add(ty=ty, lazy=lazy, arity=1, yields="", fin="RETARG" if (ty == "gii" and not lazy) else retfin)
            add(ty=ty, lazy=lazy, arity=1, yields="CL", fin=retfin)
            add(ty=ty, lazy=lazy, arity=1, yields="LCC", fin="THROW")
    add(ty="gii", lazy=False, arity=2, yields="CC", fin="RET")
    add(ty="gii", lazy=True, arity=2, yields="CCCC", fin="RET")
    # CO_RETURN written before / between the CO_YIELDs: the yield list is shared with the return handler
    add(ty="gii", lazy=True, arity=0, yields="CC", fin="RET", ret_pos=0)
    add(ty="gii", lazy=False, arity=1, yields="CCC", fin="RET", ret_pos=1)
    add(ty="giv", lazy=True, arity=1, yields="CL", fin="THROW", ret_pos=0)
    add(ty="giv", lazy=False, arity=0, yields="CCCC", fin="VOID", ret_pos=2)

    # ---- sites 80.. : reference parameters bound to caller-owned objects, named by clauses that run after the call
    # returned. Matchers that let several different arguments through, bounds that admit 2-3 calls.
    rmks = ["WILD", "GT", "NE", "ANY", "LE", "GE", "LT"]
    rtimes = ["N2", "AL1", "R13", "RT", "ALLOW", "RT", "AM2"]
    rn = [0]

    def addref(**kw):
        j = rn[0]
        rn[0] += 1
        kw.setdefault("mk", rmks[j % len(rmks)])
        kw.setdefault("times", rtimes[j % len(rtimes)])
        add(**kw)

    # 80: the plainest shape (replays/C20/seed-late-param-use-two-calls.txt): lazy generator g(int const&), TIMES(2), CO_YIELD(_1)
    addref(ty="giv", lazy=True, ref="c", yields="C", use="pn", fin="VOID", mk="WILD", times="N2", fx=0, seq=None)
    # tasks: the final clause is the only one; eager ones evaluate it inside the call, lazy ones when awaited
    for lazy in (True, False):
        addref(ty="ti", lazy=lazy, ref="c", fin="RET", use="r")
        addref(ty="ti", lazy=lazy, ref="c", fin="LRRET", use="p")
        addref(ty="ti", lazy=lazy, ref="m", fin="RET", use="w")
        addref(ty="ti", lazy=lazy, ref="m", fin="THROW", use="r")
        addref(ty="ti", lazy=lazy, ref="cm", fin="RET", use="r")
        addref(ty="ti", lazy=lazy, ref="cm", fin="LRTHROW", use="w")
        addref(ty="ti", lazy=lazy, ref="c", fin="THROWINT", use="r")
        addref(ty="tv", lazy=lazy, ref="c", fin="THROW", use="p")
        addref(ty="tv", lazy=lazy, ref="m", fin="LRTHROW", use="w")
    # generators
    for ty in ("gii", "giv"):
        for lazy in (True, False):
            g = ty == "gii"
            if not (ty == "giv" and lazy):  # that one is site 80
                addref(ty=ty, lazy=lazy, ref="c", yields="C", use="pp" if g else "pn", fin="RET" if g else "VOID")
            addref(ty=ty, lazy=lazy, ref="c", yields="CL", use="rrr", fin="RET" if g else "THROW")
            addref(ty=ty, lazy=lazy, ref="m", yields="CLC", use="wrw" + ("r" if g else "n"), fin="LRRET" if g else "VOID")
            addref(ty=ty, lazy=lazy, ref="m", yields="CC", use="nw" + ("r" if g else "w"), fin="THROWINT" if g else "THROW")
            addref(ty=ty, lazy=lazy, ref="c", yields="LCCC", use="rnrp" + ("n" if g else "p"), fin="RET" if g else "LRTHROW")
    for lazy in (True, False):
        addref(ty="gii", lazy=lazy, ref="cm", yields="CL", use="rwr", fin="RET")
        addref(ty="gii", lazy=lazy, ref="cm", yields="CCC", use="wpwr", fin="LRTHROW")
    # the final clause written before / between the CO_YIELDs
    addref(ty="gii", lazy=True, ref="c", yields="CC", use="rrr", fin="RET", ret_pos=0)
    addref(ty="giv", lazy=False, ref="m", yields="CL", use="wwr", fin="THROW", ret_pos=1)
    return S


def main():
    sites = build_sites()
    lines = ["#define Q_NSITES %d" % len(sites), "inline SiteFn* site_table() { static SiteFn t[Q_NSITES] = {}; return t; }"]
    lines += [render(i, s) for i, s in enumerate(sites)]
    path = os.path.join(HERE, "q_main.cpp")
    src = open(path).read()
    a = src.index("// BEGIN GENERATED SITES")
    b = src.index("// END GENERATED SITES")
    src = src[:a] + "// BEGIN GENERATED SITES\n" + "\n".join(lines) + "\n" + src[b:]
    open(path, "w").write(src)
    print("%d sites" % len(sites))


if __name__ == "__main__":
    main()

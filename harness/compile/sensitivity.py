#!/usr/bin/env python3-vt
"""Development tool (not used by bin/check): does every row of rules.py have teeth?

For each rule row, copy $VERIF_REPO/include to a scratch directory, delete the static_assert(s) that carry the row's
documented message, and run engine K's row-targeted group for that row against the copy.  The engine must exit 1.

  python3-vt sensitivity.py [--rows R04,R22] [--scratch /tmp/k_sens] [--examples 3] [--jobs 4]
"""
import argparse, os, shutil, subprocess, sys
from concurrent.futures import ThreadPoolExecutor
HERE = os.path.dirname(os.path.abspath(__file__))
sys.path.insert(0, HERE)
import rules

# row -> (text that identifies the static_assert, optional: which occurrences (0-based) of it to delete, default all)
KEYS = {r: (rules.ROWS[r][1], None) for r in rules.ROW_IDS}
KEYS["R20"] = ("Multiple IN_SEQUENCE does not make sense", None)
KEYS["R28"] = ("Function signature does not have", None)
KEYS["R29"] = ("make a mock object movable, see:", None)
KEYS["R05"] = ("THROW and RETURN does not make sense", "handle_return")
KEYS["R13"] = ("THROW and RETURN does not make sense", "handle_throw")
KEYS["R25b"] = ("CO_THROW and CO_RETURN does not make sense", "handle_co_return")
KEYS["R26b"] = ("CO_THROW and CO_RETURN does not make sense", "handle_co_throw")
KEYS["R11"] = ("illegal argument", None)

def strip_asserts(text, key, scope):
    """remove every static_assert(...) ; whose text contains key (and, if scope is given, that follows `struct <scope>`)"""
    out, i, n = [], 0, 0
    while True:
        j = text.find("static_assert", i)
        if j < 0:
            out.append(text[i:])
            break
        k = text.find("(", j)
        depth, p = 0, k
        in_str = False
        while p < len(text):
            c = text[p]
            if in_str:
                if c == "\\":
                    p += 1
                elif c == '"':
                    in_str = False
            elif c == '"':
                in_str = True
            elif c == "(":
                depth += 1
            elif c == ")":
                depth -= 1
                if depth == 0:
                    break
            p += 1
        end = text.find(";", p) + 1
        span = text[j:end]
        hit = key in span
        if hit and scope:
            s = text.rfind("struct handle_", 0, j)
            hit = text[s:s + 40].startswith("struct " + scope)
        if hit:
            out.append(text[i:j])
            n += 1
        else:
            out.append(text[i:end])
        i = end
    return "".join(out), n

def plant(row, scratch):
    dst = os.path.join(scratch, row)
    shutil.rmtree(dst, ignore_errors=True)
    shutil.copytree(os.path.join(os.environ.get("VERIF_REPO", "/repo"), "include"), os.path.join(dst, "include"))
    key, scope = KEYS[row]
    total = 0
    for root, _, files in os.walk(os.path.join(dst, "include", "trompeloeil")):
        for f in files:
            if f == "cpp11_shenanigans.hpp":
                continue
            p = os.path.join(root, f)
            t = open(p).read()
            t2, n = strip_asserts(t, key, scope)
            if n:
                open(p, "w").write(t2)
                total += n
    return dst, total

def one(row, a):
    dst, n = plant(row, a.scratch)
    out = os.path.join(dst, "run")
    os.makedirs(out, exist_ok=True)
    env = dict(os.environ, VERIF_REPO=dst)
    cmd = ["python3-vt", os.path.join(HERE, "k_engine.py"), "--prop", "C19", "--tier", "quick", "--seed", str(a.seed), "--out", os.path.join(out, "o.json"),
           "--faildir", out, "--parts", "c", "--groups", "row:" + row, "--no-pch", "--quiet"]
    if a.examples:
        cmd += ["--examples", str(a.examples)]
    r = subprocess.run(cmd, env=env, stdout=subprocess.PIPE, stderr=subprocess.STDOUT, text=True)
    if not a.keep:
        shutil.rmtree(dst, ignore_errors=True)
    return row, n, r.returncode, r.stdout[-400:]

def main():
    ap = argparse.ArgumentParser()
    ap.add_argument("--rows", default="")
    ap.add_argument("--scratch", default="/tmp/k_sens")
    ap.add_argument("--examples", type=int, default=0)
    ap.add_argument("--seed", type=int, default=1)
    ap.add_argument("--jobs", type=int, default=4)
    ap.add_argument("--keep", action="store_true")
    a = ap.parse_args()
    rows = [r for r in a.rows.split(",") if r] or rules.ROW_IDS
    os.makedirs(a.scratch, exist_ok=True)
    bad = 0
    with ThreadPoolExecutor(max_workers=a.jobs) as ex:
        for row, n, rc, tail in ex.map(lambda r: one(r, a), rows):
            verdict = "detected" if rc == 1 and n else ("NO static_assert found" if not n else "SURVIVED rc=%d" % rc)
            print("%-5s %-45s asserts removed=%d  %s" % (row, rules.ROWS[row][0], n, verdict), flush=True)
            if verdict != "detected":
                bad += 1
                print(tail)
    if not a.keep:
        shutil.rmtree(a.scratch, ignore_errors=True)
    return 1 if bad else 0

if __name__ == "__main__":
    sys.exit(main())

#!/usr/bin/env python3-vt
"""Engine K (property C19): the compilers applied to programs that use trompeloeil.

  python3-vt k_engine.py --prop C19 --tier quick|thorough --seed N --out <json> --faildir <dir> [--replay <file>] [--quiet]

Parts (generation mode):
  (a) shipped   every $VERIF_REPO/compilation_errors/*.cpp with its own `// pass:` / `// exception:` rules
  (b) macro     -DTROMPELOEIL_LONG_MACROS: no macro outside TROMPELOEIL_ defined by a file under the include root
                (exhaustive over headers x std x compiler); without the define every documented short macro exists
  (c) generated Hypothesis-generated programs judged by rules.py

Exit status: 0 no disagreement, 1 at least one violation (files <faildir>/k_fail.C19.<n>.txt), other = harness error.
"""
import argparse, glob, hashlib, json, os, re, shutil, struct, subprocess, sys, time, traceback
from concurrent.futures import ProcessPoolExecutor

HERE = os.path.dirname(os.path.abspath(__file__))
sys.path.insert(0, HERE)

POOL = 16
BATCH = 25
STDS = (14, 17, 20)
MARK_PROGRAM = "# ---- program ----"
MARK_HEADER = "# ---- header ----"

def repo_root():
    return os.path.realpath(os.environ.get("VERIF_REPO", "/repo"))

def include_root():
    return os.path.join(repo_root(), "include")

def fnv1a(s):
    h = 1469598103934665603
    for b in s.encode("utf-8", "replace"):
        h ^= b
        h = (h * 1099511628211) & 0xFFFFFFFFFFFFFFFF
    return h

def derive_seed(seed, idx):
    return (int(seed) * 1000003 + idx * 7919 + 17) % 2147483647 or 1

# ----------------------------------------------------------------------------------------------------------------
# tool chain
_TOOLS = None
def tools():
    """{'g++': (path, 'g++-12'), 'clang++': (path, 'clang++-14')}"""
    global _TOOLS
    if _TOOLS is None:
        t = {}
        for name in ("g++", "clang++"):
            path = shutil.which(name)
            if not path:
                raise SystemExit("harness error: %s not found" % name)
            v = subprocess.run([path, "-dumpversion"], stdout=subprocess.PIPE, stderr=subprocess.DEVNULL, text=True).stdout.strip()
            major = v.split(".")[0] if v else ""
            t[name] = (path, "%s-%s" % (name, major) if major else name)
        _TOOLS = t
    return _TOOLS

# ----------------------------------------------------------------------------------------------------------------
# worker side (runs in pool processes; everything here is a pure function of its argument)
def _run(cmd, cwd=None, stdin=None, timeout=600):
    try:
        r = subprocess.run(cmd, cwd=cwd, input=stdin, stdout=subprocess.PIPE, stderr=subprocess.PIPE, text=True, errors="replace", timeout=timeout)
        return r.returncode, r.stdout, r.stderr
    except subprocess.TimeoutExpired:
        return -9, "", "[timeout]"

def w_compile(job):
    """job: text, path, compiler(path), std, flags[], inc, pch (None | ('gcc', dir) | ('clang', file))
       -> dict(rc, err, used_pch, dt)"""
    t0 = time.time()
    with open(job["path"], "w") as f:
        f.write(job["text"])
    base = [job["compiler"], "-std=c++%d" % job["std"]] + list(job.get("flags", []))
    tail = ["-I" + job["inc"], "-fsyntax-only", job["path"]]
    pch = job.get("pch")
    used = False
    rc = err = None
    if pch:
        mid = ["-I" + pch[1]] if pch[0] == "gcc" else ["-include-pch", pch[1]]
        rc, _, err = _run(base + mid + tail)
        used = True
        if rc != 0 and ("precompiled header" in err or "PCH file" in err or ".gch" in err and "not used because" in err):
            rc = None       # stale or unusable PCH (for instance the tree changed under us): compile the plain way
            used = False
    if rc is None:
        rc, _, err = _run(base + tail)
    if not job.get("keep"):
        try:
            os.unlink(job["path"])
        except OSError:
            pass
    return dict(rc=rc, err=err, used_pch=used, dt=time.time() - t0, id=job.get("id"))

def w_build_pch(job):
    """job: compiler, kind('gcc'|'clang'), std, flags, inc, out"""
    os.makedirs(os.path.dirname(job["out"]), exist_ok=True)
    cmd = [job["compiler"], "-std=c++%d" % job["std"]] + list(job["flags"]) + ["-I" + job["inc"], "-x", "c++-header",
           os.path.join(job["inc"], "trompeloeil.hpp"), "-o", job["out"]]
    rc, _, err = _run(cmd)
    return dict(rc=rc, err=err[-2000:], id=job["id"])

def grep_q(pattern, text, extended):
    """grep -q semantics of the shipped shell scripts (BRE for exception rules, ERE for pass rules)"""
    cmd = ["grep", "-q"] + (["-E"] if extended else []) + ["-e", pattern]
    rc, _, _ = _run(cmd, stdin=text)
    return rc == 0

def get_rule(kind, text):
    """verify_compilation_error.sh get_rule: every line `// <kind>: <re>` contributes one pattern line"""
    return "\n".join(m.group(1) for m in re.finditer(r"^// %s: (.*)$" % re.escape(kind), text, re.M))

def shipped_compiler_string(cxx_name, std):
    # "{$RUNNER_OS} ${CXX} ${CXXFLAGS} ${CPPFLAGS}" with CXXFLAGS=-std=c++NN and empty CPPFLAGS
    return "{%s} %s %s %s" % (os.environ.get("RUNNER_OS", "Linux"), cxx_name, "-std=c++%d" % std, "")

def w_shipped(job):
    """job: text, path, compiler, cxx_name, std, inc -> dict(status: exempt|ok|disagree, got, err)"""
    text = job["text"]
    exc = get_rule("exception", text)
    if exc and grep_q(exc, shipped_compiler_string(job["cxx_name"], job["std"]) + "\n", False):
        return dict(status="exempt", id=job["id"], got="", regex="")
    pass_re = get_rule("pass", text)
    r = w_compile(dict(text=text, path=job["path"], compiler=job["compiler"], std=job["std"], flags=[], inc=job["inc"]))
    out = r["err"]
    matched = grep_q(pass_re, out, True)
    failed = r["rc"] not in (0, None)
    if r["rc"] == -9:
        return dict(status="inconclusive", id=job["id"], got="time-out", regex=pass_re)
    if failed and matched:
        return dict(status="ok", id=job["id"], got="", regex=pass_re)
    if not failed:
        got = "compiled (exit 0)"
    else:
        got = "failed to compile but no diagnostic line matches; first errors: " + first_errors(out)
    return dict(status="disagree", id=job["id"], got=got, regex=pass_re)

def has_message(err, msg):
    """the documented text, not preceded by an identifier character (so "RETURN for ..." is not found inside "CO_RETURN for ...")"""
    return re.search(r"(?<![A-Za-z0-9_])" + re.escape(msg), err) is not None

def first_errors(err, n=3):
    lines = [l.strip() for l in err.splitlines() if "error" in l]
    return " | ".join(l[:220] for l in lines[:n]) or err.strip()[:300]

_LINEMARK = re.compile(r'^# (\d+) "((?:[^"\\]|\\.)*)"')
_DEFINE = re.compile(r"^#define\s+([A-Za-z_][A-Za-z0-9_]*)")
_UNDEF = re.compile(r"^#undef\s+([A-Za-z_][A-Za-z0-9_]*)")

def macro_dump(compiler, std, inc, header, long_macros):
    """-> (rc, err, {macro: (file, line)} still defined at the end and defined by a file under inc, all macro names defined)"""
    cmd = [compiler, "-std=c++%d" % std] + (["-DTROMPELOEIL_LONG_MACROS"] if long_macros else []) + ["-I" + inc, "-dD", "-E", "-x", "c++",
           os.path.join(inc, header)]
    rc, out, err = _run(cmd)
    root = os.path.realpath(inc) + os.sep
    cur, line = "", 0
    mine = {}
    names = set()
    for l in out.splitlines():
        if l.startswith("# "):
            m = _LINEMARK.match(l)
            if m:
                line = int(m.group(1)) - 1
                f = m.group(2)
                cur = os.path.realpath(f) if f.startswith("/") else f
                continue
        line += 1
        if l.startswith("#define"):
            m = _DEFINE.match(l)
            if m:
                names.add(m.group(1))
                if cur.startswith(root):
                    mine[m.group(1)] = (cur[len(root):], line)
        elif l.startswith("#undef"):
            m = _UNDEF.match(l)
            if m:
                names.discard(m.group(1))
                mine.pop(m.group(1), None)
    return rc, err, mine, names

def w_macro(job):
    """job: compiler, std, inc, header, mode ('long'|'short'), want (short mode: names that must exist)"""
    if job["mode"] == "long":
        rc, err, mine, _ = macro_dump(job["compiler"], job["std"], job["inc"], job["header"], True)
        if rc != 0:
            if "Coroutines are not supported by this compiler" in err and job["std"] < 20:
                return dict(status="skipped", id=job["id"], got="header needs coroutine support", n=0)
            return dict(status="error", id=job["id"], got="preprocessor failed: " + first_errors(err), n=0)
        bad = sorted((n, fl) for n, fl in mine.items() if not n.startswith("TROMPELOEIL_"))
        if bad:
            return dict(status="disagree", id=job["id"], n=len(mine),
                        got="; ".join("%s (%s:%d)" % (n, fl[0], fl[1]) for n, fl in bad[:12]))
        return dict(status="ok", id=job["id"], got="", n=len(mine))
    rc, err, mine, names = macro_dump(job["compiler"], job["std"], job["inc"], job["header"], False)
    if rc != 0:
        return dict(status="error", id=job["id"], got="preprocessor failed: " + first_errors(err), n=0)
    missing = [m for m in job["want"] if m not in mine]
    if missing:
        return dict(status="disagree", id=job["id"], n=len(mine), got="not defined by the library headers: " + " ".join(missing[:20]))
    return dict(status="ok", id=job["id"], got="", n=len(mine))

def w_dispatch(job):
    try:
        return {"compile": w_compile, "pch": w_build_pch, "shipped": w_shipped, "macro": w_macro}[job["what"]](job)
    except Exception:
        return dict(status="error", rc=None, err=traceback.format_exc(), got=traceback.format_exc(), id=job.get("id"), crashed=True)

# ----------------------------------------------------------------------------------------------------------------
class Engine:
    def __init__(self, a):
        import rules, gen_compile
        self.rules, self.gen = rules, gen_compile
        self.a = a
        self.tier = a.tier
        self.seed = int(a.seed)
        self.faildir = os.path.abspath(a.faildir)
        os.makedirs(self.faildir, exist_ok=True)
        self.tmp = os.path.join(self.faildir, "k_tmp.%d" % os.getpid())
        os.makedirs(self.tmp, exist_ok=True)
        self.inc = include_root()
        self.tools = tools()
        self.pool = None
        self.labels = {}
        self.hashes = set()
        self.samples = []
        self.evaluations = 0
        self.violations = []        # (path, message)
        self.notes = []
        self.inconclusive = []
        self.nfail = 0
        self.pch = {}               # (compiler, std, long) -> ('gcc', dir) | ('clang', file)
        self.counter = 0
        self.cache = {}             # (program, compiler, std) -> verdict dict
        self.harness_error = False
        self.shipped_dis = {}
        self.macro_dis = {}

    def log(self, *x):
        if not self.a.quiet:
            print(*x, flush=True)

    def label(self, name, n=1):
        self.labels[name] = self.labels.get(name, 0) + n

    def nontrivial(self, ident, rendered=None):
        h = fnv1a(ident)
        if h not in self.hashes:
            self.hashes.add(h)
            if rendered and (len(self.samples) < 5 or h % 97 == 0):
                if len(self.samples) < 5:
                    self.samples.append(rendered)
                else:
                    self.samples[h % 5] = rendered

    def scratch(self, suffix=".cpp"):
        self.counter += 1
        return os.path.join(self.tmp, "t%06d%s" % (self.counter, suffix))

    def submit(self, job):
        return self.pool.submit(w_dispatch, job)

    # ---------------------------------------------------------------- violations
    def write_fail(self, kind, std, compiler, expected, got, body, extra=(), marker=MARK_PROGRAM):
        self.nfail += 1
        path = os.path.join(self.faildir, "k_fail.C19.%d.txt" % self.nfail)
        lines = ["# engine=K prop=C19", "# kind=%s std=%s compiler=%s" % (kind, std, compiler), "# expected: %s" % expected,
                 "# got: %s" % got.replace("\n", " ")] + ["# " + e for e in extra] + [marker]
        with open(path, "w") as f:
            f.write("\n".join(lines) + "\n" + body)
        msg = "%s c++%s %s: expected %s; got %s" % (kind, std, compiler, expected, got.replace("\n", " ")[:400])
        if extra:
            msg += " [" + "; ".join(extra)[:300] + "]"
        self.violations.append((path, msg))
        self.log("VIOLATION-CANDIDATE " + msg)
        return path

    # ---------------------------------------------------------------- part (a)
    def shipped_jobs(self):
        files = sorted(glob.glob(os.path.join(repo_root(), "compilation_errors", "*.cpp")))
        if not files:
            raise SystemExit("harness error: no shipped negative programs under %s/compilation_errors" % repo_root())
        jobs = []
        for i, f in enumerate(files):
            text = open(f, errors="replace").read()
            name = os.path.basename(f)
            if self.tier == "thorough":
                stds = STDS
            else:
                stds = (20, 14) if (i + self.seed) % 3 == 0 else (20,)
            self.nontrivial("shipped|" + name)
            for std in stds:
                for cname, (cpath, cxx_name) in self.tools.items():
                    jid = ("shipped", name, cname, std)
                    jobs.append(dict(what="shipped", id=jid, text=text, path=self.scratch(), compiler=cpath, cxx_name=cxx_name, std=std, inc=self.inc))
        return jobs

    def shipped_result(self, job, r):
        _, name, cname, std = job["id"]
        if r.get("crashed"):
            self.harness_error = True
            self.inconclusive.append("shipped %s: worker crashed: %s" % (name, r["got"][-300:]))
            return
        st = r["status"]
        self.label("shipped/%s/c++%d/%s" % (cname, std, st))
        if st == "exempt":
            return
        self.evaluations += 1
        if st == "inconclusive":
            self.inconclusive.append("shipped %s %s c++%d: %s" % (name, cname, std, r["got"]))
        elif st == "disagree":
            self.shipped_dis.setdefault(name, []).append((std, cname, r, job["text"]))

    # ---------------------------------------------------------------- part (b)
    def macro_headers(self):
        inc = self.inc
        hs = ["trompeloeil.hpp"]
        hs += sorted("trompeloeil/" + os.path.basename(p) for p in glob.glob(os.path.join(inc, "trompeloeil", "*.hpp")))
        hs += sorted("trompeloeil/matcher/" + os.path.basename(p) for p in glob.glob(os.path.join(inc, "trompeloeil", "matcher", "*.hpp")))
        return hs

    def macro_jobs(self):
        stds = STDS if self.tier == "thorough" else (17, 20)
        jobs = []
        for h in self.macro_headers():
            for std in stds:
                for cname, (cpath, _) in self.tools.items():
                    jobs.append(dict(what="macro", id=("macro", "long", h, cname, std), compiler=cpath, std=std, inc=self.inc, header=h, mode="long"))
        for std in stds:
            want = list(self.rules.DOCUMENTED_SHORT_MACROS) + (self.rules.DOCUMENTED_SHORT_MACROS_CXX20 if std >= 20 else [])
            for cname, (cpath, _) in self.tools.items():
                jobs.append(dict(what="macro", id=("macro", "short", "trompeloeil.hpp", cname, std), compiler=cpath, std=std, inc=self.inc,
                                 header="trompeloeil.hpp", mode="short", want=want))
        return jobs

    def macro_result(self, job, r):
        _, mode, header, cname, std = job["id"]
        st = r["status"]
        self.label("macro/%s/%s/c++%d/%s" % (mode, cname, std, st))
        if st == "skipped":
            return
        if st == "error" or r.get("crashed"):
            self.harness_error = True
            self.inconclusive.append("macro %s %s %s c++%d: %s" % (mode, header, cname, std, r["got"][-300:]))
            return
        self.evaluations += 1
        self.nontrivial("macro|%s|%s|%s|%d" % (mode, header, cname, std))
        self.label("macro/defines-attributed", r.get("n", 0))
        if st == "disagree":
            self.macro_dis.setdefault((mode, re.sub(r":\d+\)", ")", r["got"])), []).append((header, std, cname, r))

    def report_grouped(self):
        """one violation file per root cause (a shipped file / a set of leaked macros); the other failing cells are listed in it"""
        for name, cells in sorted(self.shipped_dis.items()):
            std, cname, r, text = cells[0]
            also = ["also-failing-cells=" + " ".join("%s/c++%d" % (c, s) for s, c, _, _ in cells[1:])] if len(cells) > 1 else []
            self.write_fail("shipped", std, cname, "fails to compile with a diagnostic matching /%s/" % r["regex"], r["got"], text, ["file=%s" % name] + also)
        for (mode, _), cells in sorted(self.macro_dis.items()):
            exp = ("every macro defined by a file under the include root starts with TROMPELOEIL_ (-DTROMPELOEIL_LONG_MACROS)" if mode == "long"
                   else "every documented short macro is defined")
            m = re.search(r"\(([^():]+):\d+\)", cells[0][3]["got"])
            own = [c for c in cells if m and c[0] == m.group(1)]
            header, std, cname, r = (own or cells)[0]
            rest = [c for c in cells if c is not (own or cells)[0]]
            also = ["also-failing-cells=" + " ".join(sorted({"%s:%s/c++%d" % (h, c, s) for h, s, c, _ in rest}))[:1500]] if rest else []
            self.write_fail("macro", std, cname, exp, r["got"], header + "\n", ["mode=%s" % mode] + also, MARK_HEADER)

    # ---------------------------------------------------------------- part (c)
    def group_plan(self):
        rows = self.rules.ROW_IDS
        if self.tier == "thorough":
            plan = [("legal", 1000), ("pairs", 100000), ("families", 100000), ("limits", 100000), ("arity", 100000), ("returns", 100000)] + [("row:" + r, 30) for r in rows] + [("free", 700)]
        else:
            plan = [("legal", 75), ("pairs", 100000), ("families", 100000), ("limits", 100000), ("arity", 100000), ("returns", 100000)] + [("row:" + r, 3) for r in rows] + [("free", 40)]
        return plan

    def hyp_settings(self, n, shrink):
        from hypothesis import settings, HealthCheck, Phase, Verbosity
        return settings(database=None, deadline=None, max_examples=n, report_multiple_bugs=False, derandomize=False,
                        suppress_health_check=list(HealthCheck), verbosity=Verbosity.quiet,
                        phases=[Phase.generate, Phase.shrink] if shrink else [Phase.generate])

    def collect(self, group, n, seed):
        if group == "families":
            return self.gen.legal_family_programs()
        if group == "returns":
            return self.gen.legal_return_programs()
        if group == "arity":
            return self.gen.arity_programs()
        if group == "limits":
            # deterministic, misuse only: the quick tier runs one representative per class, the thorough tier every spelling
            return self.gen.limit_pair_programs(core=self.tier != "thorough")
        if group == "pairs":
            # deterministic enumeration of ordered legal clause pairs; the quick tier takes a window that rotates with the seed
            allp = self.gen.legal_pair_programs()
            if n >= len(allp):
                return allp
            off = (seed * 37) % len(allp)
            return [allp[(off + i) % len(allp)] for i in range(n)]
        import hypothesis
        from hypothesis import given
        out = []
        @hypothesis.seed(seed)
        @self.hyp_settings(n, False)
        @given(self.gen.strategy(group))
        def run(p):
            out.append(p)
        run()
        return out

    def cells_for(self, p):
        return [(c, s) for s in self.rules.applicable_stds(p) for c in self.tools]

    def pch_for(self, cname, std, long_):
        return self.pch.get((cname, std, bool(long_)))

    def compile_job(self, programs, cname, std, use_pch, jid):
        text = self.gen.render_tu(programs)
        flags = self.gen.flags_for(programs)
        long_ = bool(flags)
        return dict(what="compile", id=jid, text=text, path=self.scratch(), compiler=self.tools[cname][0], std=std, flags=flags, inc=self.inc,
                    pch=self.pch_for(cname, std, long_) if use_pch else None)

    def wants_pch(self, p):
        mod = 16 if self.tier == "thorough" else 8
        return fnv1a(self.gen.render_body(p, "p0")) % mod != 0

    def judge(self, p, r):
        """compare one single-program compile result with the oracle -> (agree, expected text, got text)"""
        want, msgs, rows, cat = self.rules.expectation(p)
        if r["rc"] in (-9, None) or "internal compiler error" in (r["err"] or ""):
            return None, "", "compiler did not finish: " + first_errors(r["err"] or "")
        if want == "compile":
            if r["rc"] == 0:
                return True, "compile", ""
            return False, "compile", "failed to compile: " + first_errors(r["err"])
        exp = "fail-with-one-of: " + " || ".join(msgs)
        if r["rc"] == 0:
            return False, exp, "compiled (exit 0)"
        if any(has_message(r["err"], m) for m in msgs):
            return True, exp, ""
        return False, exp, "failed to compile without the documented message; first errors: " + first_errors(r["err"])

    def run_generated(self, programs_by_group):
        """compile everything, return list of disagreements [(program, group, compiler, std, expected, got)]"""
        rules = self.rules
        seen = {}
        order = []
        for g, ps in programs_by_group:
            for p in ps:
                want, msgs, rows, cat = rules.expectation(p)
                self.label("gen/programs")
                self.label("gen/category/" + cat)
                self.label("gen/group/" + (g if not g.startswith("row:") else "row-targeted"))
                self.label("gen/family/" + p.family)
                self.label("gen/kind/" + p.kind)
                self.label("gen/clauses/%d" % len(p.clauses))
                if p.opt("long_macros"):
                    self.label("gen/long_macros")
                for r in rows:
                    self.label("row/%s/%s" % (r, cat))
                if len(p.clauses) >= 2:
                    self.nontrivial(p.identity(), p.describe())
                if p not in seen:
                    seen[p] = g
                    order.append(p)
                else:
                    self.label("gen/duplicate-of-earlier-program")
        futures = []     # (future, job, programs)
        legal_groups = {}
        for p in order:
            want, msgs, rows, cat = rules.expectation(p)
            if want == "compile":
                key = (rules.applicable_stds(p), p.opt("long_macros"), self.wants_pch(p))
                legal_groups.setdefault(key, []).append(p)
            else:
                cells = self.cells_for(p)
                if seen[p] == "arity" and self.tier != "thorough":
                    # one entry of the macro table per program: the same for every compiler and level; one cell, rotating
                    cells = [cells[(fnv1a(p.describe()) + self.seed) % len(cells)]]
                for cname, std in cells:
                    job = self.compile_job([p], cname, std, self.wants_pch(p), ("neg", cname, std))
                    futures.append((self.submit(job), job, [p]))
        for (stds, long_, pch), ps in legal_groups.items():
            for i in range(0, len(ps), BATCH):
                chunk = ps[i:i + BATCH]
                for std in stds:
                    for cname in self.tools:
                        job = self.compile_job(chunk, cname, std, pch, ("legal", cname, std))
                        futures.append((self.submit(job), job, chunk))
        disagreements = []
        pending = futures
        while pending:
            nxt = []
            for fut, job, ps in pending:
                r = fut.result()
                kind, cname, std = job["id"]
                if r.get("crashed"):
                    self.harness_error = True
                    self.inconclusive.append("generated: worker crashed: " + r["err"][-300:])
                    continue
                self.label("gen/compiles/%s/c++%d/%s" % (cname, std, "pch" if r.get("used_pch") else "plain"))
                if kind == "legal" and len(ps) > 1:
                    if r["rc"] == 0:
                        for p in ps:
                            self.account(p, cname, std, True)
                        continue
                    if r["rc"] == -9 or "internal compiler error" in r["err"]:
                        self.inconclusive.append("legal batch %s c++%d: compiler did not finish" % (cname, std))
                        continue
                    half = len(ps) // 2
                    self.label("gen/bisect-steps")
                    for part in (ps[:half], ps[half:]):
                        j = self.compile_job(part, cname, std, job.get("pch") is not None, ("legal", cname, std))
                        nxt.append((self.submit(j), j, part))
                    continue
                p = ps[0]
                agree, exp, got = self.judge(p, r)
                if agree is None:
                    self.inconclusive.append("%s %s c++%d: %s" % (p.describe(), cname, std, got))
                    continue
                if not agree and r.get("used_pch"):
                    j = self.compile_job([p], cname, std, False, (kind, cname, std))     # never report on the strength of a PCH build
                    nxt.append((self.submit(j), j, [p]))
                    self.label("gen/recheck-without-pch")
                    continue
                self.account(p, cname, std, agree)
                if not agree:
                    disagreements.append((p, seen[p], cname, std, exp, got))
            pending = nxt
        return disagreements

    def account(self, p, cname, std, agree):
        want, msgs, rows, cat = self.rules.expectation(p)
        self.evaluations += 1
        self.cache[(p, cname, std)] = agree
        self.label("gen/%s/%s/c++%d" % (cat, cname, std))
        for r in rows:
            self.label("row-cells/" + r)

    def single_check(self, p, cname, std):
        """synchronous: one program, one cell, plain compile (no PCH)"""
        job = self.compile_job([p], cname, std, False, ("one", cname, std))
        r = self.submit(job).result()
        return self.judge(p, r)

    def shrink(self, group, n, seed, cname, std):
        """re-run the group's Hypothesis test with the real check in the failing cell; Hypothesis shrinks; returns minimal failing program"""
        import hypothesis
        from hypothesis import given
        last = {}
        budget = {"compiles": 0}
        @hypothesis.seed(seed)
        @self.hyp_settings(n, True)
        @given(self.gen.strategy(group))
        def run(p):
            if (cname, std) not in self.cells_for(p):
                return
            agree = self.cache.get((p, cname, std))
            if agree is None:
                if budget["compiles"] >= 400:
                    return
                budget["compiles"] += 1
                agree, exp, got = self.single_check(p, cname, std)
                self.cache[(p, cname, std)] = agree
            if agree is False:
                last["p"] = p
                raise AssertionError("oracle disagreement")
        try:
            run()
        except AssertionError:
            pass
        except Exception as ex:      # Hypothesis wraps some failures (Flaky, ...): keep what we have
            self.notes.append("shrink: %s: %s" % (type(ex).__name__, str(ex)[:200]))
        return last.get("p")

    def report_generated(self, p, cname, std, exp, got, shrunk, group):
        want, msgs, rows, cat = self.rules.expectation(p)
        body = self.gen.render_tu([p])
        extra = ["category=%s rows=%s" % (cat, ",".join(rows) or "-"), "program=%s" % p.describe(), "group=%s shrunk=%s" % (group, "yes" if shrunk else "no")]
        fl = self.gen.flags_for([p])
        if fl:
            extra.append("flags=" + " ".join(fl))
        self.write_fail("generated", std, cname, exp, got, body, extra)

    # ---------------------------------------------------------------- driver
    def build_pch_jobs(self):
        jobs = []
        for cname, (cpath, _) in self.tools.items():
            for std in STDS:
                for long_ in (False, True):
                    if cname == "g++":
                        d = os.path.join(self.tmp, "pch-g++-%d-%d" % (std, long_))
                        out, handle = os.path.join(d, "trompeloeil.hpp.gch"), ("gcc", d)
                    else:
                        out = os.path.join(self.tmp, "pch-clang-%d-%d.pch" % (std, long_))
                        handle = ("clang", out)
                    jobs.append((dict(what="pch", id=(cname, std, long_), compiler=cpath, kind=handle[0], std=std,
                                      flags=["-DTROMPELOEIL_LONG_MACROS"] if long_ else [], inc=self.inc, out=out), handle))
        return jobs

    def generate(self):
        t0 = time.time()
        self.gen.self_check()
        self.pool = ProcessPoolExecutor(max_workers=POOL)
        # PCHs first (the generated part waits for them), then parts (a) and (b) fill the pool meanwhile
        pch_futs = [(self.submit(j), j, h) for j, h in self.build_pch_jobs()] if "c" in self.a.parts and not self.a.no_pch else []
        sj = self.shipped_jobs() if "a" in self.a.parts else []
        mj = self.macro_jobs() if "b" in self.a.parts else []
        other = [(self.submit(j), j) for j in mj + sj]
        plan = self.group_plan() if "c" in self.a.parts else []
        keep = [x for x in self.a.groups.split(",") if x]
        groups = []
        for idx, (g, n) in enumerate(plan):
            if keep and g not in keep:
                continue
            groups.append((g, self.a.examples or n, derive_seed(self.seed, idx + 1)))
        t1 = time.time()
        collected = [(g, self.collect(g, n, s)) for g, n, s in groups]
        self.log("generated %d programs in %.1fs" % (sum(len(ps) for _, ps in collected), time.time() - t1))
        for fut, j, handle in pch_futs:
            r = fut.result()
            if r.get("rc") == 0:
                self.pch[j["id"]] = handle
            else:
                self.notes.append("no precompiled header for %s c++%d long=%s (plain compiles instead): %s" % (j["id"][0], j["id"][1], j["id"][2], (r.get("err") or "")[-200:]))
        dis = self.run_generated(collected)
        self.log("generated part done at %.1fs, %d disagreement(s)" % (time.time() - t0, len(dis)))
        for fut, j in other:
            r = fut.result()
            (self.macro_result if j["what"] == "macro" else self.shipped_result)(j, r)
        self.report_grouped()
        self.log("shipped + macro parts done at %.1fs" % (time.time() - t0))
        # generated disagreements: the first one is shrunk by Hypothesis, further distinct ones are reported as they are
        if dis:
            seeds = {g: (n, s) for g, n, s in groups}
            p, g, cname, std, exp, got = dis[0]
            n, s = seeds[g]
            # enumerated pair programs are minimal already (two clauses): nothing to shrink
            m = p if g in ("pairs", "families", "limits", "arity", "returns") else self.shrink(g, n, s, cname, std)
            done = set()
            if m is not None:
                agree, exp2, got2 = self.single_check(m, cname, std)
                if agree is False:
                    self.report_generated(m, cname, std, exp2, got2, True, g)
                    done.add(self.sig(p, cname, std))
                    done.add(self.sig(m, cname, std))
            for p, g, cname, std, exp, got in dis:
                k = self.sig(p, cname, std)
                if k in done or len(self.violations) >= 12:
                    continue
                done.add(k)
                self.report_generated(p, cname, std, exp, got, False, g)
        self.pool.shutdown()

    def sig(self, p, cname, std):
        want, msgs, rows, cat = self.rules.expectation(p)
        return (cat, tuple(rows), cname)

    def write_json(self, wall):
        doc = dict(
            evaluations=self.evaluations, distinct_nontrivial=len(self.hashes), exhaustive=False,
            rule=("engine K: (a) every shipped compilation_errors/*.cpp with its own pass/exception rules, (b) macro dump per header x std x compiler "
                  "(each cell one case), (c) Hypothesis-generated programs = signature kind x macro family x clause sequence (length <= 6, any order) "
                  "+ structural options, judged by rules.py (legal => compiles on g++ and clang++ at every applicable -std; single fault => fails with "
                  "that row's documented message; several faults => fails with at least one of them). non-trivial (C19): a generated program with >= 2 "
                  "clauses, distinct by (signature kind, family, clause sequence) [FNV-1a]; each shipped negative and each macro-dump cell counts as one case."),
            labels=dict(sorted(self.labels.items())), samples=self.samples or ["(no generated case in this run)"],
            assumptions=["only the documented message substring is matched, never the compiler's formatting",
                         "generated programs are compiled against a precompiled trompeloeil.hpp built from $VERIF_REPO/include at the start of the run; "
                         "a deterministic 1/8 (quick) or 1/16 (thorough) sample is compiled the plain way, and a disagreement seen with a precompiled "
                         "header is re-checked with a plain compile before it counts",
                         "shipped negatives: exception rules are evaluated like verify_compilation_error.sh against '{$RUNNER_OS} $CXX -std=c++NN' with "
                         "CXX = g++-<major> / clang++-<major>; in addition to the regex the compile must fail",
                         "a macro that a library header defines and #undefs again before the end of the translation unit is not counted as leaked",
                         "coroutine programs and programs using CO_ clauses are only inside the domain at -std=c++20"],
            violations=[dict(replay=p, message=m) for p, m in self.violations], known_findings=[],
            x_exhaustive_subscopes=["macro namespace: every public header x std x compiler"], x_wall_s=round(wall, 1),
            x_notes=self.notes, x_inconclusive=self.inconclusive)
        if self.a.out:
            tmp = self.a.out + ".tmp"
            with open(tmp, "w") as f:
                json.dump(doc, f, indent=1)
            os.replace(tmp, self.a.out)
            with open(self.a.out + ".hashes", "wb") as f:
                for h in sorted(self.hashes):
                    f.write(struct.pack("<Q", h))
        return doc

    def cleanup(self):
        try:
            if self.pool:
                self.pool.shutdown(wait=True, cancel_futures=True)
        except Exception:
            pass
        shutil.rmtree(self.tmp, ignore_errors=True)

    # ---------------------------------------------------------------- replay
    def replay(self, path, verbose):
        text = open(path, errors="replace").read()
        lines = text.splitlines()
        if not lines or "engine=K" not in lines[0]:
            print("not an engine K replay file: " + path)
            return 2
        head = {}
        body_at = None
        marker = None
        for i, l in enumerate(lines):
            if l in (MARK_PROGRAM, MARK_HEADER):
                body_at, marker = i + 1, l
                break
            m = re.match(r"^# (expected|got): (.*)$", l)
            if m:
                head[m.group(1)] = m.group(2)
            elif i == 1:
                for kv in l[2:].split():
                    if "=" in kv:
                        head[kv.split("=", 1)[0]] = kv.split("=", 1)[1]
            else:
                m = re.match(r"^# (\w+)=(.*)$", l)
                if m:
                    head.setdefault(m.group(1), m.group(2).strip())
        if body_at is None or not {"kind", "std", "compiler", "expected"} <= set(head):
            print("malformed replay file: " + path)
            return 2
        body = "\n".join(lines[body_at:]) + "\n"
        kind, std, cname = head["kind"], int(head["std"]), head["compiler"]
        if cname not in self.tools:
            print("unknown compiler " + cname)
            return 2
        cpath, cxx_name = self.tools[cname]
        self.pool = ProcessPoolExecutor(max_workers=1)
        if kind == "shipped":
            r = self.submit(dict(what="shipped", id=0, text=body, path=self.scratch(), compiler=cpath, cxx_name=cxx_name, std=std, inc=self.inc)).result()
            bad = r["status"] == "disagree"
            got = r["got"] if bad else r["status"]
        elif kind == "macro":
            header = body.strip().splitlines()[0].strip()
            mode = head.get("mode", "long")
            want = list(self.rules.DOCUMENTED_SHORT_MACROS) + (self.rules.DOCUMENTED_SHORT_MACROS_CXX20 if std >= 20 else [])
            r = self.submit(dict(what="macro", id=0, compiler=cpath, std=std, inc=self.inc, header=header, mode=mode, want=want)).result()
            if r["status"] == "error":
                print("harness error: " + r["got"])
                return 2
            bad = r["status"] == "disagree"
            got = r["got"] if bad else r["status"]
        elif kind == "generated":
            flags = head.get("flags", "").split()
            r = self.submit(dict(what="compile", id=0, text=body, path=self.scratch(), compiler=cpath, std=std, flags=flags, inc=self.inc, pch=None)).result()
            exp = head["expected"]
            if r["rc"] in (-9, None):
                print("inconclusive: compiler did not finish")
                return 2
            if exp.startswith("compile"):
                bad = r["rc"] != 0
                got = "failed to compile: " + first_errors(r["err"]) if bad else "compiles"
            else:
                msgs = [m.strip() for m in exp.split(":", 1)[1].split("||")]
                if r["rc"] == 0:
                    bad, got = True, "compiled (exit 0)"
                elif any(has_message(r["err"], m) for m in msgs):
                    bad, got = False, "fails with a documented message"
                else:
                    bad, got = True, "failed to compile without the documented message; first errors: " + first_errors(r["err"])
        else:
            print("unknown kind " + kind)
            return 2
        if verbose or not self.a.quiet:
            print("replay %s: kind=%s compiler=%s -std=c++%d include=%s" % (os.path.basename(path), kind, cname, std, self.inc))
            print("  expected: " + head["expected"])
            print("  got now : " + got)
            if verbose:
                print(body)
        if bad:
            print("C19 disagreement reproduced: %s c++%d %s: expected %s; got %s" % (kind, std, cname, head["expected"], got))
            return 1
        return 0

def main(argv):
    ap = argparse.ArgumentParser()
    ap.add_argument("--prop", default="C19")
    ap.add_argument("--tier", default="quick", choices=["quick", "thorough"])
    ap.add_argument("--seed", default="1")
    ap.add_argument("--out", default="")
    ap.add_argument("--faildir", default=os.path.join(os.path.dirname(os.path.dirname(HERE)), "build", "run", "C19"))
    ap.add_argument("--replay")
    ap.add_argument("--quiet", action="store_true")
    ap.add_argument("--verbose", action="store_true")
    # development / sensitivity switches (bin/check never passes them)
    ap.add_argument("--parts", default="abc", help="subset of parts to run: a shipped, b macro, c generated")
    ap.add_argument("--groups", default="", help="comma separated generated groups to keep (legal, free, row:Rxx)")
    ap.add_argument("--no-pch", action="store_true")
    ap.add_argument("--examples", type=int, default=0, help="override the number of examples per kept group")
    a, unknown = ap.parse_known_args(argv)
    if a.prop != "C19" and not a.replay:
        # generation is for C19; compile-level regression inputs of other properties (C10, C11, C20) may be replayed
        print("engine K generates for property C19 only")
        return 2
    try:
        a.seed = int(a.seed)
    except ValueError:
        a.seed = 1
    e = Engine(a)
    t0 = time.time()
    try:
        if a.replay:
            return e.replay(a.replay, a.verbose)
        e.generate()
        doc = e.write_json(time.time() - t0)
        for n in e.notes:
            e.log("note: " + n)
        for n in e.inconclusive:
            e.log("inconclusive: " + n)
        e.log("engine K %s seed=%d: evaluations=%d distinct_nontrivial=%d violations=%d wall=%.1fs" % (
            a.tier, a.seed, doc["evaluations"], doc["distinct_nontrivial"], len(e.violations), time.time() - t0))
        if e.violations:
            return 1
        return 3 if e.harness_error else 0
    finally:
        e.cleanup()

if __name__ == "__main__":
    try:
        rc = main(sys.argv[1:])
    except SystemExit:
        raise
    except BaseException:
        traceback.print_exc()
        rc = 2
    sys.exit(rc)

"""Engine K oracle: (signature kind, macro family, clause list, structural options) -> must-compile | must-fail-with-one-of{messages}.

Written from DESIGN.md Appendix A, docs/reference.md and the static_assert conditions in
include/trompeloeil/mock.hpp (call_modifier::in_sequence, sideeffect, handle_return, handle_throw, times,
runtime_times, call_validator_t::operator+, illegal_argument, wildcard, TROMPELOEIL_MAKE_MOCK_CHECKED,
expectations<false,Sig>), lifetime.hpp (deathwatched, lifetime_monitor_modifier::in_sequence),
coro.hpp (handle_co_yield, handle_co_return, handle_co_throw), matcher.hpp (typed_matcher, duck_typed_matcher)
and matcher/any.hpp (any_matcher).

The state carried left to right mirrors the compile-time state the library carries in the type of the
expectation under construction (matcher_info + injectors); a clause that violates a row still has its documented
effect on the state, exactly as the library's injectors do, so that several faults in one statement are predicted
independently of each other.

This module does no random choice and does not know how a clause is spelled; gen_compile.py renders.
"""
from collections import namedtuple

INF = 1 << 62

# ----------------------------------------------------------------------------------------------------------------
# rule rows: id -> (short label, documented message substring)
ROWS = {
    "R01": ("SIDE_EFFECT when upper0", "SIDE_EFFECT for forbidden call does not make sense"),
    "R02": ("RETURN in coroutine", "Do not use RETURN from a coroutine, use CO_RETURN"),
    "R03": ("RETURN in void function", "RETURN does not make sense for void-function"),
    "R04": ("RETURN after RETURN", "Multiple RETURN does not make sense"),
    "R05": ("RETURN after THROW", "THROW and RETURN does not make sense"),
    "R06": ("RETURN when upper0", "RETURN for forbidden call does not make sense"),
    "R07": ("RETURN not convertible", "RETURN value is not convertible to the return type of the function"),
    "R08": ("RETURN prvalue for T&", "RETURN non-reference from function returning reference"),
    "R09": ("RETURN T const& for T&", "RETURN const& from function returning non-const reference"),
    "R10": ("RETURN T const* for T*", "RETURN const* from function returning pointer to non-const"),
    "R11": ("_k beyond arity", "illegal argument"),
    "R12": ("THROW after THROW", "Multiple THROW does not make sense"),
    "R13": ("THROW after RETURN", "THROW and RETURN does not make sense"),
    "R14": ("THROW when upper0", "THROW for forbidden call does not make sense"),
    "R15": ("THROW in coroutine", "Do not use THROW from a coroutine, use CO_THROW"),
    "R16": ("TIMES when limit set", "Only one TIMES call limit is allowed, but it can express an interval"),
    "R17": ("TIMES(L,H) H<L", "In TIMES the first value must not exceed the second"),
    "R18a": ("TIMES(0) after RETURN", "RETURN and TIMES(0) does not make sense"),
    "R18b": ("TIMES(0) after THROW", "THROW and TIMES(0) does not make sense"),
    "R18c": ("TIMES(0) after SIDE_EFFECT", "SIDE_EFFECT and TIMES(0) does not make sense"),
    "R18d": ("TIMES(0) after IN_SEQUENCE", "IN_SEQUENCE and TIMES(0) does not make sense"),
    "R19": ("RT_TIMES when limit set", "Only one RT_TIMES call limit is allowed, but it can express an interval"),
    "R20": ("IN_SEQUENCE after IN_SEQUENCE", "Multiple IN_SEQUENCE does not make sense. You can list several sequence"),
    "R21": ("IN_SEQUENCE when upper0", "IN_SEQUENCE for forbidden call does not make sense"),
    "R22": ("RETURN missing", "RETURN missing for non-void function"),
    "R23": ("CO_RETURN missing", "CO_RETURN missing for coroutine"),
    "R24a": ("CO_RETURN in normal function", "CO_RETURN when return type is not a coroutine"),
    "R24d": ("CO_RETURN after RETURN in normal function", "CO_RETURN and RETURN cannot be combined"),
    "R24b": ("CO_YIELD in normal function", "CO_YIELD when return type is not a coroutine"),
    "R24c": ("CO_THROW in normal function", "Do not use CO_THROW from a normal function, use THROW"),
    "R25a": ("CO_RETURN after CO_RETURN", "Multiple CO_RETURN does not make sense"),
    "R25b": ("CO_RETURN after CO_THROW", "CO_THROW and CO_RETURN does not make sense"),
    "R25c": ("CO_RETURN when upper0", "CO_RETURN for forbidden call does not make sense"),
    "R25d": ("CO_RETURN type mismatch", "Expression type does not match the coroutine promise type"),
    "R26a": ("CO_THROW after CO_THROW", "Multiple CO_THROW does not make sense"),
    "R26b": ("CO_THROW after CO_RETURN", "CO_THROW and CO_RETURN does not make sense"),
    "R26c": ("CO_THROW when upper0", "CO_THROW for forbidden call does not make sense"),
    "R27a": ("CO_YIELD void", "You cannot CO_YIELD void"),
    "R27b": ("CO_YIELD not accepted by promise", "CO_YIELD is incompatible with the promise type"),
    "R28": ("MAKE_MOCKn n != arity", "Function signature does not have %d parameters"),
    "R29": ("move of non-movable mock", "make a mock object movable, see:"),
    "R30": ("deathwatched without virtual destructor", "virtual destructor is a necessity for deathwatched to work"),
    "R31a": ("value from wildcard", "value from wildcard"),
    "R31b": ("value from typed matcher", "value from a typed matcher"),
    "R31c": ("value from duck typed matcher", "value from a duck typed matcher"),
    "R32": ("ANY(T[N])", "array parameter type decays to pointer type for ANY"),
}
ROW_IDS = list(ROWS)

Fault = namedtuple("Fault", "row message")

def _fault(row, *fmt):
    msg = ROWS[row][1]
    if fmt:
        msg = msg % fmt
    return Fault(row, msg)

# ----------------------------------------------------------------------------------------------------------------
# signature kinds.  ret: void | value | ref | cref | ptr | coro ; params: list of parameter type classes
Kind = namedtuple("Kind", "name ret params coro")
KINDS = {
    "void_int":  Kind("void_int", "void", ("int",), None),
    "int_int":   Kind("int_int", "value", ("int",), None),
    "int_int2":  Kind("int_int2", "value", ("int", "int"), None),
    "intref":    Kind("intref", "ref", ("intref",), None),
    "cintref":   Kind("cintref", "cref", ("cintref",), None),
    "intptr":    Kind("intptr", "ptr", ("intptr",), None),
    "task_int":  Kind("task_int", "coro", ("int",), "task_int"),     # promise: return_value(int), no yield_value
    "task_void": Kind("task_void", "coro", (), "task_void"),         # promise: return_void(), no yield_value
    "gen_int":   Kind("gen_int", "coro", ("int",), "gen_int"),       # promise: yield_value(int) + return_value(int)
}
KIND_NAMES = list(KINDS)
COROUTINE_KINDS = [k for k, v in KINDS.items() if v.coro]
NORMAL_KINDS = [k for k, v in KINDS.items() if not v.coro]

def arity(kind):
    return len(KINDS[kind].params)

FAMILIES = ["REQUIRE_CALL", "ALLOW_CALL", "FORBID_CALL", "NAMED_REQUIRE_CALL", "NAMED_ALLOW_CALL", "NAMED_FORBID_CALL",
            "REQUIRE_DESTRUCTION", "NAMED_REQUIRE_DESTRUCTION"]
CALL_FAMILIES = FAMILIES[:6]
DESTRUCTION_FAMILIES = FAMILIES[6:]

def family_base(family):
    f = family[6:] if family.startswith("NAMED_") else family
    return f

# ----------------------------------------------------------------------------------------------------------------
# clause variants and their meaning.  A clause is (op, variant); variant is a string, or a tuple for TIMES/RT_TIMES.
#
# RETURN expression classes relative to the signature kind
#   ok | nonconv (R07) | nonref (R08) | constref (R09) | constptr (R10) | ill (R11) | wild (R31a) | typed (R31b) | duck (R31c)
RETURN_CLASS = {
    # variant -> class, per return category of the kind.  Absent = this generator never writes that pair.
    "value": {"lit": "ok", "a1": "ok", "a1p": "ok", "lvc": "ok", "gv": "ok", "str": "nonconv", "nul": "nonconv",
              "wild": "wild", "typed": "typed", "duck": "duck"},
    "ref":   {"a1": "ok", "gv": "ok", "pgv": "ok", "sref": "ok", "lit": "nonref", "lvc": "constref", "gc": "constref",
              "wild": "wild", "duck": "duck"},
    "cref":  {"a1": "ok", "gv": "ok", "pgv": "ok", "gc": "ok"},     # pgv: a parenthesised non-const lvalue, i.e. an int& expression
    "ptr":   {"a1": "ok", "nul": "ok", "gvp": "ok", "gcp": "constptr", "lvp": "constptr", "lit": "nonconv"},
    "void":  {"lit": "ok", "a1": "ok"},     # class irrelevant: R03 fires, the type rows are switched off for void
    "coro":  {"lit": "ok"},                 # class irrelevant: R02 fires, every other RETURN row is switched off
}
LR_RETURN_CLASS = {
    "value": {"lv": "ok", "a1": "ok"},
    "ref":   {"lv": "ok", "plv": "ok", "lvref": "ok", "a1": "ok"},
    "cref":  {"lv": "ok", "plv": "ok", "a1": "ok"},       # plv: LR_RETURN((lv)), the CookBook's way to return a reference to a local
    "ptr":   {"lvp": "ok", "a1": "ok"},
    "void":  {"lv": "ok"},
    "coro":  {"lv": "ok"},
}
# CO_RETURN expression classes per coroutine flavour: ok | mismatch (R25d)
CO_RETURN_CLASS = {
    "task_int":  {"lit": "ok", "a1": "ok", "void": "mismatch", "str": "mismatch"},
    "gen_int":   {"lit": "ok", "a1": "ok", "void": "mismatch", "str": "mismatch"},
    "task_void": {"void": "ok", "lit": "mismatch"},
    None:        {"lit": "ok", "void": "ok"},       # normal function: R24a fires, type row switched off
}
LR_CO_RETURN_CLASS = {
    "task_int": {"lv": "ok"}, "gen_int": {"lv": "ok"}, "task_void": {"lv": "mismatch"}, None: {"lv": "ok"},
}
# CO_YIELD expression classes: ok | void (R27a) | incompat (R27b)
CO_YIELD_CLASS = {
    "task_int":  {"lit": "incompat", "void": "void"},
    "task_void": {"lit": "incompat", "void": "void"},
    "gen_int":   {"lit": "ok", "a1": "ok", "str": "incompat", "void": "void"},
    None:        {"lit": "ok"},                      # normal function: R24b fires, the other rows are switched off
}
LR_CO_YIELD_CLASS = {"task_int": {"lv": "incompat"}, "task_void": {"lv": "incompat"}, "gen_int": {"lv": "ok"}, None: {"lv": "ok"}}

ILL_FORMS = ("conv", "addr", "deref", "assign")   # the documented use-forms of _k beyond arity (RETURN(_k) is the fifth)

def ill_k(variant):
    """'ill_<form>:<k>' -> k, else None"""
    if isinstance(variant, str) and variant.startswith("ill_"):
        return int(variant.split(":")[1])
    return None

def times_bounds(variant):
    """TIMES variant -> (L, H)"""
    t = variant[0]
    if t == "n":
        return variant[1], variant[1]
    if t == "r":
        return variant[1], variant[2]
    if t == "atleast":
        return variant[1], INF
    if t == "atmost":
        return 0, variant[1]
    raise ValueError(variant)

def uses_coroutine_feature(kind, clauses):
    return bool(KINDS[kind].coro) or any(op.replace("LR_", "").startswith("CO_") for op, _ in clauses)

# ----------------------------------------------------------------------------------------------------------------
class State:
    __slots__ = ("limit_set", "upper", "seq", "throws", "effects", "ret", "coret")
    def __init__(self, family):
        base = family_base(family)
        self.limit_set = base in ("ALLOW_CALL", "FORBID_CALL")         # ALLOW = .TIMES(0,inf), FORBID = .TIMES(0)
        self.upper = {"REQUIRE_CALL": 1, "ALLOW_CALL": INF, "FORBID_CALL": 0}.get(base, 1)
        self.seq = self.throws = self.effects = self.ret = self.coret = False

def eval_clauses(kind, family, clauses):
    """Faults of an expectation statement, in clause order, end-of-statement rows last."""
    K = KINDS[kind]
    faults = []
    add = lambda row, *fmt: faults.append(_fault(row, *fmt))
    if family in DESTRUCTION_FAMILIES:
        seq = False
        for op, v in clauses:
            if op != "IN_SEQUENCE":
                raise ValueError("only IN_SEQUENCE may follow REQUIRE_DESTRUCTION in generated programs")
            if seq:
                add("R20")
            seq = True
        return faults
    s = State(family)
    coro = bool(K.coro)
    void = K.ret == "void"
    n = len(K.params)
    for op, v in clauses:
        k = ill_k(v)
        if k is not None and k <= n:
            raise ValueError("ill_ variant with k <= arity")
        if op in ("WITH", "LR_WITH"):
            if k:
                add("R11")
        elif op in ("SIDE_EFFECT", "LR_SIDE_EFFECT"):
            if s.upper == 0:
                add("R01")
            if k:
                add("R11")
            s.effects = True
        elif op in ("RETURN", "LR_RETURN"):
            if coro:
                add("R02")
            else:
                if k:
                    cls = "ill"
                else:
                    cls = (RETURN_CLASS if op == "RETURN" else LR_RETURN_CLASS)[K.ret][v]
                if void:
                    add("R03")
                else:
                    row = {"nonconv": "R07", "nonref": "R08", "constref": "R09", "constptr": "R10", "ill": "R11",
                           "wild": "R31a", "typed": "R31b", "duck": "R31c"}.get(cls)
                    if row:
                        add(row)
                if s.ret:
                    add("R04")
                if s.throws and s.upper != 0:
                    add("R05")
                if s.upper == 0:
                    add("R06")
            if not void:
                s.ret = True            # return_injector<sigret>: return_type stays void for a void function
        elif op in ("THROW", "LR_THROW"):
            if coro:
                add("R15")
            elif s.throws:
                add("R12")
            if s.ret:
                add("R13")
            if not coro and s.upper == 0:
                add("R14")
            s.throws = True
        elif op == "TIMES":
            L, H = times_bounds(v)
            if s.limit_set:
                add("R16")
            if H < L:
                add("R17")
            if H == 0:
                if s.throws:
                    add("R18b")
                if s.ret:
                    add("R18a")
                if s.effects:
                    add("R18c")
                if s.seq:
                    add("R18d")
            s.limit_set = True
            s.upper = H
        elif op == "RT_TIMES":
            if s.limit_set:
                add("R19")
            s.limit_set = True
            s.upper = INF
        elif op == "IN_SEQUENCE":
            if s.seq:
                add("R20")
            if s.upper == 0:
                add("R21")
            s.seq = True
        elif op in ("CO_RETURN", "LR_CO_RETURN"):
            cls = (CO_RETURN_CLASS if op == "CO_RETURN" else LR_CO_RETURN_CLASS)[K.coro][v]
            if not s.ret:
                if s.coret:
                    add("R25a")
                if not coro:
                    add("R24a")
                if not s.coret and coro and cls == "mismatch":
                    add("R25d")
            elif not coro:
                # CO_RETURN on an ordinary function that already has a RETURN: still a coroutine clause on an ordinary
                # function (C19). The library words it "CO_RETURN and RETURN cannot be combined" (header text only);
                # either that or the documented R24a text is accepted, silence is not.
                add("R24a")
                add("R24d")
            if s.throws and s.upper != 0:
                add("R25b")
            if s.upper == 0:
                add("R25c")
            if not void:
                s.coret = True
        elif op in ("CO_THROW", "LR_CO_THROW"):
            if not coro:
                add("R24c")
            else:
                if s.throws:
                    add("R26a")
                if s.coret:
                    add("R26b")
                if s.upper == 0:
                    add("R26c")
            s.throws = True
        elif op in ("CO_YIELD", "LR_CO_YIELD"):
            cls = (CO_YIELD_CLASS if op == "CO_YIELD" else LR_CO_YIELD_CLASS)[K.coro][v]
            if not coro:
                add("R24b")
            elif cls == "void":
                add("R27a")
            elif cls == "incompat":
                add("R27b")
        else:
            raise ValueError("unknown clause " + op)
    # end of statement: call_validator_t::operator+
    valid_return = s.ret or s.coret or void or s.upper == 0
    if not coro and not (valid_return or s.throws):
        add("R22")
    if coro and not (valid_return or s.throws):
        add("R23")
    return faults

# ----------------------------------------------------------------------------------------------------------------
# whole programs
DEFAULT_OPTS = dict(
    const_mock=False,     # MAKE_CONST_MOCKn on a const object
    mock_n=None,          # n of MAKE_MOCKn; None = arity
    movable=False,        # static constexpr bool trompeloeil_movable_mock = true
    move=False,           # the program move-constructs the mock object
    deathwatched=False,   # object is trompeloeil::deathwatched<M>
    virtual_dtor=False,   # M has a virtual destructor
    argm=None,            # tuple of argument matcher variants, one per parameter; None = wildcard
    long_macros=False,    # -DTROMPELOEIL_LONG_MACROS and TROMPELOEIL_ prefixed spelling
    dependent=False,      # the expectation is written in a function template whose parameter is the mock object (dependent type)
    vform=False,          # the variadic spelling FAMILY_V(obj, call, .CLAUSE(..) .CLAUSE(..)) (docs/Backward.md; valid at every level)
)

ARG_MATCHERS = {
    # parameter class -> {variant: fault row or None}
    "int":     {"wild": None, "any": None, "val": None, "gt": None, "ne": None},
    "intref":  {"wild": None, "any": None, "gt": None},
    "cintref": {"wild": None, "any": None, "val": None, "lt": None},
    "intptr":  {"wild": None, "any": None, "nul": None, "nenul": None, "anyarr": "R32"},
}

class Program(namedtuple("Program", "kind family clauses opts")):
    """opts: tuple of sorted (key, value) pairs that differ from DEFAULT_OPTS"""
    def opt(self, key):
        for k, v in self.opts:
            if k == key:
                return v
        return DEFAULT_OPTS[key]
    def identity(self):
        """distinctness key of the property's non-trivial rule"""
        return "%s|%s|%s" % (self.kind, self.family, ";".join("%s(%s)" % (op, fmt_variant(v)) for op, v in self.clauses))
    def describe(self):
        o = ",".join("%s=%s" % (k, fmt_variant(v)) for k, v in self.opts)
        return "%s %s %s%s" % (self.kind, self.family, " ".join(".%s(%s)" % (op, fmt_variant(v)) for op, v in self.clauses) or "(no clause)",
                               (" [" + o + "]") if o else "")

def fmt_variant(v):
    if isinstance(v, tuple):
        return ",".join(str(x) for x in v)
    return str(v)

def make_program(kind, family, clauses, **opts):
    for k in opts:
        if k not in DEFAULT_OPTS:
            raise KeyError(k)
    norm = []
    for k in sorted(opts):
        v = opts[k]
        if k == "mock_n" and v == arity(kind):
            v = None
        if k == "argm" and v is not None:
            v = tuple(v)
            if all(x == "wild" for x in v):
                v = None
        if v != DEFAULT_OPTS[k]:
            norm.append((k, v))
    return Program(kind, family, tuple((op, tuple(v) if isinstance(v, list) else v) for op, v in clauses), tuple(norm))

def evaluate(p):
    """All rule rows violated by the program (list of Fault)."""
    faults = []
    K = KINDS[p.kind]
    n = p.opt("mock_n")
    if n is not None and n != len(K.params):
        faults.append(_fault("R28", n))
    if p.opt("move") and not p.opt("movable"):
        faults.append(_fault("R29"))
    if p.family in DESTRUCTION_FAMILIES and not p.opt("deathwatched"):
        raise ValueError("REQUIRE_DESTRUCTION needs a deathwatched object")
    if p.opt("deathwatched") and not p.opt("virtual_dtor"):
        faults.append(_fault("R30"))
    argm = p.opt("argm")
    if argm is not None:
        if len(argm) != len(K.params):
            raise ValueError("argm length")
        for cls, m in zip(K.params, argm):
            row = ARG_MATCHERS[cls][m]
            if row:
                faults.append(_fault(row))
    faults += eval_clauses(p.kind, p.family, p.clauses)
    return faults

def expectation(p):
    """('compile', [], []) or ('fail', [messages], [rows]); category legal | single | multi"""
    f = evaluate(p)
    rows = []
    msgs = []
    for x in f:
        if x.row not in rows:
            rows.append(x.row)
        if x.message not in msgs:
            msgs.append(x.message)
    if not f:
        return "compile", [], [], "legal"
    return "fail", msgs, rows, ("single" if len(f) == 1 else "multi")

def applicable_stds(p):
    """language levels at which the program is inside the documented domain"""
    if uses_coroutine_feature(p.kind, p.clauses):
        return (20,)
    return (14, 17, 20)

DOCUMENTED_SHORT_MACROS = (
    ["REQUIRE_CALL", "ALLOW_CALL", "FORBID_CALL", "NAMED_REQUIRE_CALL", "NAMED_ALLOW_CALL", "NAMED_FORBID_CALL",
     "REQUIRE_CALL_V", "ALLOW_CALL_V", "FORBID_CALL_V", "NAMED_REQUIRE_CALL_V", "NAMED_ALLOW_CALL_V", "NAMED_FORBID_CALL_V",
     "WITH", "LR_WITH", "SIDE_EFFECT", "LR_SIDE_EFFECT", "RETURN", "LR_RETURN", "THROW", "LR_THROW",
     "TIMES", "RT_TIMES", "AT_LEAST", "AT_MOST", "IN_SEQUENCE", "ANY", "MEMBER_IS",
     "MAKE_MOCK", "MAKE_CONST_MOCK", "REQUIRE_DESTRUCTION", "NAMED_REQUIRE_DESTRUCTION"]
    + ["%s%d" % (m, i) for m in ("MAKE_MOCK", "MAKE_CONST_MOCK", "IMPLEMENT_MOCK", "IMPLEMENT_CONST_MOCK") for i in range(16)])
DOCUMENTED_SHORT_MACROS_CXX20 = ["CO_RETURN", "CO_YIELD", "CO_THROW", "LR_CO_RETURN", "LR_CO_YIELD", "LR_CO_THROW"]

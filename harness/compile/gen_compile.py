"""Engine K program generator: Hypothesis strategies producing rules.Program values, and the C++ renderer.

Every random choice is a Hypothesis draw.  Three strategy families:
  legal_programs()        constructive: clause multiset that no row of the rule table touches, in a drawn order
  single_fault(row)       a minimal core that violates exactly `row`, padded with further clauses; a padding clause
                          is kept only while rules.evaluate() still reports exactly that one row
  free_programs()         any clause from the whole alphabet (faulty variants included) in any order, length <= 6;
                          rules.evaluate() classifies the result (legal / single / multi)
The renderer writes one program into its own namespace so that legal programs can share a translation unit.
"""
import hypothesis.strategies as st

import rules
from rules import KINDS, CALL_FAMILIES, DESTRUCTION_FAMILIES, arity, make_program, evaluate

REQ = ["REQUIRE_CALL", "NAMED_REQUIRE_CALL"]
ALLOW = ["ALLOW_CALL", "NAMED_ALLOW_CALL"]
FORBID = ["FORBID_CALL", "NAMED_FORBID_CALL"]
RA = REQ + ALLOW
NORMAL = rules.NORMAL_KINDS
NONVOID = [k for k in NORMAL if KINDS[k].ret != "void"]
CORO = rules.COROUTINE_KINDS
ALLK = rules.KIND_NAMES
MAX_CLAUSES = 6

# ----------------------------------------------------------------------------------------------------------------
# variant tables (which spellings exist for a kind); classes live in rules.py
def _int_like(kind, i=0):
    p = KINDS[kind].params
    return len(p) > i and p[i] in ("int", "intref", "cintref")

def with_variants(kind, legal_only=True):
    out = [("WITH", "true"), ("LR_WITH", "lv")]
    n = arity(kind)
    if n >= 1:
        out += [("WITH", "a1ok"), ("WITH", "a1cmp")]
        if _int_like(kind):
            out.append(("LR_WITH", "a1lv"))
    if n >= 2:
        out.append(("WITH", "a2cmp"))
    if not legal_only:
        for k in ill_ks(kind):
            out += [("WITH", "ill_conv:%d" % k), ("WITH", "ill_addr:%d" % k), ("LR_WITH", "ill_conv:%d" % k)]
    return out

def side_variants(kind, legal_only=True):
    out = [("SIDE_EFFECT", "call"), ("LR_SIDE_EFFECT", "lvinc")]
    if arity(kind) >= 1:
        out.append(("SIDE_EFFECT", "a1"))
    if not legal_only:
        for k in ill_ks(kind):
            for form in rules.ILL_FORMS:
                out.append(("SIDE_EFFECT", "ill_%s:%d" % (form, k)))
            out.append(("LR_SIDE_EFFECT", "ill_assign:%d" % k))
    return out

def ill_ks(kind):
    n = arity(kind)
    return sorted({n + 1, min(15, n + 2), 15})

def return_variants(kind, classes=None, with_ill=False):
    """(op, variant) of RETURN / LR_RETURN for the kind, restricted to the expression classes given"""
    r = KINDS[kind].ret
    out = []
    for op, table in (("RETURN", rules.RETURN_CLASS), ("LR_RETURN", rules.LR_RETURN_CLASS)):
        for v, cls in table[r].items():
            if v.startswith("a1") and arity(kind) < 1:
                continue
            if classes is None or cls in classes:
                out.append((op, v))
    if with_ill and r not in ("void", "coro"):
        out += [("RETURN", "ill_ret:%d" % k) for k in ill_ks(kind)]
    return out

def throw_variants(kind=None):
    return [("THROW", "int"), ("THROW", "rt"), ("LR_THROW", "lv")]

def co_return_variants(kind, classes=None):
    c = KINDS[kind].coro
    out = []
    for op, table in (("CO_RETURN", rules.CO_RETURN_CLASS), ("LR_CO_RETURN", rules.LR_CO_RETURN_CLASS)):
        for v, cls in table[c].items():
            if v == "a1" and arity(kind) < 1:
                continue
            if v == "void" and not c and KINDS[kind].ret != "void":
                continue     # CO_RETURN() on a value-returning normal function: keep the lambda body trivially valid
            if classes is None or cls in classes:
                out.append((op, v))
    return out

def co_yield_variants(kind, classes=None):
    c = KINDS[kind].coro
    out = []
    for op, table in (("CO_YIELD", rules.CO_YIELD_CLASS), ("LR_CO_YIELD", rules.LR_CO_YIELD_CLASS)):
        for v, cls in table[c].items():
            if v == "a1" and arity(kind) < 1:
                continue
            if classes is None or cls in classes:
                out.append((op, v))
    return out

def co_throw_variants():
    return [("CO_THROW", "int"), ("CO_THROW", "rt"), ("LR_CO_THROW", "lv")]

TIMES_POS = [("n", 1), ("n", 2), ("n", 3), ("r", 0, 1), ("r", 1, 1), ("r", 1, 3), ("r", 2, 5), ("atleast", 0), ("atleast", 2), ("atmost", 1), ("atmost", 4)]
TIMES_ZERO = [("n", 0), ("r", 0, 0), ("atmost", 0)]
TIMES_INVERTED_POS = [("r", 2, 1), ("r", 3, 1), ("r", 5, 2)]
TIMES_INVERTED_ZERO = [("r", 1, 0), ("r", 3, 0)]
RT_TIMES_ALL = [("n", 0), ("n", 1), ("n", 3), ("r", 0, 2), ("r", 1, 3), ("atleast", 1), ("atmost", 2), ("var",)]
SEQ_ALL = [1, 2, 3]

def times_clauses(which):
    return [("TIMES", v) for v in which]

def seq_clauses():
    return [("IN_SEQUENCE", n) for n in SEQ_ALL]

def rt_clauses():
    return [("RT_TIMES", v) for v in RT_TIMES_ALL]

def legal_terminals(kind):
    """clauses that settle the return obligation of the kind (possibly none needed for void)"""
    K = KINDS[kind]
    if K.coro:
        return co_return_variants(kind, ("ok",)) + co_throw_variants()
    if K.ret == "void":
        return throw_variants()
    return return_variants(kind, ("ok",)) + throw_variants()

def arg_matcher_variants(cls, legal_only=True):
    return [v for v, row in rules.ARG_MATCHERS[cls].items() if not (legal_only and row)]

# ----------------------------------------------------------------------------------------------------------------
# strategies
def _pick(draw, seq):
    return draw(st.sampled_from(list(seq)))

def _rare(draw, n):
    """True with probability 1/(n+1); the simplest draw (what Hypothesis shrinks towards) is False"""
    return draw(st.sampled_from(range(n + 1))) == n

def _terminal(draw, kind):
    """[] or [clause]: what a legal expectation on this kind needs at least"""
    K = KINDS[kind]
    if K.ret == "void" and not _rare(draw, 3):
        return []
    return [_pick(draw, legal_terminals(kind))]

def _legal_opts(draw, kind, family):
    o = {}
    if _rare(draw, 4):
        o["const_mock"] = True
    dw = family in DESTRUCTION_FAMILIES or _rare(draw, 7)
    if dw:
        o["deathwatched"] = True
        o["virtual_dtor"] = True
    else:
        if _rare(draw, 5):
            o["virtual_dtor"] = True
        if _rare(draw, 3):
            o["movable"] = True
            if draw(st.booleans()):
                o["move"] = True
    if arity(kind) and _rare(draw, 1):
        o["argm"] = tuple(_pick(draw, arg_matcher_variants(c)) for c in KINDS[kind].params)
    if _rare(draw, 7):
        o["long_macros"] = True
    if family in CALL_FAMILIES and _rare(draw, 5):
        o["vform"] = True
    if not o.get("deathwatched") and not o.get("move") and _rare(draw, 4):
        o["dependent"] = True
    return o

@st.composite
def legal_programs(draw):
    kind = _pick(draw, ALLK)
    family = _pick(draw, CALL_FAMILIES * 3 + DESTRUCTION_FAMILIES)
    opts = _legal_opts(draw, kind, family)
    if family in DESTRUCTION_FAMILIES:
        items = [_pick(draw, seq_clauses())] if draw(st.booleans()) else []
        return _checked_legal(make_program(kind, family, items, **opts))
    base = rules.family_base(family)
    items = [_pick(draw, with_variants(kind)) for _ in range(draw(st.integers(0, 2)))]
    zero = base == "FORBID_CALL"
    if base == "REQUIRE_CALL" and _rare(draw, 6):
        zero = True
        items.append(("TIMES", _pick(draw, TIMES_ZERO)))
    if not zero:
        items += [_pick(draw, side_variants(kind)) for _ in range(draw(st.integers(0, 2)))]
        if _rare(draw, 2):
            items.append(_pick(draw, seq_clauses()))
        if base == "REQUIRE_CALL":
            c = draw(st.integers(0, 3))
            if c == 1:
                items.append(("TIMES", _pick(draw, TIMES_POS)))
            elif c == 2:
                items.append(_pick(draw, rt_clauses()))
        if kind == "gen_int":
            items += [_pick(draw, co_yield_variants(kind, ("ok",))) for _ in range(draw(st.integers(0, 2)))]
        term = _terminal(draw, kind)
        # the terminal is never dropped; trim optional clauses from the front to respect the length bound
        while len(items) + len(term) > MAX_CLAUSES:
            items.pop(0)
        items += term
    items = items[-MAX_CLAUSES:]
    order = draw(st.permutations(items)) if len(items) > 1 else items
    return _checked_legal(make_program(kind, family, list(order), **opts))

def _checked_legal(p):
    f = evaluate(p)
    if f:
        raise AssertionError("generator bug: legal construction violates %s: %s" % (f, p.describe()))
    return p

def _u0(draw):
    """a way to put a compile-time upper bound of 0 in force: (family, prefix clauses)"""
    if draw(st.booleans()):
        return _pick(draw, FORBID), []
    return _pick(draw, REQ), [("TIMES", _pick(draw, TIMES_ZERO))]

def _core(draw, row):
    """(kind, family, clauses, opts, allow_padding) violating exactly `row`"""
    P = lambda seq: _pick(draw, seq)
    ok_ret = lambda k: P(return_variants(k, ("ok",)))
    ok_cor = lambda k: P(co_return_variants(k, ("ok",)))
    thr = lambda: P(throw_variants())
    cothr = lambda: P(co_throw_variants())
    side = lambda k: P(side_variants(k))
    seq = lambda: P(seq_clauses())
    tpos = lambda: ("TIMES", P(TIMES_POS))
    tzero = lambda: ("TIMES", P(TIMES_ZERO))
    rt = lambda: P(rt_clauses())
    opts = {}
    if row == "R01":
        kind = P(ALLK); fam, pre = _u0(draw); return kind, fam, pre + [side(kind)], opts
    if row == "R02":
        kind = P(CORO); return kind, P(RA), [P(return_variants(kind))], opts
    if row == "R03":
        kind = "void_int"; return kind, P(RA), [P(return_variants(kind))], opts
    if row == "R04":
        kind = P(NONVOID); return kind, P(RA), [ok_ret(kind), ok_ret(kind)], opts
    if row == "R05":
        kind = P(NONVOID); return kind, P(RA), [thr(), ok_ret(kind)], opts
    if row == "R06":
        kind = P(NONVOID); fam, pre = _u0(draw); return kind, fam, pre + [ok_ret(kind)], opts
    if row in ("R07", "R08", "R09", "R10", "R31a", "R31b", "R31c"):
        cls = {"R07": "nonconv", "R08": "nonref", "R09": "constref", "R10": "constptr", "R31a": "wild", "R31b": "typed", "R31c": "duck"}[row]
        kinds = [k for k in NONVOID if return_variants(k, (cls,))]
        kind = P(kinds); return kind, P(RA), [P(return_variants(kind, (cls,)))], opts
    if row == "R11":
        kind = P(ALLK)
        sites = [c for c in with_variants(kind, False) + side_variants(kind, False) if rules.ill_k(c[1])]
        if kind in NONVOID:
            sites += [c for c in return_variants(kind, (), True)] * 2
        c = P(sites)
        cl = [c]
        if c[0] != "RETURN":
            cl += _terminal_always(draw, kind)
        return kind, P(RA), cl, opts
    if row == "R12":
        kind = P(NORMAL); return kind, P(RA), [thr(), thr()], opts
    if row == "R13":
        kind = P(NONVOID); return kind, P(RA), [ok_ret(kind), thr()], opts
    if row == "R14":
        kind = P(NORMAL); fam, pre = _u0(draw); return kind, fam, pre + [thr()], opts
    if row == "R15":
        kind = P(CORO); return kind, P(RA), [thr()], opts
    if row == "R16":
        kind = P(ALLK); c = draw(st.integers(0, 3))
        if c == 0:
            return kind, P(REQ), [tpos(), tpos()] + _terminal_always(draw, kind), opts
        if c == 1:
            return kind, P(ALLOW), [tpos()] + _terminal_always(draw, kind), opts
        if c == 2:
            return kind, P(REQ), [rt(), tpos()] + _terminal_always(draw, kind), opts
        return kind, P(FORBID), [tzero()], opts
    if row == "R17":
        kind = P(ALLK)
        if _rare(draw, 2):
            return kind, P(REQ), [("TIMES", P(TIMES_INVERTED_ZERO))], opts
        return kind, P(REQ), [("TIMES", P(TIMES_INVERTED_POS))] + _terminal_always(draw, kind), opts
    if row == "R18a":
        kind = P(NONVOID); return kind, P(REQ), [ok_ret(kind), tzero()], opts
    if row == "R18b":
        kind = P(ALLK); return kind, P(REQ), [cothr() if KINDS[kind].coro else thr(), tzero()], opts
    if row == "R18c":
        kind = P(ALLK); return kind, P(REQ), [side(kind), tzero()], opts
    if row == "R18d":
        kind = P(ALLK); return kind, P(REQ), [seq(), tzero()], opts
    if row == "R19":
        kind = P(ALLK); c = draw(st.integers(0, 3))
        if c == 0:
            return kind, P(REQ), [rt(), rt()] + _terminal_always(draw, kind), opts
        if c == 1:
            return kind, P(REQ), [tpos(), rt()] + _terminal_always(draw, kind), opts
        if c == 2:
            return kind, P(ALLOW), [rt()] + _terminal_always(draw, kind), opts
        return kind, P(FORBID), [rt()] + _terminal_always(draw, kind), opts
    if row == "R20":
        kind = P(ALLK)
        if _rare(draw, 2):
            return kind, P(DESTRUCTION_FAMILIES), [seq(), seq()], dict(deathwatched=True, virtual_dtor=True)
        return kind, P(RA), [seq(), seq()] + _terminal_always(draw, kind), opts
    if row == "R21":
        kind = P(ALLK); fam, pre = _u0(draw); return kind, fam, pre + [seq()], opts
    if row == "R22":
        kind = P(NONVOID); return kind, P(RA), [], opts
    if row == "R23":
        kind = P(CORO); return kind, P(RA), [], opts
    if row == "R24d":
        kind = P(NONVOID); return kind, P(RA), [ok_ret(kind), P(co_return_variants(kind))], opts
    if row == "R24a":
        kind = P(NORMAL); return kind, P(RA), [P(co_return_variants(kind))], opts
    if row == "R24b":
        kind = P(NORMAL); return kind, P(RA), [P(co_yield_variants(kind))] + _terminal_always(draw, kind), opts
    if row == "R24c":
        kind = P(NORMAL); return kind, P(RA), [cothr()], opts
    if row == "R25a":
        kind = P(CORO); return kind, P(RA), [ok_cor(kind), ok_cor(kind)], opts
    if row == "R25b":
        kind = P(CORO); return kind, P(RA), [cothr(), ok_cor(kind)], opts
    if row == "R25c":
        kind = P(CORO); fam, pre = _u0(draw); return kind, fam, pre + [ok_cor(kind)], opts
    if row == "R25d":
        kind = P(CORO); return kind, P(RA), [P(co_return_variants(kind, ("mismatch",)))], opts
    if row == "R26a":
        kind = P(CORO); return kind, P(RA), [cothr(), cothr()], opts
    if row == "R26b":
        kind = P(CORO); return kind, P(RA), [ok_cor(kind), cothr()], opts
    if row == "R26c":
        kind = P(CORO); fam, pre = _u0(draw); return kind, fam, pre + [cothr()], opts
    if row == "R27a":
        kind = P(CORO); return kind, P(RA), [P(co_yield_variants(kind, ("void",)))] + _terminal_always(draw, kind), opts
    if row == "R27b":
        kind = P(CORO); return kind, P(RA), [P(co_yield_variants(kind, ("incompat",)))] + _terminal_always(draw, kind), opts
    if row == "R28":
        kind = P(ALLK); n = arity(kind)
        wrong = [x for x in (n - 1, n + 1, n + 2, 0, 15) if 0 <= x <= 15 and x != n]
        # n below the arity comes first on purpose: "<=" instead of "==" in the check lets exactly those through
        return kind, P(RA), _terminal_always(draw, kind), dict(mock_n=P(wrong), const_mock=draw(st.booleans()))
    if row == "R29":
        kind = P(ALLK); return kind, P(RA), _terminal_always(draw, kind), dict(move=True)
    if row == "R30":
        kind = P(ALLK)
        if _rare(draw, 2):
            return kind, P(DESTRUCTION_FAMILIES), ([seq()] if draw(st.booleans()) else []), dict(deathwatched=True)
        return kind, P(RA), _terminal_always(draw, kind), dict(deathwatched=True)
    if row == "R32":
        kind = "intptr"; return kind, P(RA), _terminal_always(draw, kind), dict(argm=("anyarr",))
    raise KeyError(row)

def _terminal_always(draw, kind):
    if KINDS[kind].ret == "void":
        return [_pick(draw, throw_variants())] if _rare(draw, 3) else []
    return [_pick(draw, legal_terminals(kind))]

def padding_clauses(kind):
    out = with_variants(kind) * 2 + side_variants(kind) + seq_clauses() + times_clauses(TIMES_POS) + rt_clauses()
    out += legal_terminals(kind)
    if kind == "gen_int":
        out += co_yield_variants(kind, ("ok",))
    return out

def single_fault(row):
    @st.composite
    def strat(draw):
        kind, family, clauses, opts = _core(draw, row)
        p = make_program(kind, family, clauses, **opts)
        f = evaluate(p)
        # R24d always comes together with R24a (one misuse, two acceptable wordings)
        pair_ok = row == "R24d" and sorted(x.row for x in f) == ["R24a", "R24d"]
        if not pair_ok and (len(f) != 1 or f[0].row != row):
            raise AssertionError("generator bug: core for %s gives %s: %s" % (row, f, p.describe()))
        if family in CALL_FAMILIES:
            pads = padding_clauses(kind)
            for _ in range(draw(st.integers(0, MAX_CLAUSES - len(clauses))) if len(clauses) < MAX_CLAUSES else 0):
                c = _pick(draw, pads)
                pos = draw(st.integers(0, len(clauses)))
                cand = clauses[:pos] + [c] + clauses[pos:]
                q = make_program(kind, family, cand, **opts)
                g = evaluate(q)
                if (len(g) == 1 and g[0].row == row) or (pair_ok and sorted(x.row for x in g) == ["R24a", "R24d"]):
                    clauses, p = cand, q
        if _rare(draw, 7):
            o = dict(p.opts); o["long_macros"] = True
            p = make_program(p.kind, p.family, list(p.clauses), **o)
        if p.family in CALL_FAMILIES and _rare(draw, 5):
            o = dict(p.opts); o["vform"] = True
            p = make_program(p.kind, p.family, list(p.clauses), **o)
        if not p.opt("deathwatched") and not p.opt("move") and _rare(draw, 5):
            o = dict(p.opts); o["dependent"] = True
            p = make_program(p.kind, p.family, list(p.clauses), **o)
        return p
    return strat()

def all_clauses(kind, coroutine_ops):
    """the whole alphabet for the kind, faulty variants included"""
    out = with_variants(kind, False) + side_variants(kind, False) + return_variants(kind, None, True) + throw_variants()
    out += times_clauses(TIMES_POS + TIMES_ZERO + TIMES_INVERTED_POS + TIMES_INVERTED_ZERO) + rt_clauses() + seq_clauses()
    if coroutine_ops:
        out += co_return_variants(kind) + co_yield_variants(kind) + co_throw_variants()
    return out

def plain_clauses(kind, coroutine_ops):
    """the spellings that are not a fault by themselves on this kind (they may still collide with the state)"""
    out = with_variants(kind) + side_variants(kind) + return_variants(kind, ("ok",)) + throw_variants()
    out += times_clauses(TIMES_POS + TIMES_ZERO) + rt_clauses() + seq_clauses()
    if coroutine_ops and KINDS[kind].coro:
        out += co_return_variants(kind, ("ok",)) + co_yield_variants(kind, ("ok",)) + co_throw_variants()
    return out

@st.composite
def free_programs(draw):
    kind = _pick(draw, ALLK)
    if _rare(draw, 11):
        family = _pick(draw, DESTRUCTION_FAMILIES)
        clauses = [_pick(draw, seq_clauses()) for _ in range(draw(st.integers(0, 3)))]
        opts = dict(deathwatched=True, virtual_dtor=not _rare(draw, 4))
        return make_program(kind, family, clauses, **opts)
    family = _pick(draw, CALL_FAMILIES)
    co_ops = bool(KINDS[kind].coro) or _rare(draw, 4)
    alphabet = all_clauses(kind, co_ops)
    plain = set(plain_clauses(kind, co_ops))
    ops = sorted({c[0] for c in alphabet})
    clauses = []
    for _ in range(draw(st.integers(0, MAX_CLAUSES))):
        op = _pick(draw, ops)                                  # clause kind first, so that rare spellings are not drowned
        cands = [c for c in alphabet if c[0] == op]
        odd = [c for c in cands if c not in plain]
        if odd and (len(odd) == len(cands) or _rare(draw, 3)):  # spellings that are a fault by themselves: one time in four
            clauses.append(_pick(draw, odd))
        else:
            clauses.append(_pick(draw, [c for c in cands if c in plain]))
    opts = {}
    if _rare(draw, 3):
        opts = _legal_opts(draw, kind, family)
    if _rare(draw, 9):
        n = arity(kind)
        opts["mock_n"] = _pick(draw, [x for x in (n - 1, n + 1, 0, 15) if 0 <= x <= 15 and x != n])
    if _rare(draw, 11) and not opts.get("deathwatched"):
        opts["move"] = True
    if _rare(draw, 11) and not opts.get("move"):
        opts["deathwatched"] = True
        opts["virtual_dtor"] = draw(st.booleans())
    if _rare(draw, 6):
        opts["vform"] = True
    return make_program(kind, family, clauses, **opts)

def legal_pair_programs():
    """Deterministic enumeration (no randomness): every ordered pair of legal clauses from different categories
    {WITH, SIDE_EFFECT, IN_SEQUENCE(1..3 sequences), every TIMES(...) with a non-zero upper bound, every RT_TIMES(...)}
    on a void and on a value-returning function (the latter closed by a RETURN placed first or last). Random generation
    reaches a particular (clause, variant, order) combination only with a probability well below 1 % per program."""
    cats = {
        "W": lambda k: with_variants(k)[:1],
        "S": lambda k: side_variants(k)[:1],
        "Q": lambda k: seq_clauses(),
        "T": lambda k: times_clauses(TIMES_POS),
        "R": lambda k: rt_clauses(),
    }
    names = sorted(cats)
    out = []
    for kind in ("void_int", "int_int"):
        if kind not in KINDS:
            continue
        term = [] if KINDS[kind].ret == "void" else [return_variants(kind, ("ok",))[0]]
        for a in names:
            for b in names:
                if a >= b or {a, b} == {"T", "R"}:
                    continue
                for ca in cats[a](kind):
                    for cb in cats[b](kind):
                        for first, second in ((ca, cb), (cb, ca)):
                            for pos in ((0, 1) if term else (0,)):
                                items = [first, second]
                                items = (term + items) if pos == 0 else (items + term)
                                pr = make_program(kind, "REQUIRE_CALL", items)
                                if not evaluate(pr):
                                    out.append(pr)
    return out

def legal_return_programs():
    """Deterministic enumeration: every signature kind x every legal spelling of its RETURN / LR_RETURN expression (and the
    coroutine kinds' CO_RETURN), one program each. All legal: batched into a few translation units per compiler and level."""
    out = []
    for kind in ALLK:
        K = KINDS[kind]
        if K.coro:
            terms = co_return_variants(kind, ("ok",))
        elif K.ret == "void":
            continue
        else:
            terms = return_variants(kind, ("ok",))
        for t in terms:
            for family in ("REQUIRE_CALL", "NAMED_ALLOW_CALL"):
                pr = make_program(kind, family, [t])
                if not evaluate(pr) and pr not in out:
                    out.append(pr)
    # "exactly one of RETURN, LR_RETURN, THROW, LR_THROW is required" (docs/reference.md): ending with a THROW spelling is
    # legal on every signature kind - void, value, each reference flavour, coroutine (there also CO_THROW)
    for kind in ALLK:
        terms = throw_variants(kind) + (co_throw_variants() if KINDS[kind].coro else [])
        for t in terms:
            for family in ("REQUIRE_CALL", "NAMED_ALLOW_CALL"):
                pr = make_program(kind, family, [t])
                if not evaluate(pr) and pr not in out:
                    out.append(pr)
    return out

def arity_programs():
    """Deterministic enumeration of "a MAKE_MOCKn arity that disagrees with the signature": every n in 0..15 for MAKE_MOCKn and
    MAKE_CONST_MOCKn on a one-parameter and on a two-parameter signature (each n is a separate entry of the macro table)."""
    out = []
    for const in (False, True):
        for n in range(16):
            for kind in ("int_int", "int_int2"):
                if kind not in KINDS or n == arity(kind):
                    continue
                o = {"mock_n": n}
                if const:
                    o["const_mock"] = True
                pr = make_program(kind, "REQUIRE_CALL", [return_variants(kind, ("ok",))[0]], **o)
                if {f.row for f in evaluate(pr)} == {"R28"}:
                    out.append(pr)
    return out

def limit_pair_programs(core=False):
    """Deterministic enumeration of "more than one TIMES / RT_TIMES": every giver of a call limit - the limit implied by
    ALLOW_CALL / FORBID_CALL (plain and NAMED_), TIMES with a positive upper bound (n / interval / AT_LEAST / AT_MOST),
    TIMES with upper bound 0 (three spellings) and RT_TIMES - followed by a second limit clause of each class. Only the
    programs whose sole faults are the two "Only one ... call limit" rows are kept, so that nothing else can reject them.
    core=True: one representative per class on the void function, short macros (the quick tier runs these every time)."""
    if core:
        firsts = [("REQUIRE_CALL", [("TIMES", TIMES_POS[0])]), ("REQUIRE_CALL", [("TIMES", TIMES_POS[7])]),
                  ("REQUIRE_CALL", [("TIMES", TIMES_ZERO[0])]), ("REQUIRE_CALL", [("TIMES", TIMES_ZERO[2])]),
                  ("REQUIRE_CALL", [rt_clauses()[1]]), ("REQUIRE_CALL", [rt_clauses()[0]]),
                  ("ALLOW_CALL", []), ("FORBID_CALL", []), ("NAMED_FORBID_CALL", [])]
        seconds = [("TIMES", TIMES_POS[1]), ("TIMES", TIMES_ZERO[0]), rt_clauses()[1]]
        out = []
        for family, first in firsts:
            for sec in seconds:
                pr = make_program("void_int", family, [*first, sec])
                rows_ = {f.row for f in evaluate(pr)}
                if rows_ and rows_ <= {"R16", "R19"}:
                    out.append(pr)
        return out
    firsts = [("REQUIRE_CALL", [("TIMES", v)]) for v in (TIMES_POS[0], TIMES_POS[3], TIMES_POS[7], TIMES_POS[9])]
    firsts += [("REQUIRE_CALL", [("TIMES", v)]) for v in TIMES_ZERO]
    firsts += [("REQUIRE_CALL", [c]) for c in (rt_clauses()[0], rt_clauses()[1], rt_clauses()[3], rt_clauses()[-1])]
    firsts += [("NAMED_REQUIRE_CALL", [("TIMES", TIMES_ZERO[0])]), ("NAMED_REQUIRE_CALL", [("TIMES", TIMES_POS[1])])]
    firsts += [(f, []) for f in CALL_FAMILIES if rules.family_base(f) != "REQUIRE_CALL"]
    seconds = [("TIMES", TIMES_POS[1]), ("TIMES", TIMES_POS[7]), ("TIMES", TIMES_ZERO[0]), rt_clauses()[1], rt_clauses()[0], rt_clauses()[-1]]
    out = []
    for kind in ("void_int", "int_int"):
        if kind not in KINDS:
            continue
        term = [] if KINDS[kind].ret == "void" else [return_variants(kind, ("ok",))[0]]
        for family, first in firsts:
            for sec in seconds:
                for items in ([*first, sec] + term, term + [*first, sec]):
                    for o in ({}, {"long_macros": True}, {"vform": True}):
                        pr = make_program(kind, family, items, **o)
                        rows_ = {f.row for f in evaluate(pr)}
                        if rows_ and rows_ <= {"R16", "R19"} and pr not in out:
                            out.append(pr)
    return out

def legal_family_programs():
    """Deterministic enumeration: every expectation macro family x {short, long macro names} x {void, value} signature,
    in its minimal legal form and with one extra legal clause of each kind the family admits. (A slip inside one
    family's helper macro shows only for that family in one macro-name configuration.)"""
    out = []
    for kind in ("void_int", "int_int"):
        if kind not in KINDS:
            continue
        term = [] if KINDS[kind].ret == "void" else [return_variants(kind, ("ok",))[0]]
        for family in CALL_FAMILIES:
            base = rules.family_base(family)
            extras = [[]]
            extras.append([with_variants(kind)[0]])
            if base != "FORBID_CALL":
                extras.append([side_variants(kind)[0]])
                extras.append([seq_clauses()[0]])
            if base == "REQUIRE_CALL":
                extras.append([("TIMES", TIMES_POS[0])])
                extras.append([rt_clauses()[0]])
            for ex in extras:
                items = list(ex) + ([] if base == "FORBID_CALL" else term)
                for long_ in (False, True):
                    for vform in (False, True):
                        for dep in (False, True):
                            o = {}
                            if long_:
                                o["long_macros"] = True
                            if vform:
                                o["vform"] = True
                            if dep:
                                o["dependent"] = True
                            pr = make_program(kind, family, items, **o)
                            if not evaluate(pr):
                                out.append(pr)
    for family in DESTRUCTION_FAMILIES:
        for items in ([], [seq_clauses()[0]]):
            for long_ in (False, True):
                o = {"deathwatched": True, "virtual_dtor": True}
                if long_:
                    o["long_macros"] = True
                pr = make_program("void_int", family, list(items), **o)
                if not evaluate(pr):
                    out.append(pr)
    return out

def strategy(group):
    if group == "legal":
        return legal_programs()
    if group == "free":
        return free_programs()
    if group.startswith("row:"):
        return single_fault(group[4:])
    raise KeyError(group)

# ----------------------------------------------------------------------------------------------------------------
# rendering
PRELUDE = r"""#include <trompeloeil.hpp>
#include <cstddef>
#include <functional>
#include <stdexcept>
#include <utility>
namespace vk {
template <typename T> inline bool ok(T const&) { return true; }
template <typename ... T> inline void touch(T const& ...) {}
bool pred_int(int);
bool pred_ptr(void const*);
void take_int(int);
void take_ptr(void const*);
static int gv = 0;
static const int gc = 0;
#if defined(__cpp_impl_coroutine)
struct awaitable_base {
  bool await_ready() noexcept;
  void await_suspend(std::coroutine_handle<>) noexcept;
};
struct promise_base {
  std::suspend_never initial_suspend() noexcept;
  std::suspend_always final_suspend() noexcept;
  void unhandled_exception();
};
template <typename T> struct task : awaitable_base {          // awaitable, co_return value, no co_yield
  struct promise_type : promise_base { task get_return_object(); void return_value(T); };
  T await_resume();
};
template <> struct task<void> : awaitable_base {               // awaitable, co_return;
  struct promise_type : promise_base { task get_return_object(); void return_void(); };
  void await_resume();
};
template <typename T> struct gen : awaitable_base {           // co_yield value and co_return value
  struct promise_type : promise_base { gen get_return_object(); std::suspend_always yield_value(T); void return_value(T); };
  T await_resume();
};
#endif
}
"""

SIGNATURES = {
    "void_int": "void(int)", "int_int": "int(int)", "int_int2": "int(int, int)", "intref": "int&(int&)",
    "cintref": "int const&(int const&)", "intptr": "int*(int*)",
    "task_int": "vk::task<int>(int)", "task_void": "vk::task<void>()", "gen_int": "vk::gen<int>(int)",
}
ARG_TEXT = {
    "int": {"wild": "trompeloeil::_", "any": "@ANY(int)", "val": "1", "gt": "trompeloeil::gt(0)", "ne": "trompeloeil::ne(1)"},
    "intref": {"wild": "trompeloeil::_", "any": "@ANY(int&)", "gt": "trompeloeil::gt(0)"},
    "cintref": {"wild": "trompeloeil::_", "any": "@ANY(int const&)", "val": "1", "lt": "trompeloeil::lt(5)"},
    "intptr": {"wild": "trompeloeil::_", "any": "@ANY(int*)", "nul": "nullptr", "nenul": "trompeloeil::ne(nullptr)", "anyarr": "@ANY(int[3])"},
}

def _clause_text(kind, op, v):
    """text between the parentheses; macro names inside are marked with @"""
    k = rules.ill_k(v)
    base = op.replace("LR_", "")
    if k is not None:
        form = v.split(":")[0][4:]
        if base == "WITH":
            return {"conv": "vk::pred_int(_%d)", "addr": "vk::pred_ptr(&_%d)"}[form] % k
        if base == "SIDE_EFFECT":
            return {"conv": "vk::take_int(_%d)", "addr": "vk::take_ptr(&_%d)", "deref": "*_%d = 1", "assign": "_%d = 1"}[form] % k
        if base == "RETURN":
            return "_%d" % k
        raise KeyError((op, v))
    ptr = KINDS[kind].params[:1] == ("intptr",)
    if base == "WITH":
        return {"true": "true", "lv": "lv == 0", "a1ok": "vk::ok(_1)", "a1cmp": "_1 != nullptr" if ptr else "_1 == 1",
                "a1lv": "_1 == lv", "a2cmp": "_1 < _2"}[v]
    if base == "SIDE_EFFECT":
        return {"call": "vk::touch()", "a1": "vk::touch(_1)", "lvinc": "++lv"}[v]
    if base in ("RETURN", "CO_RETURN", "CO_YIELD"):
        duck = "trompeloeil::eq(0)" if KINDS[kind].ret == "ref" else "trompeloeil::eq(3)"
        return {"lit": "1", "a1": "_1", "a1p": "_1 + 1", "lvc": "lv", "lv": "lv", "gv": "vk::gv", "gc": "vk::gc", "str": "\"s\"",
                "nul": "nullptr", "sref": "std::ref(vk::gv)", "lvref": "std::ref(lv)", "gvp": "&vk::gv", "gcp": "&vk::gc",
                "lvp": "&lv", "wild": "trompeloeil::_", "typed": "@ANY(int)", "duck": duck, "void": "", "plv": "(lv)", "pgv": "(vk::gv)"}[v]
    if base in ("THROW", "CO_THROW"):
        return {"int": "1", "rt": "std::runtime_error(\"x\")", "lv": "lv"}[v]
    if base == "TIMES":
        t = v[0]
        return {"n": lambda: "%d" % v[1], "r": lambda: "%d, %d" % (v[1], v[2]), "atleast": lambda: "@AT_LEAST(%d)" % v[1],
                "atmost": lambda: "@AT_MOST(%d)" % v[1]}[t]()
    if base == "RT_TIMES":
        t = v[0]
        return {"n": lambda: "%d" % v[1], "r": lambda: "%d, %d" % (v[1], v[2]), "atleast": lambda: "@AT_LEAST(%d)" % v[1],
                "atmost": lambda: "@AT_MOST(%d)" % v[1], "var": lambda: "rn"}[t]()
    if base == "IN_SEQUENCE":
        return ", ".join("s%d" % (i + 1) for i in range(v))
    raise KeyError((op, v))

def render_body(p, ns):
    """the program inside namespace `ns`, entry point ns::run()"""
    long_ = p.opt("long_macros")
    M = (lambda name: "TROMPELOEIL_" + name) if long_ else (lambda name: name)
    fix = lambda text: text.replace("@", "TROMPELOEIL_" if long_ else "")
    K = KINDS[p.kind]
    n = p.opt("mock_n")
    if n is None:
        n = len(K.params)
    lines = ["namespace %s {" % ns, "struct M", "{"]
    if p.opt("virtual_dtor"):
        lines += ["  M() = default;", "  M(M&&) = default;", "  virtual ~M() = default;"]
    if p.opt("movable"):
        lines.append("  static constexpr bool trompeloeil_movable_mock = true;")
    lines.append("  %s(f, %s);" % (M("MAKE_CONST_MOCK%d" if p.opt("const_mock") else "MAKE_MOCK%d") % n, SIGNATURES[p.kind]))
    dep = bool(p.opt("dependent")) and not p.opt("deathwatched") and not p.opt("move")
    if dep:
        # the mock object's type is a template parameter: every clause is a member template call on a dependent type
        lines += ["};", "template <typename MT_>", "inline void run_t(MT_& mo)", "{"]
    else:
        lines += ["};", "inline void run()", "{"]
        if p.opt("deathwatched"):
            lines += ["  auto* mp = new trompeloeil::deathwatched<M>;", "  auto& mo = *mp;"]
        else:
            lines.append("  M mo;")
        if p.opt("move"):
            lines += ["  M moved(std::move(mo));", "  (void)moved;"]
    lines.append(("  MT_ const& co = mo;" if dep else "  M const& co = mo;") if p.opt("const_mock") and not p.opt("deathwatched") else "  auto& co = mo;")
    lines += ["  trompeloeil::sequence s1, s2, s3;", "  int lv = 0;", "  std::size_t rn = 1;",
              "  (void)co; (void)lv; (void)rn; (void)vk::gv; (void)vk::gc;"]
    named = p.family.startswith("NAMED_")
    if p.family in DESTRUCTION_FAMILIES:
        head = "%s(mo)" % M(p.family)
    else:
        argm = p.opt("argm") or tuple("wild" for _ in K.params)
        args = ", ".join(fix(ARG_TEXT[c][m]) for c, m in zip(K.params, argm))
        head = "%s(co, f(%s))" % (M(p.family), args)
    if p.opt("vform") and p.family in CALL_FAMILIES:
        # variadic spelling: the clauses are further macro arguments
        lines.append("  %s%s(co, f(%s)%s" % ("auto e = " if named else "", M(p.family + "_V"), args, "," if p.clauses else ""))
        for op, v in p.clauses:
            lines.append("    .%s(%s)" % (M(op), fix(_clause_text(p.kind, op, v))))
        lines[-1] += ");"
    else:
        lines.append("  %s%s" % ("auto e = " if named else "", head))
        for op, v in p.clauses:
            lines.append("    .%s(%s)" % (M(op), fix(_clause_text(p.kind, op, v))))
        lines[-1] += ";"
    if named:
        lines.append("  (void)e;")
    lines.append("}")
    if dep:
        lines += ["inline void run()", "{", "  M mo_;", "  run_t(mo_);", "}"]
    lines.append("}")
    return "\n".join(lines) + "\n"

def render_tu(programs):
    """one translation unit holding the programs, each in its own namespace and function"""
    parts = [PRELUDE]
    for i, p in enumerate(programs):
        parts.append("// program %d: %s\n" % (i, p.describe()))
        parts.append(render_body(p, "p%d" % i))
    parts.append("int main()\n{\n%s}\n" % "".join("  p%d::run();\n" % i for i in range(len(programs))))
    return "".join(parts)

def flags_for(programs):
    long_ = {p.opt("long_macros") for p in programs}
    if len(long_) > 1:
        raise ValueError("mixed long/short macro programs in one TU")
    return ["-DTROMPELOEIL_LONG_MACROS"] if long_ == {True} else []

# ----------------------------------------------------------------------------------------------------------------
def self_check():
    """pure-python consistency checks of the tables (run at engine start; cheap)"""
    for kind in ALLK:
        for op, v in all_clauses(kind, True) + padding_clauses(kind):
            _clause_text(kind, op, v)
            rules.eval_clauses(kind, "REQUIRE_CALL", [(op, v)])
        for c in legal_terminals(kind):
            f = rules.eval_clauses(kind, "REQUIRE_CALL", [c])
            assert not f, (kind, c, f)
    return True

// Engine R (property C11): the eight range matchers of trompeloeil/matcher/range.hpp, element-list and container
// forms, over several range (parameter) kinds, evaluated through trompeloeil::param_matches and compared with an
// independent evaluator (plain C++). Exhaustive small scope + random profile with overlapping element matchers.
//
// CLI: r_main --prop C11 --out <json> --faildir <dir> [--replay <file>] [--quiet|--verbose]
//             [--mode enum|random] [--scope small|full]
// rapidcheck is configured through RC_PARAMS only.
#include <rapidcheck.h>
#include <fcntl.h>
#include <trompeloeil.hpp>
#include <algorithm>
#include <array>
#include <deque>
#include <functional>
#include <list>
#include <memory>
#include <sstream>
#include <string>
#include <vector>
#include "common/vcommon.hpp"

#if defined(__clang__)
#define GLUE __attribute__((optnone, noinline))
#else
#define GLUE __attribute__((optimize("O0"), noinline))
#endif

namespace {

// =====================================================================================================
// 1. Case description (pure data)
// =====================================================================================================
enum RM : int { M_IS, M_STARTS, M_ENDS, M_INCLUDES, M_PERM, M_ALL, M_ANY, M_NONE, M_COUNT };
const char* const RM_NAME[M_COUNT] = {"range_is", "range_starts_with", "range_ends_with", "range_includes", "range_is_permutation", "range_all_of", "range_any_of", "range_none_of"};
bool is_quant(RM m) { return m >= M_ALL; }

// how the element list is spelled
enum Form : int {
  F_ALL_I,      // element list, every element a plain int
  F_ALL_D,      // element list, every element a type-erased matcher
  F_ALT_I,      // element list, int, matcher, int, ...
  F_ALT_D,      // element list, matcher, int, matcher, ...
  F_VEC_LV,     // std::vector<int> lvalue that is destroyed before the matcher is used
  F_VEC_RV,     // std::vector<int> temporary
  F_CARR,       // int[N] (the matcher keeps a view; the array stays alive)
  F_VEC_D,      // std::vector<D<int>> temporary: a collection of matchers
  F_TYPED_VEC,  // range_x<std::vector<int>>(ints...)
  F_TYPED_LIST, // range_x<std::list<int>>(ints...)
  F_TYPED_VEC_C,// range_x<std::vector<int>>(std::vector<int>{...})
  F_COUNT
};
const char* const FORM_NAME[F_COUNT] = {"elems_int", "elems_matcher", "elems_int_matcher_alternating", "elems_matcher_int_alternating", "vector_lvalue", "vector_temporary",
                                        "c_array", "vector_of_matchers", "typed_vector_elems", "typed_list_elems", "typed_vector_container"};
bool is_elem_form(Form f) { return f <= F_ALT_D || f == F_TYPED_VEC || f == F_TYPED_LIST; }

// the kind of object handed to param_matches as the range
enum RKind : int { K_VEC, K_LIST, K_DEQUE, K_ARRAY, K_CARR, K_INIT, K_COUNT };
const char* const KIND_NAME[K_COUNT] = {"vector", "list", "deque", "std_array", "c_array", "init_list_vector"};
constexpr size_t MAX_FIXED = 4;   // std::array<int,0..4>, int[1..4]
constexpr size_t MAX_ELEMS = 4;   // element-list arity
constexpr size_t MAX_CARR_ELEMS = 4;

enum Op : int { O_EQ, O_NE, O_LT, O_LE, O_GT, O_GE, O_WILD, O_ANY2, O_COUNT };
const char* const OP_NAME[O_COUNT] = {"eq", "ne", "lt", "le", "gt", "ge", "_", "any_of"};
struct El {
  bool plain = true;  // plain int value (then op == O_EQ)
  int op = O_EQ;
  int v = 0, v2 = 0;
};
std::string el_str(const El& e) {
  if (e.plain) return std::to_string(e.v);
  if (e.op == O_WILD) return "_";
  if (e.op == O_ANY2) return "any_of(" + std::to_string(e.v) + "," + std::to_string(e.v2) + ")";
  return std::string(OP_NAME[e.op]) + "(" + std::to_string(e.v) + ")";
}
std::string el_tok(const El& e) { return (e.plain ? "p:" : "m:") + std::string(OP_NAME[e.op]) + ":" + std::to_string(e.v) + ":" + std::to_string(e.v2); }
bool el_parse(const std::string& t, El& e) {
  if (t.size() < 4 || (t[0] != 'p' && t[0] != 'm') || t[1] != ':') return false;
  e.plain = t[0] == 'p';
  size_t a = t.find(':', 2);
  if (a == std::string::npos) return false;
  std::string op = t.substr(2, a - 2);
  e.op = -1;
  for (int i = 0; i < O_COUNT; ++i) if (op == OP_NAME[i]) e.op = i;
  if (e.op < 0) return false;
  size_t b = t.find(':', a + 1);
  if (b == std::string::npos) return false;
  e.v = atoi(t.substr(a + 1, b - a - 1).c_str());
  e.v2 = atoi(t.substr(b + 1).c_str());
  return !e.plain || e.op == O_EQ;
}
std::string list_str(const std::vector<El>& l) { std::string s = "{"; for (size_t i = 0; i < l.size(); ++i) s += (i ? ", " : "") + el_str(l[i]); return s + "}"; }
std::string range_str(const std::vector<int>& r) { std::string s = "{"; for (size_t i = 0; i < r.size(); ++i) s += (i ? ", " : "") + std::to_string(r[i]); return s + "}"; }

// =====================================================================================================
// 2. Independent evaluator (no trompeloeil in this section)
// =====================================================================================================
bool acc(const El& e, int x) {
  switch (e.op) {
    case O_EQ: return x == e.v;
    case O_NE: return x != e.v;
    case O_LT: return x < e.v;
    case O_LE: return x <= e.v;
    case O_GT: return x > e.v;
    case O_GE: return x >= e.v;
    case O_WILD: return true;
    default: return x == e.v || x == e.v2;
  }
}
constexpr int ALPHA_LO = 0, ALPHA_HI = 7;  // every range member lies in here
unsigned acc_mask(const El& e) { unsigned m = 0; for (int x = ALPHA_LO; x <= ALPHA_HI; ++x) if (acc(e, x)) m |= 1u << (x - ALPHA_LO); return m; }
// pairwise non-overlapping: acceptance sets are identical or disjoint
bool non_overlapping(const std::vector<El>& l) {
  for (size_t i = 0; i < l.size(); ++i)
    for (size_t j = i + 1; j < l.size(); ++j) {
      unsigned a = acc_mask(l[i]), b = acc_mask(l[j]);
      if (a != b && (a & b)) return false;
    }
  return true;
}
enum Verdict { V_REJECT = 0, V_ACCEPT = 1, V_EITHER = 2 };

// the documented greedy one-pass first-fit, simulated nondeterministically: at each range member any remaining
// element matcher that accepts it may be the one consumed
Verdict first_fit(bool perm, const std::vector<El>& l, const std::vector<int>& r) {
  size_t n = l.size();
  std::vector<char> cur(size_t(1) << n, 0), nxt;
  cur[(size_t(1) << n) - 1] = 1;
  bool can_true = false, can_false = false;
  for (int x : r) {
    nxt.assign(cur.size(), 0);
    for (size_t m = 0; m < cur.size(); ++m) {
      if (!cur[m]) continue;
      bool any = false;
      for (size_t i = 0; i < n; ++i)
        if ((m >> i & 1) && acc(l[i], x)) { any = true; nxt[m & ~(size_t(1) << i)] = 1; }
      if (!any) {
        if (perm) can_false = true;  // an unmatched member ends a permutation check
        else nxt[m] = 1;             // includes: the member is skipped
      }
    }
    cur.swap(nxt);
  }
  for (size_t m = 0; m < cur.size(); ++m) if (cur[m]) (m == 0 ? can_true : can_false) = true;
  return can_true && can_false ? V_EITHER : can_true ? V_ACCEPT : V_REJECT;
}
// "First-fit assignment taken in range order" read deterministically: each range member, in order, consumes the
// first still-pending element matcher (in the current order of the pending list) that accepts it. Two natural ways of
// keeping the pending list are simulated - stable erase (declaration order is kept) and swap-with-last - and an
// order-dependent case is asserted only when both give the same verdict, so the check does not depend on how an
// implementation stores its pending matchers, only on it being first-fit.
bool det_first_fit(bool perm, const std::vector<El>& l, const std::vector<int>& r, bool swap_remove) {
  std::vector<size_t> pend(l.size());
  for (size_t i = 0; i < l.size(); ++i) pend[i] = i;
  for (int x : r) {
    size_t hit = pend.size();
    for (size_t i = 0; i < pend.size(); ++i) if (acc(l[pend[i]], x)) { hit = i; break; }
    if (hit == pend.size()) { if (perm) return false; continue; }
    if (swap_remove) { pend[hit] = pend.back(); pend.pop_back(); }
    else pend.erase(pend.begin() + static_cast<long>(hit));
  }
  return pend.empty();
}
// the property statement read directly, for non-overlapping lists: group the element matchers into classes with the
// same acceptance set; includes <=> every class finds at least as many accepted members as it has matchers;
// permutation <=> additionally the sizes agree and every member is accepted by some class
bool by_classes(bool perm, const std::vector<El>& l, const std::vector<int>& r) {
  if (perm && l.size() != r.size()) return false;
  std::vector<char> seen(l.size(), 0);
  for (size_t i = 0; i < l.size(); ++i) {
    if (seen[i]) continue;
    unsigned a = acc_mask(l[i]);
    size_t need = 0, have = 0;
    for (size_t j = i; j < l.size(); ++j) if (acc_mask(l[j]) == a) { seen[j] = 1; need++; }
    for (int x : r) if (acc(l[i], x)) have++;
    if (have < need) return false;
  }
  if (perm) for (int x : r) { bool some = false; for (auto& e : l) if (acc(e, x)) some = true; if (!some) return false; }
  return true;
}
Verdict oracle(RM m, const std::vector<El>& l, const std::vector<int>& r) {
  switch (m) {
    case M_IS:
      if (l.size() != r.size()) return V_REJECT;
      for (size_t i = 0; i < l.size(); ++i) if (!acc(l[i], r[i])) return V_REJECT;
      return V_ACCEPT;
    case M_STARTS:
      if (l.size() > r.size()) return V_REJECT;
      for (size_t i = 0; i < l.size(); ++i) if (!acc(l[i], r[i])) return V_REJECT;
      return V_ACCEPT;
    case M_ENDS:
      if (l.size() > r.size()) return V_REJECT;
      for (size_t i = 0; i < l.size(); ++i) if (!acc(l[i], r[r.size() - l.size() + i])) return V_REJECT;
      return V_ACCEPT;
    case M_INCLUDES: return first_fit(false, l, r);
    case M_PERM: return first_fit(true, l, r);
    case M_ALL: for (int x : r) if (!acc(l[0], x)) return V_REJECT; return V_ACCEPT;
    case M_ANY: for (int x : r) if (acc(l[0], x)) return V_ACCEPT; return V_REJECT;
    default: for (int x : r) if (acc(l[0], x)) return V_REJECT; return V_ACCEPT;
  }
}

// =====================================================================================================
// 3. Library side
// =====================================================================================================
struct HolderBase {
  virtual ~HolderBase() = default;
  virtual bool matches(int const&) const = 0;
  std::string desc;
};
struct DPred { bool operator()(int const& v, std::shared_ptr<HolderBase> const& h) const { return h->matches(v); } };
struct DPrint { void operator()(std::ostream& os, std::shared_ptr<HolderBase> const& h) const { os << " matching " << h->desc; } };
using DM = decltype(trompeloeil::make_matcher<int>(DPred{}, DPrint{}, std::shared_ptr<HolderBase>{}));
template <typename M>
struct Holder : HolderBase {
  M m;
  template <typename U> GLUE explicit Holder(U&& u) : m(std::forward<U>(u)) {}
  GLUE bool matches(int const& v) const override { return trompeloeil::param_matches(m, std::cref(v)); }
  GLUE ~Holder() override {}
};
template <typename M>
GLUE DM wrap(M&& m, const El& e) {
  std::shared_ptr<HolderBase> h(static_cast<HolderBase*>(new Holder<std::decay_t<M>>(std::forward<M>(m))));
  h->desc = el_str(e);
  return trompeloeil::make_matcher<int>(DPred{}, DPrint{}, std::move(h));
}
// element matcher drawn from the scalar matcher family (engine M's type-erasure)
GLUE DM mk(const El& e) {
  switch (e.op) {
    case O_EQ: return wrap(trompeloeil::eq(e.v), e);
    case O_NE: return wrap(trompeloeil::ne(e.v), e);
    case O_LT: return wrap(trompeloeil::lt(e.v), e);
    case O_LE: return wrap(trompeloeil::le(e.v), e);
    case O_GT: return wrap(trompeloeil::gt(e.v), e);
    case O_GE: return wrap(trompeloeil::ge(e.v), e);
    case O_WILD: return wrap(trompeloeil::_, e);
    default: return wrap(trompeloeil::any_of(e.v, e.v2), e);
  }
}

template <int RMK, typename T, typename... Es>
GLUE auto make_rm(Es&&... es) {
  if constexpr (std::is_void_v<T>) {
    if constexpr (RMK == M_IS) return trompeloeil::range_is(std::forward<Es>(es)...);
    else if constexpr (RMK == M_STARTS) return trompeloeil::range_starts_with(std::forward<Es>(es)...);
    else if constexpr (RMK == M_ENDS) return trompeloeil::range_ends_with(std::forward<Es>(es)...);
    else if constexpr (RMK == M_INCLUDES) return trompeloeil::range_includes(std::forward<Es>(es)...);
    else if constexpr (RMK == M_PERM) return trompeloeil::range_is_permutation(std::forward<Es>(es)...);
    else if constexpr (RMK == M_ALL) return trompeloeil::range_all_of(std::forward<Es>(es)...);
    else if constexpr (RMK == M_ANY) return trompeloeil::range_any_of(std::forward<Es>(es)...);
    else return trompeloeil::range_none_of(std::forward<Es>(es)...);
  } else {
    if constexpr (RMK == M_IS) return trompeloeil::range_is<T>(std::forward<Es>(es)...);
    else if constexpr (RMK == M_STARTS) return trompeloeil::range_starts_with<T>(std::forward<Es>(es)...);
    else if constexpr (RMK == M_ENDS) return trompeloeil::range_ends_with<T>(std::forward<Es>(es)...);
    else if constexpr (RMK == M_INCLUDES) return trompeloeil::range_includes<T>(std::forward<Es>(es)...);
    else if constexpr (RMK == M_PERM) return trompeloeil::range_is_permutation<T>(std::forward<Es>(es)...);
    else if constexpr (RMK == M_ALL) return trompeloeil::range_all_of<T>(std::forward<Es>(es)...);
    else if constexpr (RMK == M_ANY) return trompeloeil::range_any_of<T>(std::forward<Es>(es)...);
    else return trompeloeil::range_none_of<T>(std::forward<Es>(es)...);
  }
}

// which range kinds a matcher type is evaluated against (every pair is a checker instantiation)
enum KindSet : int { KS_DYNAMIC, KS_ALL, KS_VECTOR_ONLY, KS_LIST_ONLY };

template <size_t N, typename M>
GLUE bool match_array(const M& m, const std::vector<int>& r) {
  std::array<int, N> a{};
  for (size_t i = 0; i < N; ++i) a[i] = r[i];
  return trompeloeil::param_matches(m, std::ref(a));
}
template <size_t N, typename M>
GLUE bool match_carr(const M& m, const std::vector<int>& r) {
  int a[N];
  for (size_t i = 0; i < N; ++i) a[i] = r[i];
  return trompeloeil::param_matches(m, std::ref(a));
}
bool kind_applicable(KindSet ks, RKind k, size_t len) {
  switch (ks) {
    case KS_VECTOR_ONLY: return k == K_VEC || k == K_INIT;
    case KS_LIST_ONLY: return k == K_LIST;
    case KS_DYNAMIC: return k == K_VEC || k == K_INIT || k == K_LIST;
    default: return (k != K_ARRAY && k != K_CARR) || (len <= MAX_FIXED && (k == K_ARRAY || len >= 1));
  }
}
// must mirror the KindSet chosen in with_matcher_rm
KindSet ks_of(RM rm, Form f, size_t nelems) {
  switch (f) {
    case F_ALL_I: return !is_quant(rm) && nelems == 4 ? KS_DYNAMIC : KS_ALL;
    case F_VEC_LV: case F_VEC_RV: case F_CARR: return KS_ALL;
    case F_TYPED_VEC: case F_TYPED_VEC_C: return KS_VECTOR_ONLY;
    case F_TYPED_LIST: return KS_LIST_ONLY;
    default: return KS_DYNAMIC;
  }
}
std::vector<int> from_init_list(const std::vector<int>& r) {  // a vector built from a braced list of that many elements
  switch (r.size()) {
    case 0: return std::vector<int>{};
    case 1: return std::vector<int>{r[0]};
    case 2: return std::vector<int>{r[0], r[1]};
    case 3: return std::vector<int>{r[0], r[1], r[2]};
    case 4: return std::vector<int>{r[0], r[1], r[2], r[3]};
    case 5: return std::vector<int>{r[0], r[1], r[2], r[3], r[4]};
    case 6: return std::vector<int>{r[0], r[1], r[2], r[3], r[4], r[5]};
    case 7: return std::vector<int>{r[0], r[1], r[2], r[3], r[4], r[5], r[6]};
    default: { std::initializer_list<int> il = {r[0], r[1], r[2], r[3], r[4], r[5], r[6], r[7]}; std::vector<int> v(il); for (size_t i = 8; i < r.size(); ++i) v.push_back(r[i]); return v; }
  }
}
template <int KS, typename M>
GLUE bool lib_match(const M& m, RKind k, const std::vector<int>& r) {
  if constexpr (KS != KS_LIST_ONLY) {
    if (k == K_VEC) { std::vector<int> x(r); return trompeloeil::param_matches(m, std::ref(x)); }
    if (k == K_INIT) { std::vector<int> x = from_init_list(r); return trompeloeil::param_matches(m, std::ref(x)); }
  }
  if constexpr (KS != KS_VECTOR_ONLY) {
    if (k == K_LIST) { std::list<int> x(r.begin(), r.end()); return trompeloeil::param_matches(m, std::ref(x)); }
  }
  if constexpr (KS == KS_ALL) {
    if (k == K_DEQUE) { std::deque<int> x(r.begin(), r.end()); return trompeloeil::param_matches(m, std::ref(x)); }
  }
  if constexpr (KS == KS_ALL) {
    if (k == K_ARRAY) switch (r.size()) {
      case 0: return match_array<0>(m, r);
      case 1: return match_array<1>(m, r);
      case 2: return match_array<2>(m, r);
      case 3: return match_array<3>(m, r);
      case 4: return match_array<4>(m, r);
      default: break;
    }
    if (k == K_CARR) switch (r.size()) {
      case 1: return match_carr<1>(m, r);
      case 2: return match_carr<2>(m, r);
      case 3: return match_carr<3>(m, r);
      case 4: return match_carr<4>(m, r);
      default: break;
    }
  }
  fprintf(stderr, "r_main: range kind %s with %zu elements not instantiated for this matcher form\n", KIND_NAME[k], r.size());
  exit(2);
}

using LibFn = std::function<bool(RKind, const std::vector<int>&)>;
using Cont = std::function<void(const LibFn&, KindSet)>;

template <int KS, typename M>
GLUE void deliver(const M& m, const Cont& k) {
  LibFn f = [&m](RKind kind, const std::vector<int>& r) { return lib_match<KS>(m, kind, r); };
  k(f, static_cast<KindSet>(KS));
}

// element-list forms: PAT 0 all int, 1 all matcher, 2 int first alternating, 3 matcher first alternating
constexpr bool int_at(int pat, size_t i) { return pat == 0 || (pat == 2 && i % 2 == 0) || (pat == 3 && i % 2 == 1); }
template <int PAT, size_t I>
GLUE auto elem_arg(const std::vector<El>& l) {
  if constexpr (int_at(PAT, I)) return int(l[I].v);
  else return mk(l[I]);
}
template <int RMK, typename T, int KS, int PAT, size_t... I>
GLUE void build_elems(const std::vector<El>& l, const Cont& k, std::index_sequence<I...>) {
  auto m = make_rm<RMK, T>(elem_arg<PAT, I>(l)...);
  deliver<KS>(m, k);
}
// is the (matcher, pattern, arity) combination instantiated?
constexpr bool elems_ok(int rmk, int pat, size_t n) {
  if (n > MAX_ELEMS) return false;
  if (n == 0) return pat == 0;
  if (n == 1) return pat <= 1;
  if (pat == 3) return n == 2;  // matcher-first alternation only for two elements (build time)
  return true;
}
template <int RMK, typename T, int KS, int PAT>
GLUE bool elems_by_arity(const std::vector<El>& l, const Cont& k) {
  constexpr size_t lo = (PAT == 0 && KS == KS_DYNAMIC) ? 4 : 0;                                    // all-int with 4 elements
  constexpr size_t hi = (PAT == 0 && (KS == KS_ALL || KS == KS_LIST_ONLY || KS == KS_VECTOR_ONLY)) ? 3 : 4;  // typed spellings: up to 3 elements
  if (l.size() < lo || l.size() > hi) return false;
  switch (l.size()) {
    case 0: if constexpr (0 >= lo && 0 <= hi && elems_ok(RMK, PAT, 0)) { build_elems<RMK, T, KS, PAT>(l, k, std::make_index_sequence<0>{}); return true; } break;
    case 1: if constexpr (1 >= lo && 1 <= hi && elems_ok(RMK, PAT, 1)) { build_elems<RMK, T, KS, PAT>(l, k, std::make_index_sequence<1>{}); return true; } break;
    case 2: if constexpr (2 >= lo && 2 <= hi && elems_ok(RMK, PAT, 2)) { build_elems<RMK, T, KS, PAT>(l, k, std::make_index_sequence<2>{}); return true; } break;
    case 3: if constexpr (3 >= lo && 3 <= hi && elems_ok(RMK, PAT, 3)) { build_elems<RMK, T, KS, PAT>(l, k, std::make_index_sequence<3>{}); return true; } break;
    case 4: if constexpr (4 >= lo && 4 <= hi && elems_ok(RMK, PAT, 4)) { build_elems<RMK, T, KS, PAT>(l, k, std::make_index_sequence<4>{}); return true; } break;
    default: break;
  }
  return false;
}

template <int RMK, size_t N>
GLUE void with_carr(const std::vector<El>& l, const Cont& k) {
  int a[N];  // stays alive while the matcher is used: the matcher keeps a view of a C array
  for (size_t i = 0; i < N; ++i) a[i] = l[i].v;
  auto m = make_rm<RMK, void>(a);
  deliver<KS_ALL>(m, k);
}

std::vector<int> values_of(const std::vector<El>& l) { std::vector<int> v; for (auto& e : l) v.push_back(e.v); return v; }

// builds the library matcher for (RMK, form, element list) and hands an evaluation function to k.
// returns false when the combination is not available (not instantiated / not expressible)
template <int RMK>
GLUE bool with_matcher_rm(Form f, const std::vector<El>& l, const Cont& k) {
  if constexpr (RMK >= M_ALL) {
    if (l.size() != 1) return false;
    if (f == F_ALL_I) { if (!l[0].plain) return false; auto m = make_rm<RMK, void>(int(l[0].v)); deliver<KS_ALL>(m, k); return true; }
    if (f == F_ALL_D) { auto m = make_rm<RMK, void>(mk(l[0])); deliver<KS_DYNAMIC>(m, k); return true; }
    if (f == F_TYPED_VEC) { auto m = make_rm<RMK, std::vector<int>>(mk(l[0])); deliver<KS_VECTOR_ONLY>(m, k); return true; }
    if (f == F_TYPED_LIST) { if (!l[0].plain) return false; auto m = make_rm<RMK, std::list<int>>(int(l[0].v)); deliver<KS_LIST_ONLY>(m, k); return true; }
    return false;
  } else {
    bool all_plain = true;
    for (auto& e : l) if (!e.plain) all_plain = false;
    auto pattern_fits = [&](int pat) { for (size_t i = 0; i < l.size(); ++i) if (int_at(pat, i) && !l[i].plain) return false; return true; };
    switch (f) {
      case F_ALL_I: return pattern_fits(0) && (l.size() == 4 ? elems_by_arity<RMK, void, KS_DYNAMIC, 0>(l, k) : elems_by_arity<RMK, void, KS_ALL, 0>(l, k));
      case F_ALL_D: return elems_by_arity<RMK, void, KS_DYNAMIC, 1>(l, k);
      case F_ALT_I: return pattern_fits(2) && elems_by_arity<RMK, void, KS_DYNAMIC, 2>(l, k);
      case F_ALT_D: return pattern_fits(3) && elems_by_arity<RMK, void, KS_DYNAMIC, 3>(l, k);
      case F_TYPED_VEC: return pattern_fits(0) && elems_by_arity<RMK, std::vector<int>, KS_VECTOR_ONLY, 0>(l, k);
      case F_TYPED_LIST: return pattern_fits(0) && elems_by_arity<RMK, std::list<int>, KS_LIST_ONLY, 0>(l, k);
      case F_VEC_LV: {
        if (!all_plain) return false;
        // the source container is gone before the matcher is used: the matcher must own a copy
        auto src = std::make_unique<std::vector<int>>(values_of(l));
        { auto first = make_rm<RMK, void>(*src); (void)first; }   // a named container is used for more than one matcher:
        auto m = make_rm<RMK, void>(*src);                        // the second one must still see the values
        src.reset();
        deliver<KS_ALL>(m, k);
        return true;
      }
      case F_VEC_RV: {
        if (!all_plain) return false;
        auto m = make_rm<RMK, void>(values_of(l));
        deliver<KS_ALL>(m, k);
        return true;
      }
      case F_TYPED_VEC_C: {
        if (!all_plain) return false;
        auto m = make_rm<RMK, std::vector<int>>(values_of(l));
        deliver<KS_VECTOR_ONLY>(m, k);
        return true;
      }
      case F_VEC_D: {
        std::vector<DM> ds;
        for (auto& e : l) ds.push_back(mk(e));
        auto m = make_rm<RMK, void>(std::move(ds));
        deliver<KS_DYNAMIC>(m, k);
        return true;
      }
      case F_CARR:
        if (!all_plain) return false;
        switch (l.size()) {
          case 1: with_carr<RMK, 1>(l, k); return true;
          case 2: with_carr<RMK, 2>(l, k); return true;
          case 3: with_carr<RMK, 3>(l, k); return true;
          case 4: with_carr<RMK, 4>(l, k); return true;
          default: return false;  // no zero-length C arrays
        }
      default: return false;
    }
  }
}
bool with_matcher(RM rm, Form f, const std::vector<El>& l, const Cont& k) {
  switch (rm) {
    case M_IS: return with_matcher_rm<M_IS>(f, l, k);
    case M_STARTS: return with_matcher_rm<M_STARTS>(f, l, k);
    case M_ENDS: return with_matcher_rm<M_ENDS>(f, l, k);
    case M_INCLUDES: return with_matcher_rm<M_INCLUDES>(f, l, k);
    case M_PERM: return with_matcher_rm<M_PERM>(f, l, k);
    case M_ALL: return with_matcher_rm<M_ALL>(f, l, k);
    case M_ANY: return with_matcher_rm<M_ANY>(f, l, k);
    default: return with_matcher_rm<M_NONE>(f, l, k);
  }
}

// =====================================================================================================
// 4. Batches: one matcher object, evaluated on a set of (kind, range) pairs
// =====================================================================================================
vc::Args A;
vc::Stats ST;
std::string g_last_fail;
bool g_verbose = false;

struct Counters {
  uint64_t evals = 0, accept = 0, reject = 0, order_dependent_skipped = 0, order_dependent_first_fit_asserted = 0, overlapping_asserted = 0, non_overlapping = 0;
  uint64_t by_rm[M_COUNT] = {}, by_form[F_COUNT] = {}, by_kind[K_COUNT] = {};
  uint64_t nt_dup_range = 0, nt_dup_list = 0, nt_len_off_by_one = 0, nt_empty_side = 0, nontrivial = 0;
  uint64_t batches = 0, form_unavailable = 0, excluded_perm_single = 0, mixed_element_type_cases = 0;
} CN;

struct Batch {
  RM rm = M_IS;
  Form form = F_ALL_I;
  std::vector<El> l;
  bool all_kinds = true, all_ranges = true;  // replay of an enumerated batch
  RKind kind = K_VEC;
  std::vector<int> range;
};

std::string batch_text(const Batch& b, const std::string& why, const RKind* k, const std::vector<int>* r) {
  std::string s = "# engine=R prop=C11\n";
  std::istringstream w(why);
  std::string ln;
  while (std::getline(w, ln)) s += "# " + ln + "\n";
  s += std::string("matcher ") + RM_NAME[b.rm] + "\n";
  s += std::string("form ") + FORM_NAME[b.form] + "\n";
  s += "elems";
  for (auto& e : b.l) s += " " + el_tok(e);
  s += "\n";
  s += std::string("kind ") + (k ? KIND_NAME[*k] : "*") + "\n";
  if (r) { s += "range"; for (int x : *r) s += " " + std::to_string(x); s += "\n"; }
  else s += "range *\n";
  return s;
}

int g_cur_fd = -1;
void save_current(const std::string& t) {  // left behind for the driver when a sanitizer ends the process
  if (g_cur_fd < 0) {
    std::string path = A.faildir + "/cur_case." + std::to_string(getpid()) + ".txt";
    g_cur_fd = open(path.c_str(), O_CREAT | O_WRONLY | O_TRUNC, 0644);
    if (g_cur_fd < 0) return;
  }
  if (pwrite(g_cur_fd, t.data(), t.size(), 0) == static_cast<ssize_t>(t.size())) { if (ftruncate(g_cur_fd, static_cast<off_t>(t.size())) != 0) {} }
}

bool has_dup(const std::vector<int>& v) { for (size_t i = 0; i < v.size(); ++i) for (size_t j = i + 1; j < v.size(); ++j) if (v[i] == v[j]) return true; return false; }
bool has_dup(const std::vector<El>& l) { for (size_t i = 0; i < l.size(); ++i) for (size_t j = i + 1; j < l.size(); ++j) if (acc_mask(l[i]) == acc_mask(l[j])) return true; return false; }

std::vector<std::vector<int>> g_ranges;  // the enumerated ranges of the current scope

// evaluates one (kind, range) pair of a batch; returns false on disagreement
bool eval_one(const Batch& b, const LibFn& lib, RKind k, const std::vector<int>& r, bool nonover, bool list_dup, std::string& why) {
  bool lv = lib(k, r);
  Verdict o = oracle(b.rm, b.l, r);
  CN.evals++;
  ST.evaluations++;
  CN.by_rm[b.rm]++; CN.by_form[b.form]++; CN.by_kind[k]++;
  (lv ? CN.accept : CN.reject)++;
  bool perm_or_incl = b.rm == M_INCLUDES || b.rm == M_PERM;
  if (perm_or_incl) {
    if (nonover) {
      CN.non_overlapping++;
      bool direct = by_classes(b.rm == M_PERM, b.l, r);
      if (o == V_EITHER || (o == V_ACCEPT) != direct) {
        fprintf(stderr, "r_main: internal error, the two formulations of the oracle disagree on %s %s vs %s\n", RM_NAME[b.rm], list_str(b.l).c_str(), range_str(r).c_str());
        exit(2);
      }
    } else if (o == V_EITHER) {
      bool a = det_first_fit(b.rm == M_PERM, b.l, r, false), c = det_first_fit(b.rm == M_PERM, b.l, r, true);
      if (a == c) { o = a ? V_ACCEPT : V_REJECT; CN.order_dependent_first_fit_asserted++; }
      else CN.order_dependent_skipped++;
    } else {
      CN.overlapping_asserted++;
    }
  }
  // non-trivial by the stated rule
  bool rd = has_dup(r);
  size_t ls = is_quant(b.rm) ? r.size() : b.l.size();
  bool off1 = !is_quant(b.rm) && (ls + 1 == r.size() || r.size() + 1 == ls);
  bool empty_side = r.empty() || (!is_quant(b.rm) && b.l.empty());
  if (rd || list_dup || off1 || empty_side) {
    CN.nontrivial++;
    if (rd) CN.nt_dup_range++;
    if (list_dup) CN.nt_dup_list++;
    if (off1) CN.nt_len_off_by_one++;
    if (empty_side) CN.nt_empty_side++;
    uint64_t h = vc::fnv1a(&b.rm, sizeof b.rm);
    for (auto& e : b.l) { unsigned am = acc_mask(e); h = vc::fnv1a(&am, sizeof am, h); }
    int sep = -1;
    h = vc::fnv1a(&sep, sizeof sep, h);
    if (!r.empty()) h = vc::fnv1a(r.data(), r.size() * sizeof(int), h);
    if (!ST.nontrivial.count(h)) ST.nontrivial_case(h, std::string(RM_NAME[b.rm]) + list_str(b.l) + " on " + range_str(r) + " [" + FORM_NAME[b.form] + ", " + KIND_NAME[k] + "]");
  }
  if (g_verbose) printf("  %-16s %-22s oracle %-8s library %s\n", KIND_NAME[k], range_str(r).c_str(), o == V_EITHER ? "either" : o == V_ACCEPT ? "accept" : "reject", lv ? "accept" : "reject");
  if (o != V_EITHER && (o == V_ACCEPT) != lv) {
    why = std::string("param_matches disagrees with the independent evaluator\nmatcher: ") + RM_NAME[b.rm] + list_str(b.l) + "   spelled as: " + FORM_NAME[b.form] +
          "\nrange (" + KIND_NAME[k] + "): " + range_str(r) + "\nexpected: " + (o == V_ACCEPT ? "accept" : "reject") + "   library: " + (lv ? "accept" : "reject") +
          (perm_or_incl ? (nonover ? "\n(element list is pairwise non-overlapping)" : "\n(overlapping element matchers, but every first-fit choice path gives the expected answer)") : "");
    return false;
  }
  return true;
}

// runs a batch; on disagreement writes a replay file for the single failing (kind, range) pair
bool run_batch(const Batch& b, std::string* why_out) {
  bool ok = true;
  std::string why;
  bool nonover = non_overlapping(b.l), list_dup = !is_quant(b.rm) && has_dup(b.l);
  RKind fk = K_VEC;
  std::vector<int> fr;
  bool available = with_matcher(b.rm, b.form, b.l, [&](const LibFn& lib, KindSet ks) {
    CN.batches++;
    if (b.all_kinds || b.all_ranges) {
      for (int k = 0; k < K_COUNT && ok; ++k) {
        if (!b.all_kinds && k != b.kind) continue;
        for (auto& r : g_ranges) {
          if (!b.all_ranges && r != b.range) continue;
          if (!kind_applicable(ks, static_cast<RKind>(k), r.size())) continue;
          if (!eval_one(b, lib, static_cast<RKind>(k), r, nonover, list_dup, why)) { ok = false; fk = static_cast<RKind>(k); fr = r; break; }
        }
      }
      if (!b.all_ranges && ok && std::find(g_ranges.begin(), g_ranges.end(), b.range) == g_ranges.end()) {
        for (int k = 0; k < K_COUNT && ok; ++k) {
          if (!b.all_kinds && k != b.kind) continue;
          if (!kind_applicable(ks, static_cast<RKind>(k), b.range.size())) continue;
          if (!eval_one(b, lib, static_cast<RKind>(k), b.range, nonover, list_dup, why)) { ok = false; fk = static_cast<RKind>(k); fr = b.range; }
        }
      }
    } else {
      RKind k = b.kind;
      if (!kind_applicable(ks, k, b.range.size())) k = ks == KS_LIST_ONLY ? K_LIST : K_VEC;  // this spelling is not instantiated for that kind
      if (!eval_one(b, lib, k, b.range, nonover, list_dup, why)) { ok = false; fk = k; fr = b.range; }
    }
  });
  if (!available) {
    if (b.rm == M_PERM && b.l.size() == 1 && is_elem_form(b.form)) CN.excluded_perm_single++;  // range_is_permutation(x) does not compile
    else CN.form_unavailable++;
    return true;
  }
  if (!ok) {
    std::string path = A.faildir + "/r_fail." + A.prop + "." + std::to_string(getpid()) + ".txt";
    vc::write_file(path, batch_text(b, why, &fk, &fr));
    g_last_fail = path;
    if (why_out) *why_out = why;
  }
  return ok;
}

void flush_counters() {
  ST.label("evaluations_accepted", CN.accept);
  ST.label("evaluations_rejected", CN.reject);
  ST.label("matcher_objects_built", CN.batches);
  ST.label("order_dependent_skipped", CN.order_dependent_skipped);
  ST.label("order_dependent_first_fit_asserted", CN.order_dependent_first_fit_asserted);
  ST.label("overlapping_but_every_choice_path_agrees", CN.overlapping_asserted);
  ST.label("includes_or_permutation_non_overlapping", CN.non_overlapping);
  for (int i = 0; i < M_COUNT; ++i) if (CN.by_rm[i]) ST.label(std::string("matcher_") + RM_NAME[i], CN.by_rm[i]);
  for (int i = 0; i < F_COUNT; ++i) if (CN.by_form[i]) ST.label(std::string("form_") + FORM_NAME[i], CN.by_form[i]);
  for (int i = 0; i < K_COUNT; ++i) if (CN.by_kind[i]) ST.label(std::string("range_kind_") + KIND_NAME[i], CN.by_kind[i]);
  ST.label("nontrivial_evaluations", CN.nontrivial);
  ST.label("nontrivial_range_has_duplicate", CN.nt_dup_range);
  ST.label("nontrivial_list_has_duplicate", CN.nt_dup_list);
  ST.label("nontrivial_length_off_by_one", CN.nt_len_off_by_one);
  ST.label("nontrivial_empty_side", CN.nt_empty_side);
  if (CN.form_unavailable) ST.label("spelling_not_available_for_case", CN.form_unavailable);
  if (CN.mixed_element_type_cases) ST.label("collection_with_another_element_type", CN.mixed_element_type_cases);
  if (CN.excluded_perm_single) ST.label("excluded_by_finding_single_element_range_is_permutation_does_not_compile", CN.excluded_perm_single);
  ST.extra_json["x_order_dependent_skipped"] = std::to_string(CN.order_dependent_skipped);
}

// =====================================================================================================
// 5. Exhaustive scope
// =====================================================================================================
void all_seqs(int lo, int hi, size_t maxlen, std::vector<std::vector<int>>& out) {
  out.clear();
  out.push_back({});
  size_t begin = 0;
  for (size_t len = 1; len <= maxlen; ++len) {
    size_t end = out.size();
    for (size_t i = begin; i < end; ++i)
      for (int v = lo; v <= hi; ++v) { auto s = out[i]; s.push_back(v); out.push_back(s); }
    begin = end;
  }
}

bool enumerate(size_t max_range, size_t max_list, std::string& why) {
  all_seqs(1, 3, max_range, g_ranges);
  std::vector<std::vector<int>> lists;
  all_seqs(1, 3, max_list, lists);
  const Form forms[] = {F_ALL_I, F_ALL_D, F_ALT_I, F_ALT_D, F_VEC_LV, F_VEC_RV, F_CARR, F_VEC_D, F_TYPED_VEC, F_TYPED_LIST, F_TYPED_VEC_C};
  for (int rm = M_IS; rm <= M_PERM; ++rm) {
    for (auto& lv : lists) {
      for (Form f : forms) {
        if ((f == F_ALT_I || f == F_ALT_D) && lv.size() < 2) continue;  // same spelling as all-int / all-matcher
        if (f == F_ALT_D && lv.size() != 2) continue;
        if (f == F_ALL_D && lv.empty()) continue;  // no elements: same spelling as the int list
        if (f == F_CARR && (lv.empty() || lv.size() > MAX_CARR_ELEMS)) continue;
        if ((f == F_TYPED_VEC || f == F_TYPED_LIST) && lv.size() > 3) continue;  // typed element lists are instantiated up to 3 elements
        Batch b;
        b.rm = static_cast<RM>(rm);
        b.form = f;
        for (int v : lv) {
          El e;
          e.v = v;
          // matcher positions get eq(v): pairwise non-overlapping by construction
          e.plain = true;
          b.l.push_back(e);
        }
        save_current(batch_text(b, "batch in progress when the process ended", nullptr, nullptr));
        if (!run_batch(b, &why)) return false;
      }
    }
  }
  // quantifiers: operand value 0..4 (outside and inside the alphabet) as plain value and as matcher, and relational operands
  for (int rm = M_ALL; rm <= M_NONE; ++rm) {
    for (int op = 0; op < O_COUNT; ++op) {
      for (int v = 0; v <= 4; ++v) {
        for (Form f : {F_ALL_I, F_ALL_D, F_TYPED_VEC, F_TYPED_LIST}) {
          Batch b;
          b.rm = static_cast<RM>(rm);
          b.form = f;
          El e;
          e.op = op; e.v = v; e.v2 = v + 2;
          e.plain = op == O_EQ && (f == F_ALL_I || f == F_TYPED_LIST);
          if (!e.plain && (f == F_ALL_I || f == F_TYPED_LIST)) continue;
          b.l.push_back(e);
          save_current(batch_text(b, "batch in progress when the process ended", nullptr, nullptr));
          if (!run_batch(b, &why)) return false;
        }
      }
    }
  }
  return true;
}

// =====================================================================================================
// 6. Random profile: lengths <= 8, alphabet 4, overlapping element matchers
// =====================================================================================================
int pick(int lo, int hi_excl) { return *rc::gen::resize(100, rc::gen::inRange(lo, hi_excl)); }

El gen_el(bool allow_matchers) {
  El e;
  int w = pick(0, 100);
  e.v = pick(0, 4);
  e.v2 = pick(0, 4);
  if (!allow_matchers || w < 35) { e.plain = true; e.op = O_EQ; return e; }
  e.plain = false;
  if (w < 50) e.op = O_EQ;
  else if (w < 58) e.op = O_NE;
  else if (w < 66) e.op = O_LT;
  else if (w < 74) e.op = O_LE;
  else if (w < 82) e.op = O_GT;
  else if (w < 90) e.op = O_GE;
  else if (w < 94) e.op = O_WILD;
  else e.op = O_ANY2;
  return e;
}

Batch gen_batch() {
  Batch b;
  b.all_kinds = b.all_ranges = false;
  int size = *rc::gen::withSize([](int s) { return rc::gen::just(s); });
  int w = pick(0, 100);
  b.rm = w < 30 ? M_PERM : w < 60 ? M_INCLUDES : w < 70 ? M_IS : w < 78 ? M_STARTS : w < 86 ? M_ENDS : static_cast<RM>(M_ALL + pick(0, 3));
  int maxr = std::min(8, 1 + size / 6);
  int rlen = pick(0, maxr + 1);
  for (int i = 0; i < rlen; ++i) b.range.push_back(pick(0, 4));
  auto pick_kind = [&]() {
    KindSet ks = ks_of(b.rm, b.form, b.l.size());
    std::vector<RKind> ok;
    for (int k = 0; k < K_COUNT; ++k) if (kind_applicable(ks, static_cast<RKind>(k), b.range.size())) ok.push_back(static_cast<RKind>(k));
    b.kind = ok[static_cast<size_t>(pick(0, static_cast<int>(ok.size())))];
  };
  if (is_quant(b.rm)) {
    b.l.push_back(gen_el(true));
    std::vector<Form> fs = {F_ALL_D, F_TYPED_VEC};
    if (b.l[0].plain) { fs.push_back(F_ALL_I); fs.push_back(F_TYPED_LIST); }
    b.form = fs[static_cast<size_t>(pick(0, static_cast<int>(fs.size())))];
    pick_kind();
    return b;
  }
  bool matchers = pick(0, 100) < 75;
  bool long_list = matchers && pick(0, 100) < 25;  // only expressible as a collection of matchers
  int llen = pick(0, long_list ? 7 : 5);
  // element lists close to the range are the interesting ones: often derive the list from the range
  bool derive = pick(0, 100) < 50;
  for (int i = 0; i < llen; ++i) {
    El e = gen_el(matchers);
    if (derive && !b.range.empty()) {
      int x = b.range[static_cast<size_t>(pick(0, static_cast<int>(b.range.size())))];
      if (e.plain || e.op == O_EQ) e.v = x;
      else if (e.op == O_ANY2) e.v = x;
    }
    b.l.push_back(e);
  }
  bool all_plain = true;
  for (auto& e : b.l) if (!e.plain) all_plain = false;
  std::vector<Form> fs;
  if (b.l.size() <= MAX_ELEMS) {
    if (!b.l.empty()) fs.push_back(F_ALL_D);
    auto fits = [&](int pat) { for (size_t i = 0; i < b.l.size(); ++i) if (int_at(pat, i) && !b.l[i].plain) return false; return true; };
    if (b.l.size() >= 2 && fits(2)) fs.push_back(F_ALT_I);
    if (b.l.size() == 2 && fits(3)) fs.push_back(F_ALT_D);
    if (all_plain) { fs.push_back(F_ALL_I); if (b.l.size() <= 3) { fs.push_back(F_TYPED_VEC); fs.push_back(F_TYPED_LIST); } }
  }
  if (all_plain) { fs.push_back(F_VEC_LV); fs.push_back(F_VEC_RV); fs.push_back(F_TYPED_VEC_C); if (!b.l.empty() && b.l.size() <= MAX_CARR_ELEMS) fs.push_back(F_CARR); }
  fs.push_back(F_VEC_D);
  if (b.rm == M_PERM && b.l.size() == 1) {
    // single-element element-list spelling is excluded by construction (does not compile); container spellings remain
    std::vector<Form> keep;
    for (Form f : fs) if (!is_elem_form(f)) keep.push_back(f);
    fs = keep;
  }
  b.form = fs[static_cast<size_t>(pick(0, static_cast<int>(fs.size())))];
  pick_kind();
  return b;
}

// =====================================================================================================
// 7. Replay
// =====================================================================================================
// ---- collection forms whose element type differs from the range's element type --------------------------------------
// "element-wise matches" are decided by r[i] == e[j] with the usual arithmetic conversions; an expected 2.5 is not the
// member 2, an expected 257 not the unsigned char 1. Exhaustive over small pools; replay line: `mixed <pair> <case>`.
#pragma GCC diagnostic push
#pragma GCC diagnostic ignored "-Wsign-compare"
#pragma GCC diagnostic ignored "-Wfloat-equal"
template <typename RT, typename ET>
static bool mixed_ref(int rm, const std::vector<RT>& r, const std::vector<ET>& e) {
  auto eq = [](const RT& a, const ET& b) { return a == b; };
  switch (rm) {
    case M_IS: if (r.size() != e.size()) return false; for (size_t i = 0; i < r.size(); ++i) if (!eq(r[i], e[i])) return false; return true;
    case M_STARTS: if (r.size() < e.size()) return false; for (size_t i = 0; i < e.size(); ++i) if (!eq(r[i], e[i])) return false; return true;
    case M_ENDS: if (r.size() < e.size()) return false; for (size_t i = 0; i < e.size(); ++i) if (!eq(r[r.size() - e.size() + i], e[i])) return false; return true;
    default: {  // includes / permutation: equality is exact here, so any assignment strategy gives the same answer
      std::vector<bool> used(r.size(), false);
      for (auto& x : e) { bool f = false; for (size_t i = 0; i < r.size() && !f; ++i) if (!used[i] && eq(r[i], x)) { used[i] = true; f = true; } if (!f) return false; }
      return rm == M_INCLUDES || r.size() == e.size();
    }
  }
}
template <typename RT, typename ET>
static bool mixed_pair(int pair_id, const std::vector<RT>& rpool, const std::vector<ET>& epool, const char* rn, const char* en, std::string& why, int only_pair, long only_case) {
  if (only_pair >= 0 && only_pair != pair_id) return true;
  long id = 0;
  auto lists = [](auto& pool, auto f) {
    using T = std::decay_t<decltype(pool[0])>;
    f(std::vector<T>{});
    for (auto& a : pool) f(std::vector<T>{a});
    for (auto& a : pool) for (auto& b : pool) f(std::vector<T>{a, b});
  };
  bool ok = true;
  lists(rpool, [&](const std::vector<RT>& r) {
    lists(epool, [&](const std::vector<ET>& e) {
      for (int rm : {int(M_IS), int(M_STARTS), int(M_ENDS), int(M_INCLUDES), int(M_PERM)}) {
        long my = id++;
        if (!ok || (only_case >= 0 && my != only_case)) continue;
        ST.evaluations++;
        CN.mixed_element_type_cases++;
        bool want = mixed_ref(rm, r, e), got = false;
        std::vector<ET> named = e;   // a named, non-const container (the same object is used for the matcher and afterwards)
        switch (rm) {
          case M_IS: got = trompeloeil::param_matches(trompeloeil::range_is(named), std::cref(r)); break;
          case M_STARTS: got = trompeloeil::param_matches(trompeloeil::range_starts_with(named), std::cref(r)); break;
          case M_ENDS: got = trompeloeil::param_matches(trompeloeil::range_ends_with(named), std::cref(r)); break;
          case M_INCLUDES: got = trompeloeil::param_matches(trompeloeil::range_includes(named), std::cref(r)); break;
          default: got = trompeloeil::param_matches(trompeloeil::range_is_permutation(named), std::cref(r)); break;
        }
        if (got != want || named != e) {
          std::ostringstream os;
          os << "collection form with another element type: " << RM_NAME[rm] << "(std::vector<" << en << ">{";
          for (auto& x : e) os << ' ' << +x;
          os << " }) on std::vector<" << rn << ">{";
          for (auto& x : r) os << ' ' << +x;
          os << " }: accepted = " << got << ", element-wise == says " << want << (named != e ? "; the named container was changed" : "");
          why = os.str() + "\nmixed " + std::to_string(pair_id) + " " + std::to_string(my);
          ok = false;
        }
      }
    });
  });
  return ok;
}
#pragma GCC diagnostic pop
static bool mixed_all(std::string& why, int only_pair = -1, long only_case = -1) {
  return mixed_pair<int, double>(0, {2, 3, -1}, {2.5, 2.0, 3.0, -1.0}, "int", "double", why, only_pair, only_case)
      && mixed_pair<unsigned char, int>(1, {1, 44, 255}, {257, 1, 300, 255}, "unsigned char", "int", why, only_pair, only_case)
      && mixed_pair<int, long long>(2, {3, 0, -1}, {(1LL << 32) + 3, 3, 1LL << 32, -1}, "int", "long long", why, only_pair, only_case)
      && mixed_pair<float, double>(3, {0.1f, 2.5f}, {0.1, 2.5, static_cast<double>(0.1f)}, "float", "double", why, only_pair, only_case)
      && mixed_pair<long long, int>(4, {5, 1LL << 32, -1}, {5, 0, -1}, "long long", "int", why, only_pair, only_case);
}

int do_replay(const std::string& path, bool verbose) {
  std::istringstream in(vc::read_file(path));
  std::string line;
  Batch b;
  b.all_kinds = b.all_ranges = false;
  bool have_m = false, have_f = false, have_k = false, have_r = false, have_e = false;
  while (std::getline(in, line)) {
    if (line.empty() || line[0] == '#') continue;
    if (line.rfind("mixed ", 0) == 0) {
      int pr = 0; long cs = 0;
      sscanf(line.c_str() + 6, "%d %ld", &pr, &cs);
      std::string why;
      bool good = mixed_all(why, pr, cs);
      if (verbose) printf("replay %s: collection with another element type %d %ld: %s\n%s\n", path.c_str(), pr, cs, good ? "passes" : "FAILS", why.c_str());
      return good ? 0 : 1;
    }
    std::istringstream ls(line);
    std::string key, t;
    ls >> key;
    if (key == "matcher") { ls >> t; for (int i = 0; i < M_COUNT; ++i) if (t == RM_NAME[i]) { b.rm = static_cast<RM>(i); have_m = true; } }
    else if (key == "form") { ls >> t; for (int i = 0; i < F_COUNT; ++i) if (t == FORM_NAME[i]) { b.form = static_cast<Form>(i); have_f = true; } }
    else if (key == "kind") { ls >> t; if (t == "*") { b.all_kinds = true; have_k = true; } for (int i = 0; i < K_COUNT; ++i) if (t == KIND_NAME[i]) { b.kind = static_cast<RKind>(i); have_k = true; } }
    else if (key == "elems") { have_e = true; while (ls >> t) { El e; if (!el_parse(t, e)) { fprintf(stderr, "bad element token: %s\n", t.c_str()); return 2; } b.l.push_back(e); } }
    else if (key == "range") { have_r = true; while (ls >> t) { if (t == "*") { b.all_ranges = true; break; } int x = atoi(t.c_str()); if (x < ALPHA_LO || x > ALPHA_HI) { fprintf(stderr, "range member outside %d..%d\n", ALPHA_LO, ALPHA_HI); return 2; } b.range.push_back(x); } }
    else { fprintf(stderr, "bad replay line: %s\n", line.c_str()); return 2; }
  }
  if (!have_m || !have_f || !have_k || !have_r || !have_e) { fprintf(stderr, "replay file incomplete\n"); return 2; }
  if (is_quant(b.rm) && b.l.size() != 1) { fprintf(stderr, "quantifier needs exactly one operand\n"); return 2; }
  if (b.l.size() > 6 || b.range.size() > 8) { fprintf(stderr, "case outside the generated scope\n"); return 2; }
  if (b.all_ranges || b.all_kinds) all_seqs(1, 3, A.get("scope", "small") == "full" ? 5 : 4, g_ranges);
  g_verbose = verbose;
  if (verbose) printf("%s%s spelled as %s\n", RM_NAME[b.rm], list_str(b.l).c_str(), FORM_NAME[b.form]);
  std::string why;
  uint64_t before = CN.batches;
  bool ok = run_batch(b, &why);
  if (CN.batches == before) { fprintf(stderr, "this spelling is not available for this element list\n"); return 2; }
  if (verbose) {
    if (!ok) printf("DISAGREEMENT\n%s\n", why.c_str());
    printf("replay %s: %s\n", path.c_str(), ok ? "passes" : "FAILS");
  }
  return ok ? 0 : 1;
}

}  // namespace

int main(int argc, char** argv) {
  A = vc::parse_args(argc, argv);
  if (A.prop.empty()) A.prop = "C11";
  std::string mode = A.get("mode", "all");
  bool full = A.get("scope", "small") == "full";
  size_t max_range = full ? 5 : 4, max_list = full ? 4 : 3;
  ST.rule = std::string("exhaustive: every range over {1,2,3} of length <= ") + std::to_string(max_range) + " x every element list over {1,2,3} of length <= " + std::to_string(max_list) +
            " x {range_is, range_starts_with, range_ends_with, range_includes, range_is_permutation} x 11 spellings (element list of ints / type-erased eq matchers / mixed, "
            "vector lvalue / temporary, C array, vector of matchers, explicitly typed) x {vector, list, deque, std::array, C array, initializer-list vector}, and the three quantifiers with 8 operand kinds; "
            "random (rapidcheck): ranges of length <= 8 over {0..3}, element lists of <= 6 plain values or eq/ne/lt/le/gt/ge/_/any_of matchers (overlapping), "
            "includes / permutation judged by a nondeterministic first-fit simulation and asserted only when every choice path agrees. "
            "non-trivial = range or element list has a duplicate, or lengths differ by exactly one, or one side is empty; distinct = FNV-1a of (matcher, acceptance sets of the list, range)";
  trompeloeil::set_reporter([](trompeloeil::severity, char const*, unsigned long, std::string const&) {});
  if (!A.replay.empty()) {
    int rc = do_replay(A.replay, A.has("verbose") || !A.has("quiet"));
    flush_counters();
    ST.write(A.out);
    return rc;
  }
  bool ok = true;
  {
    std::string why;
    if (!mixed_all(why)) {
      ok = false;
      std::string path = A.faildir + "/r_fail." + A.prop + "." + std::to_string(getpid()) + ".txt";
      std::string txt = "# engine=R prop=C11\n", last, l;
      std::istringstream w(why);
      while (std::getline(w, l)) { if (l.rfind("mixed ", 0) == 0) last = l; else txt += "# " + l + "\n"; }
      vc::write_file(path, txt + last + "\n");
      g_last_fail = path;
      if (!A.has("quiet")) fprintf(stderr, "%s\n", why.c_str());
    }
  }
  if (ok && (mode == "all" || mode == "enum")) {
    std::string why;
    ok = enumerate(max_range, max_list, why);
    if (ok) { ST.exhaustive = mode == "enum"; ST.extra_json["x_exhaustive_scope"] = "\"ranges<=" + std::to_string(max_range) + " lists<=" + std::to_string(max_list) + " complete\""; }
    else if (!A.has("quiet")) fprintf(stderr, "enumeration: %s\n", why.c_str());
  }
  if (ok && (mode == "all" || mode == "random")) {
    ok = rc::check("C11 range matchers agree with the independent evaluator", [&]() {
      Batch b = gen_batch();
      save_current(batch_text(b, "case in progress when the process ended", &b.kind, &b.range));
      std::string why;
      if (!run_batch(b, &why)) RC_FAIL(why);
    });
  }
  flush_counters();
  if (!ok && !g_last_fail.empty()) ST.violations.push_back({g_last_fail, "oracle disagreement (see replay header)"});
  ST.write(A.out);
  return ok ? 0 : 1;
}

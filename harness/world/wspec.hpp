// Plain data shared by the model, the interpreter, the real-world adapter and the site TUs.
// No trompeloeil, no rapidcheck.
#pragma once
#include <string>
#include <vector>

namespace w {

constexpr int NOBJ = 3;    // mock object slots
constexpr int OBJ_FIXED = 1;  // this slot holds the non-movable mock class
constexpr int NSLOT = 8;   // data-driven expectation slots (one site file each)
constexpr int NLIT = 4;    // literal-site expectation slots (compile-time spellings)
constexpr int NSC = 2;     // slots of scoped (non-NAMED) expectations alive inside a scoped block
constexpr int NALL = NSLOT + NLIT + NSC;
constexpr int NSEQ = 3;    // sequence object slots
constexpr int NDW = 3;     // deathwatched object slots
constexpr int NMON = 3;    // lifetime-monitor slots per deathwatched object
constexpr int NMONX = NMON + 1;  // + one slot for a scoped (non-NAMED) REQUIRE_DESTRUCTION inside a scoped block
constexpr int MAXTR = 3;   // tracer nesting depth

enum Func { F_f = 0, F_h, F_ovi, F_ovs, F_v, F_cf, F_g, F_w, NFUNC };   // F_w: twelve int parameters (two-digit positions in reports and trace records)
inline const char* func_name(int f) {
  static const char* n[] = {"f", "h", "ov(int)", "ov(string)", "v", "cf", "g", "w"};
  return (f >= 0 && f < NFUNC) ? n[f] : "?";
}
inline int func_arity(int f) { return f == F_g ? 2 : f == F_w ? 12 : 1; }
// position (0-based) of the parameter the second matcher / second WITH / second call argument refers to; -1: none
inline int second_pos(int f) { return f == F_g ? 1 : f == F_w ? 10 : -1; }
// the arguments of a call: F_w passes a0 first, a1 eleventh and values derived from a0 elsewhere
inline int call_arg(int f, int k, int a0, int a1) { return k == 0 ? a0 : k == second_pos(f) ? a1 : (a0 + k) % 7; }

// parameter matcher kinds (all realised by the *library's* matchers behind a type-erased wrapper)
enum MKind { M_WILD = 0, M_ANY, M_VALUE, M_EQ, M_NE, M_LT, M_LE, M_GT, M_GE, NMKIND };
struct MSpec { int kind = M_WILD; int val = 0; };

inline bool mspec_accepts(const MSpec& m, int x) {
  switch (m.kind) {
    case M_WILD: case M_ANY: return true;
    case M_VALUE: case M_EQ: return x == m.val;
    case M_NE: return x != m.val;
    case M_LT: return x < m.val;
    case M_LE: return x <= m.val;
    case M_GT: return x > m.val;
    case M_GE: return x >= m.val;
  }
  return false;
}

// WITH clause behaviours (data): evaluated on the key of parameter 1
enum WKind { W_OFF = 0, W_TRUE, W_EVEN, W_ODD, W_FALSE, W_LT3, NWKIND };
inline bool with_accepts(int wk, int key) {
  switch (wk) {
    case W_OFF: case W_TRUE: return true;
    case W_EVEN: return key % 2 == 0;
    case W_ODD: return key % 2 != 0;
    case W_FALSE: return false;
    case W_LT3: return key < 3;
    case 100: return key > 2;  // W_GT2, literal form WITH(_1 > 2)
  }
  return true;
}

// SIDE_EFFECT behaviours (data)
enum XKind { X_OFF = 0, X_LOG, X_THROW, X_NEST, X_TRACER, NXKIND };   // X_TRACER: the side effect constructs a tracer that stays alive

constexpr long INF = -1;  // "hi" value meaning unbounded

struct Spec {
  int eid = -1;          // unique id of this expectation instance (assigned by interpreter)
  int slot = 0;          // expectation slot (site file)
  int obj = 0;           // mock object slot
  int func = 0;          // Func
  int term = 0;          // 0: RETURN (nothing for void) 1: THROW
  int nseq = 0;          // number of sequences named (0..3)
  int seq[3] = {0, 0, 0};   // sequence slots named, distinct
  long lo = 1, hi = 1;   // RT_TIMES(lo,hi); hi == INF unbounded
  MSpec m[2];            // parameter matchers
  int with[2] = {W_OFF, W_OFF};
  int fx[2] = {X_OFF, X_OFF};
  int fxa[2][3] = {{0, 0, 0}, {0, 0, 0}};  // nested call (obj, func, arg) for X_NEST
  int lit = -1;          // >=0: literal site form (compile-time spellings), see lit_forms
};

// What a real mock call did, as seen by the caller.
enum ResKind { R_RETURNED = 0, R_THROWN, R_SIDE_EXC, R_FATAL, R_OTHER_EXC };
struct CallResult {
  int kind = R_RETURNED;
  long value = 0;  // R_RETURNED: returned int (eid of handler, 0 for void); R_THROWN / R_SIDE_EXC: eid
  std::string what;
  bool operator==(const CallResult& o) const { return kind == o.kind && value == o.value; }
};
inline std::string show(const CallResult& r) {
  static const char* k[] = {"returned", "thrown", "side_exc", "fatal_report", "other_exception"};
  return std::string(k[r.kind]) + "(" + std::to_string(r.value) + ")" + (r.what.empty() ? "" : " " + r.what);
}

// Observation log filled by the real world's callbacks.
struct RReport { bool fatal; std::string file; unsigned long line; std::string msg; int activity; int gen; };
struct ROk { std::string msg; int gen; };
struct RTrace { int tracer; std::string file; unsigned long line; std::string text; };
enum ClauseType { C_WITH = 0, C_FX, C_RET, C_THROW };
struct Clause {
  int type, eid, idx, depth;
  bool operator==(const Clause& o) const { return type == o.type && eid == o.eid && idx == o.idx && depth == o.depth; }
};
struct RNested { int depth; int obj, func, arg; CallResult res; };
struct Log {
  std::vector<RReport> reports;
  std::vector<ROk> oks;
  std::vector<RTrace> traces;
  std::vector<Clause> clauses;
  std::vector<RNested> nested;
  void clear() { reports.clear(); oks.clear(); traces.clear(); clauses.clear(); nested.clear(); }
};

enum Activity { ACT_NONE = 0, ACT_CALL, ACT_CREATE, ACT_RELEASE, ACT_DESTROY_MOCK, ACT_DESTROY_SEQ, ACT_DESTROY_DW, ACT_UNWATCH, ACT_OTHER };

}  // namespace w

// Scoped expectation sites: the non-NAMED macros (REQUIRE_CALL / ALLOW_CALL / FORBID_CALL), whose lifetime is the
// enclosing C++ block. A scoped block is executed inside one function: expectation A, optionally expectation B,
// the calls, then scope exit (B is destroyed before A). One form per source line.
#include "mocks.hpp"
#include "wlit.hpp"
#include "wreal.hpp"
#include <functional>

namespace w {
using trompeloeil::_;
using trompeloeil::ge;
using trompeloeil::lt;
using trompeloeil::ne;

const char* scoped_file() { return __FILE__; }

namespace {
#define W_SC(LIT, STMT) case LIT: { STMT; *line = __LINE__; created(); body(); real::g_activity = ACT_RELEASE; } break;
template <class M>
void with_scoped(int lit, int eid, M& sm, unsigned long* line, const std::function<void()>& created, const std::function<void()>& body) {
  real::g_activity = ACT_CREATE;
  switch (lit) {
    W_SC(16, REQUIRE_CALL(sm, f(_)).RETURN(wret(eid)))
    W_SC(17, ALLOW_CALL(sm, f(ge(2))).RETURN(wret(eid)))
    W_SC(18, FORBID_CALL(sm, f(3)))
    W_SC(19, REQUIRE_CALL(sm, f(lt(3))).TIMES(2).SIDE_EFFECT(wfx(eid, 0)).RETURN(wret(eid)))
    W_SC(20, REQUIRE_CALL(sm, f(1)).TIMES(AT_LEAST(1)).RETURN(wret(eid)))
    W_SC(21, REQUIRE_CALL(sm, f(_)).WITH(_1 > 2).TIMES(AT_MOST(2)).RETURN(wret(eid)))
    W_SC(22, REQUIRE_CALL(sm, v(_)).SIDE_EFFECT(wfx(eid, 0)))
    W_SC(23, REQUIRE_CALL(sm, f(ne(0))).RETURN(wret(eid)))
    W_SC(24, FORBID_CALL_V(sm, v(_), .WITH(_1 > 2)))
    W_SC(25, REQUIRE_CALL_V(sm, f(_), .RETURN(wret(eid))))
    W_SC(26, ALLOW_CALL_V(sm, f(ge(2)), .RETURN(wret(eid))))
    W_SC(27, FORBID_CALL_V(sm, f(3)))
    W_SC(28, REQUIRE_CALL_V(sm, f(lt(3)), .TIMES(2) .SIDE_EFFECT(wfx(eid, 0)) .RETURN(wret(eid))))
    W_SC(29, FORBID_CALL_V(sm, v(_)))
  }
  real::g_activity = ACT_NONE;
}
#undef W_SC
}  // namespace

namespace real {
void scoped_note(int scslot, const Spec& s, unsigned long line);  // real.cpp: registers spec and line of a scoped slot
void scoped_forget(int scslot);

namespace {
template <class M>
void scoped_run_impl(M& m, int obj, const Spec* A, const Spec* B, const std::vector<ScopedCall>& calls,
                     void (*step)(void* ctx, int kind, int index, const CallResult& r), void* ctx) {
  unsigned long lineA = 0, lineB = 0;
  auto do_calls = [&] {
    for (size_t i = 0; i < calls.size(); ++i) {
      CallResult r = call(obj, calls[i].func, calls[i].a0, calls[i].a1);
      step(ctx, 2, static_cast<int>(i), r);
    }
  };
  scoped_note(0, *A, 0);
  if (B) scoped_note(1, *B, 0);
  with_scoped(A->lit, A->eid, m, &lineA,
              [&] { scoped_note(0, *A, lineA); g_activity = ACT_NONE; step(ctx, 0, 0, CallResult{}); },
              [&] {
                if (B) {
                  with_scoped(B->lit, B->eid, m, &lineB,
                              [&] { scoped_note(1, *B, lineB); g_activity = ACT_NONE; step(ctx, 1, 0, CallResult{}); },
                              do_calls);
                  step(ctx, 3, 0, CallResult{});
                } else do_calls();
              });
  step(ctx, 4, 0, CallResult{});
  scoped_forget(0);
  scoped_forget(1);
}
}  // namespace

void scoped_run(int obj, const Spec* A, const Spec* B, const std::vector<ScopedCall>& calls,
                void (*step)(void* ctx, int kind, int index, const CallResult& r), void* ctx) {
  with_mock(obj, [&](auto& m) { scoped_run_impl(m, obj, A, B, calls, step, ctx); });
}
}  // namespace real
}  // namespace w

// Literal expectation sites: compile-time spellings of bounds and the library's own matchers
// written literally. Pure data here (no trompeloeil); the sites are in lit.cpp, line by line
// in the same order.
#pragma once
#include "wspec.hpp"

namespace w {

struct LitForm {
  int func; long lo, hi; MSpec m0, m1; int with0; int fx0; bool has_return; const char* text;
};
// W_GT2 is only used by literal form 13 (WITH(_1 > 2))
constexpr int W_GT2 = 100;
constexpr int NLITNAMED = 16;   // forms 0..15 are NAMED_ sites (lit.cpp)
constexpr int NLITALL = 30;     // forms 16..29 are scoped sites (scoped.cpp)
constexpr int NLITNAMEDV = 9;   // forms 30..33 are NAMED_ variadic spellings, 34..38 the spellings of run-time bounds (lit.cpp)

inline const LitForm* lit_forms() {
  static const LitForm f[] = {
    /* 0*/ {F_f, 1, 1, {M_WILD, 0}, {M_WILD, 0}, W_OFF, X_OFF, true, ".f(_)"},
    /* 1*/ {F_f, 2, 2, {M_VALUE, 1}, {M_WILD, 0}, W_OFF, X_OFF, true, ".f(1)"},
    /* 2*/ {F_f, 1, 3, {M_ANY, 0}, {M_WILD, 0}, W_OFF, X_OFF, true, ".f(ANY(int))"},
    /* 3*/ {F_f, 2, INF, {M_EQ, 2}, {M_WILD, 0}, W_OFF, X_OFF, true, ".f(eq(2))"},
    /* 4*/ {F_f, 0, 2, {M_LT, 3}, {M_WILD, 0}, W_OFF, X_OFF, true, ".f(lt(3))"},
    /* 5*/ {F_f, 0, INF, {M_WILD, 0}, {M_WILD, 0}, W_OFF, X_OFF, true, ".f(_)"},
    /* 6*/ {F_f, 0, INF, {M_GE, 2}, {M_WILD, 0}, W_OFF, X_OFF, true, ".f(ge(2))"},
    /* 7*/ {F_f, 0, 0, {M_WILD, 0}, {M_WILD, 0}, W_OFF, X_OFF, false, ".f(_)"},
    /* 8*/ {F_f, 0, 0, {M_VALUE, 3}, {M_WILD, 0}, W_OFF, X_OFF, false, ".f(3)"},
    /* 9*/ {F_f, 0, 0, {M_NE, 1}, {M_WILD, 0}, W_OFF, X_OFF, false, ".f(ne(1))"},
    /*10*/ {F_g, 1, 1, {M_WILD, 0}, {M_GT, 1}, W_OFF, X_OFF, true, ".g(_, gt(1))"},
    /*11*/ {F_g, 0, INF, {M_LE, 2}, {M_WILD, 0}, W_OFF, X_OFF, true, ".g(le(2), _)"},
    /*12*/ {F_v, 2, 2, {M_WILD, 0}, {M_WILD, 0}, W_OFF, X_LOG, false, ".v(_)"},
    /*13*/ {F_f, 1, 1, {M_WILD, 0}, {M_WILD, 0}, W_GT2, X_OFF, true, ".f(_)"},
    /*14*/ {F_ovi, 0, INF, {M_ANY, 0}, {M_WILD, 0}, W_OFF, X_OFF, true, ".ov(ANY(int))"},
    /*15*/ {F_ovs, 0, INF, {M_ANY, 0}, {M_WILD, 0}, W_OFF, X_OFF, true, ".ov(ANY(std::string const&))"},
    // scoped forms (scoped.cpp): the non-NAMED macros, alive until the end of the enclosing block
    /*16*/ {F_f, 1, 1, {M_WILD, 0}, {M_WILD, 0}, W_OFF, X_OFF, true, "sm.f(_)"},
    /*17*/ {F_f, 0, INF, {M_GE, 2}, {M_WILD, 0}, W_OFF, X_OFF, true, "sm.f(ge(2))"},
    /*18*/ {F_f, 0, 0, {M_VALUE, 3}, {M_WILD, 0}, W_OFF, X_OFF, false, "sm.f(3)"},
    /*19*/ {F_f, 2, 2, {M_LT, 3}, {M_WILD, 0}, W_OFF, X_LOG, true, "sm.f(lt(3))"},
    /*20*/ {F_f, 1, INF, {M_VALUE, 1}, {M_WILD, 0}, W_OFF, X_OFF, true, "sm.f(1)"},
    /*21*/ {F_f, 0, 2, {M_WILD, 0}, {M_WILD, 0}, W_GT2, X_OFF, true, "sm.f(_)"},
    /*22*/ {F_v, 1, 1, {M_WILD, 0}, {M_WILD, 0}, W_OFF, X_LOG, false, "sm.v(_)"},
    /*23*/ {F_f, 1, 1, {M_NE, 0}, {M_WILD, 0}, W_OFF, X_OFF, true, "sm.f(ne(0))"},
    // the variadic spellings (documented in docs/Backward.md, usable at every language level): clauses are macro arguments
    /*24*/ {F_v, 0, 0, {M_WILD, 0}, {M_WILD, 0}, W_GT2, X_OFF, false, "sm.v(_)"},            // FORBID_CALL_V(sm, v(_), .WITH(_1 > 2))
    /*25*/ {F_f, 1, 1, {M_WILD, 0}, {M_WILD, 0}, W_OFF, X_OFF, true, "sm.f(_)"},             // REQUIRE_CALL_V(sm, f(_), .RETURN(...))
    /*26*/ {F_f, 0, INF, {M_GE, 2}, {M_WILD, 0}, W_OFF, X_OFF, true, "sm.f(ge(2))"},         // ALLOW_CALL_V(sm, f(ge(2)), .RETURN(...))
    /*27*/ {F_f, 0, 0, {M_VALUE, 3}, {M_WILD, 0}, W_OFF, X_OFF, false, "sm.f(3)"},           // FORBID_CALL_V(sm, f(3))
    /*28*/ {F_f, 2, 2, {M_LT, 3}, {M_WILD, 0}, W_OFF, X_LOG, true, "sm.f(lt(3))"},           // REQUIRE_CALL_V(sm, f(lt(3)), .TIMES(2) .SIDE_EFFECT(...) .RETURN(...))
    /*29*/ {F_v, 0, 0, {M_WILD, 0}, {M_WILD, 0}, W_OFF, X_OFF, false, "sm.v(_)"},            // FORBID_CALL_V(sm, v(_))
    // NAMED_ variadic spellings (lit.cpp)
    /*30*/ {F_v, 0, 0, {M_WILD, 0}, {M_WILD, 0}, W_GT2, X_OFF, false, ".v(_)"},              // NAMED_FORBID_CALL_V(m, v(_), .WITH(_1 > 2))
    /*31*/ {F_f, 2, 2, {M_WILD, 0}, {M_WILD, 0}, W_OFF, X_OFF, true, ".f(_)"},               // NAMED_REQUIRE_CALL_V(m, f(_), .TIMES(2) .RETURN(...))
    /*32*/ {F_f, 0, INF, {M_LE, 1}, {M_WILD, 0}, W_OFF, X_OFF, true, ".f(le(1))"},           // NAMED_ALLOW_CALL_V(m, f(le(1)), .RETURN(...))
    /*33*/ {F_f, 0, 0, {M_VALUE, 4}, {M_WILD, 0}, W_OFF, X_OFF, false, ".f(4)"},             // NAMED_FORBID_CALL_V(m, f(4))
    // every documented spelling of a run-time bound (the data-driven sites only write RT_TIMES(lo, hi))
    /*34*/ {F_f, 2, 2, {M_WILD, 0}, {M_WILD, 0}, W_OFF, X_OFF, true, ".f(_)"},               // .RT_TIMES(n)
    /*35*/ {F_f, 1, INF, {M_WILD, 0}, {M_WILD, 0}, W_OFF, X_OFF, true, ".f(_)"},             // .RT_TIMES(AT_LEAST(n))
    /*36*/ {F_f, 0, 2, {M_WILD, 0}, {M_WILD, 0}, W_OFF, X_OFF, true, ".f(_)"},               // .RT_TIMES(AT_MOST(n))
    /*37*/ {F_f, 1, 1, {M_GE, 2}, {M_WILD, 0}, W_OFF, X_OFF, true, ".f(ge(2))"},             // .RT_TIMES(1)
    /*38*/ {F_v, 3, 3, {M_WILD, 0}, {M_WILD, 0}, W_OFF, X_OFF, false, ".v(_)"},              // NAMED_REQUIRE_CALL_V(m, v(_), .RT_TIMES(n))
  };
  return f;
}

}  // namespace w

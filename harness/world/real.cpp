// The real world: trompeloeil objects on the heap, driven only through documented entry points.
#include "mocks.hpp"
#include "wreal.hpp"
#include <cstdio>
#include <cstdlib>
#include <map>
#include <sstream>
#include <trompeloeil/stream_tracer.hpp>

namespace w {

namespace real {
Log g_log;
int g_activity = ACT_NONE;
}
using real::g_log;
using real::g_activity;

namespace {
// texts are kept with every NUL byte made visible (an argument may be a string with an embedded NUL): what follows it stays
// part of the text for every later comparison
std::string visible_nul(const std::string& t) { std::string o; for (char c : t) { if (c == '\0') o += "\\0"; else o += c; } return o; }

using trompeloeil::deathwatched;
using trompeloeil::expectation;
using trompeloeil::sequence;
using trompeloeil::severity;

struct RecTracer : trompeloeil::tracer {
  int id;
  explicit RecTracer(int i) : id(i) {}
  void trace(char const* file, unsigned long line, std::string const& call) override {
    g_log.traces.push_back(RTrace{id, file ? file : "", line, visible_nul(call)});
  }
};

// the library's own stream_tracer writing to a string stream; drained into the same trace log
struct StreamTr {
  int id;
  std::ostringstream os;
  trompeloeil::stream_tracer tr;
  explicit StreamTr(int i) : id(i), tr(os) {}
};
struct TracerSlot { std::unique_ptr<RecTracer> rec; std::unique_ptr<StreamTr> st; };

struct State {
  Mk* mock[NOBJ] = {};      // slot OBJ_FIXED stays null here ...
  MkN* fixed = nullptr;     // ... its object is of the non-movable class
  std::vector<Mk*> husk;
  ExpPtr slot[NSLOT + NLIT];
  unsigned long line[NALL] = {};
  std::unique_ptr<sequence> seq[NSEQ];
  deathwatched<Dwt>* dw[NDW] = {};
  ExpPtr mon[NDW][NMON];
  unsigned long monline[NDW][NMONX] = {};
  std::vector<TracerSlot> tracers;
  int tracer_ids = 0;
  int gen = 0;
  int okgen = 0;
  int depth = 0;  // nesting depth of mock calls in progress
  std::map<int, Spec> specs;
};
State* S = nullptr;

// Objects of static storage duration, constructed before the library is used for the first time (the CookBook's global
// mock idiom): the expectation is placed at the first reset() and both die during static destruction, after main().
Mk g_static_mock;
ExpPtr g_static_exp;

// one call of mock function `func` on a mock object of either class
template <class M>
long invoke(M& m, int func, int a0, int a1) {
  switch (func) {
    case F_f: return m.f(a0);
    case F_h: return m.h(a0);
    case F_ovi: return m.ov(a0);
    case F_ovs: return m.ov(a0 == 77 ? std::string("77\0z", 4) : std::to_string(a0));   // 77: a string with an embedded NUL (reports and trace records must go on after it)
    case F_v: m.v(a0); return 0;
    case F_cf: return static_cast<M const&>(m).cf(a0);
    case F_g: return m.g(a0, a1);
    case F_w: return m.w(call_arg(F_w, 0, a0, a1), call_arg(F_w, 1, a0, a1), call_arg(F_w, 2, a0, a1), call_arg(F_w, 3, a0, a1), call_arg(F_w, 4, a0, a1), call_arg(F_w, 5, a0, a1),
                         call_arg(F_w, 6, a0, a1), call_arg(F_w, 7, a0, a1), call_arg(F_w, 8, a0, a1), call_arg(F_w, 9, a0, a1), call_arg(F_w, 10, a0, a1), call_arg(F_w, 11, a0, a1));
  }
  return 0;
}

void install_reporter(int gen, bool with_ok, trompeloeil::reporter_func* old_r, trompeloeil::ok_reporter_func* old_ok) {
  auto r = [gen](severity s, char const* file, unsigned long line, std::string const& msg) {
    bool fatal = s == severity::fatal;
    g_log.reports.push_back(RReport{fatal, file ? file : "", line, visible_nul(msg), g_activity, gen});
    // conforming reporter: a fatal report must not return; never throw out of a destructor
    if (fatal && (g_activity == ACT_CALL || g_activity == ACT_CREATE)) throw fatal_report{};
  };
  auto ok = [gen](char const* msg) { g_log.oks.push_back(ROk{msg ? msg : "", gen}); };
  if (with_ok) {
    auto p = trompeloeil::set_reporter(r, ok);
    if (old_r) *old_r = p.first;
    if (old_ok) *old_ok = p.second;
  } else {
    auto p = trompeloeil::set_reporter(r);
    if (old_r) *old_r = p;
  }
}

template <typename V, typename M>
struct Holder : HolderBase<V> {
  M m;
  explicit Holder(M mm) : m(std::move(mm)) {}
  bool matches(V const& v) const override { return trompeloeil::param_matches(m, std::cref(v)); }
  void print(std::ostream& os) const override { trompeloeil::print_expectation(os, m); }
};
template <typename V, typename M>
DM<V> wrap(M m) {
  std::shared_ptr<HolderBase<V>> h = std::make_shared<Holder<V, M>>(std::move(m));
  return trompeloeil::make_matcher<V>(DPred<V>{}, DPrint<V>{}, std::move(h));
}
template <typename V>
DM<V> dm_any(const MSpec& ms, V val) {
  switch (ms.kind) {
    case M_WILD: return wrap<V>(trompeloeil::_);
    case M_ANY: return wrap<V>(trompeloeil::any_matcher<V>("V"));
    case M_VALUE: return wrap<V>(val);
    case M_EQ: return wrap<V>(trompeloeil::eq(val));
    case M_NE: return wrap<V>(trompeloeil::ne(val));
    case M_LT: return wrap<V>(trompeloeil::lt(val));
    case M_LE: return wrap<V>(trompeloeil::le(val));
    case M_GT: return wrap<V>(trompeloeil::gt(val));
    case M_GE: return wrap<V>(trompeloeil::ge(val));
  }
  return wrap<V>(trompeloeil::_);
}

}  // namespace

DM<int> dm_int(const MSpec& ms) { return dm_any<int>(ms, ms.val); }
DM<std::string> dm_str(const MSpec& ms) { return dm_any<std::string>(ms, std::to_string(ms.val)); }

int wkey(std::string const& s) { return atoi(s.c_str()); }

bool wev(int eid, int idx, int key) {
  auto it = S->specs.find(eid);
  if (it == S->specs.end()) { fprintf(stderr, "HARNESS: wev unknown eid %d\n", eid); abort(); }
  int wk = it->second.with[idx];
  if (wk != W_OFF) g_log.clauses.push_back(Clause{C_WITH, eid, idx, S->depth});
  return with_accepts(wk, key);
}

void wfx(int eid, int idx) {
  auto it = S->specs.find(eid);
  if (it == S->specs.end()) { fprintf(stderr, "HARNESS: wfx unknown eid %d\n", eid); abort(); }
  const Spec sp = it->second;
  int xk = sp.fx[idx];
  if (xk == X_OFF) return;
  g_log.clauses.push_back(Clause{C_FX, eid, idx, S->depth});
  if (xk == X_THROW) throw side_exc{eid, idx};
  if (xk == X_TRACER) { if (static_cast<int>(S->tracers.size()) < MAXTR) real::push_tracer(0); return; }
  if (xk == X_NEST && S->depth < 3) {
    int o = sp.fxa[idx][0], f = sp.fxa[idx][1], a = sp.fxa[idx][2];
    if (real::mock_alive(o)) {
      // the nested call's own exceptions propagate through the side effect, as in user code
      size_t at = g_log.nested.size();
      g_log.nested.push_back(RNested{S->depth, o, f, a, CallResult{R_OTHER_EXC, 0, "in progress"}});
      struct DepthGuard { DepthGuard() { ++S->depth; } ~DepthGuard() { --S->depth; } } guard;
      CallResult r;
      try {
        long v = with_mock(o, [&](auto& m) { return invoke(m, f, a, a); });
        r = CallResult{R_RETURNED, v, ""};
      } catch (thrown& t) { g_log.nested[at].res = CallResult{R_THROWN, t.eid, ""}; throw; }
      catch (side_exc& t) { g_log.nested[at].res = CallResult{R_SIDE_EXC, t.eid, ""}; throw; }
      catch (fatal_report&) { g_log.nested[at].res = CallResult{R_FATAL, 0, ""}; throw; }
      g_log.nested[at].res = r;
    }
  }
}

std::size_t wrt(int n) { return static_cast<std::size_t>(n + (S ? 0 : 1)); }
int wret(int eid) {
  g_log.clauses.push_back(Clause{C_RET, eid, 0, S->depth});
  return eid;
}
thrown wthrow(int eid) {
  g_log.clauses.push_back(Clause{C_THROW, eid, 0, S->depth});
  return thrown(eid);
}

trompeloeil::sequence& wseq(int k) { return *S->seq[k]; }
Mk& wmock(int obj) { return *S->mock[obj]; }
MkN& wmock_fixed() { return *S->fixed; }

namespace real {

void shutdown_quiet() {
  if (!S) return;
  int act = g_activity;
  g_activity = ACT_OTHER;
  for (auto& e : S->slot) e.reset();
  for (auto& r : S->mon) for (auto& e : r) e.reset();
  for (auto& m : S->mock) { delete m; m = nullptr; }
  delete S->fixed; S->fixed = nullptr;
  for (auto m : S->husk) delete m;
  S->husk.clear();
  for (auto& d : S->dw) { delete d; d = nullptr; }
  for (auto& s : S->seq) s.reset();
  while (!S->tracers.empty()) S->tracers.pop_back();
  // nothing of one case may leak into the next: the library's process-wide 'current tracer' is cleared as well (it is left
  // dangling by a library that mishandles tracers destroyed out of order; the case that did that is over by now)
  trompeloeil::set_tracer(nullptr);
  delete S;
  S = nullptr;
  g_activity = act;
}

// One accepted call before the harness has installed any reporter or tracer (the way a program that only sets
// expectations starts): whatever the library decides "once" at its first use must not depend on that order.
void cold_start() {
  Mk m;
  ALLOW_CALL(m, f(trompeloeil::_)).RETURN(0);
  m.f(1);
  m.f(2);
}

void reset() {
  if (!g_static_exp) g_static_exp = NAMED_ALLOW_CALL(g_static_mock, h(trompeloeil::_)).RETURN(0);
  shutdown_quiet();
  S = new State;
  g_log.clear();
  g_activity = ACT_NONE;
  install_reporter(0, true, nullptr, nullptr);
  for (int i = 0; i < NOBJ; ++i) recreate_mock(i);
  for (int i = 0; i < NSEQ; ++i) S->seq[i] = std::make_unique<sequence>();
  for (int i = 0; i < NDW; ++i) S->dw[i] = new deathwatched<Dwt>(i);
}

int create(const Spec& s) {
  g_activity = ACT_CREATE;
  S->specs[s.eid] = s;
  int rc = CR_OK;
  try {
    Created c;
    if (s.lit >= 0) c = create_lit(s.slot - NSLOT, s);
    else switch (s.slot) {
      case 0: c = create_slot0(s); break; case 1: c = create_slot1(s); break;
      case 2: c = create_slot2(s); break; case 3: c = create_slot3(s); break;
      case 4: c = create_slot4(s); break; case 5: c = create_slot5(s); break;
      case 6: c = create_slot6(s); break; case 7: c = create_slot7(s); break;
    }
    if (!c.p) { fprintf(stderr, "HARNESS: no site form for slot %d func %d nseq %d term %d lit %d\n", s.slot, s.func, s.nseq, s.term, s.lit); abort(); }
    S->slot[s.slot] = std::move(c.p);
    S->line[s.slot] = c.line;
  } catch (std::logic_error&) {
    rc = CR_LOGIC_ERROR;
  } catch (...) {
    rc = CR_OTHER;
  }
  g_activity = ACT_NONE;
  return rc;
}

void release(int slot) {
  g_activity = ACT_RELEASE;
  S->slot[slot].reset();
  g_activity = ACT_NONE;
}
bool exp_alive(int slot) { return static_cast<bool>(S->slot[slot]); }
bool is_satisfied(int slot) { return S->slot[slot]->is_satisfied(); }
bool is_saturated(int slot) { return S->slot[slot]->is_saturated(); }
unsigned long exp_line(int slot) { return S->line[slot]; }
const char* slot_file(int slot) {
  switch (slot) {
    case 0: return slot_file0(); case 1: return slot_file1(); case 2: return slot_file2(); case 3: return slot_file3();
    case 4: return slot_file4(); case 5: return slot_file5(); case 6: return slot_file6(); case 7: return slot_file7();
  }
  return slot >= NSLOT + NLIT ? scoped_file() : lit_file();
}
void scoped_note(int scslot, const Spec& s, unsigned long line) { S->specs[s.eid] = s; S->line[NSLOT + NLIT + scslot] = line; }
void scoped_forget(int scslot) { S->line[NSLOT + NLIT + scslot] = 0; }

bool mock_alive(int obj) { return obj == OBJ_FIXED ? S->fixed != nullptr : S->mock[obj] != nullptr; }

CallResult call(int obj, int func, int a0, int a1) {
  g_activity = ACT_CALL;
  CallResult r;
  ++S->depth;
  try {
    long v = with_mock(obj, [&](auto& m) { return invoke(m, func, a0, a1); });
    r = CallResult{R_RETURNED, v, ""};
  } catch (thrown& t) { r = CallResult{R_THROWN, t.eid, ""}; }
  catch (side_exc& t) { r = CallResult{R_SIDE_EXC, t.eid, ""}; }
  catch (fatal_report&) { r = CallResult{R_FATAL, 0, ""}; }
  catch (std::exception& e) { r = CallResult{R_OTHER_EXC, 0, e.what()}; }
  catch (...) { r = CallResult{R_OTHER_EXC, 0, "unknown"}; }
  --S->depth;
  g_activity = ACT_NONE;
  return r;
}

void move_mock(int obj, bool keep_husk) {
  g_activity = ACT_OTHER;
  Mk* old = S->mock[obj];
  S->mock[obj] = new Mk(std::move(*old));
  g_activity = ACT_DESTROY_MOCK;
  if (keep_husk) S->husk.push_back(old); else delete old;
  g_activity = ACT_NONE;
}
void destroy_mock(int obj) {
  g_activity = ACT_DESTROY_MOCK;
  if (obj == OBJ_FIXED) { delete S->fixed; S->fixed = nullptr; }
  else { delete S->mock[obj]; S->mock[obj] = nullptr; }
  g_activity = ACT_NONE;
}
void recreate_mock(int obj) {
  if (obj == OBJ_FIXED) { if (!S->fixed) S->fixed = new MkN; }
  else if (!S->mock[obj]) S->mock[obj] = new Mk;
}
int husks() { return static_cast<int>(S->husk.size()); }
void destroy_husks() {
  g_activity = ACT_DESTROY_MOCK;
  for (auto m : S->husk) delete m;
  S->husk.clear();
  g_activity = ACT_NONE;
}

bool seq_alive(int k) { return static_cast<bool>(S->seq[k]); }
bool seq_completed(int k) { return S->seq[k]->is_completed(); }
void destroy_seq(int k) {
  g_activity = ACT_DESTROY_SEQ;
  S->seq[k].reset();
  g_activity = ACT_NONE;
}
void move_seq(int k, int mode) {
  g_activity = ACT_DESTROY_SEQ;  // the moved-from object is destroyed here
  switch (mode % 3) {
    case 0: {  // move construction
      auto n = std::make_unique<sequence>(std::move(*S->seq[k]));
      S->seq[k] = std::move(n);
      break;
    }
    case 1: {  // move assignment to a fresh sequence object (its own empty sequence goes away)
      auto n = std::make_unique<sequence>();
      *n = std::move(*S->seq[k]);
      S->seq[k] = std::move(n);
      break;
    }
    case 2: {  // out and back in: move assignment to a moved-from sequence object
      sequence tmp(std::move(*S->seq[k]));
      *S->seq[k] = std::move(tmp);
      break;
    }
  }
  g_activity = ACT_NONE;
}
void recreate_seq(int k) { if (!S->seq[k]) S->seq[k] = std::make_unique<sequence>(); }

bool dw_alive(int d) { return S->dw[d] != nullptr; }
const char* mon_file() { return __FILE__; }
void watch(int d, int ms, int eid, int nseq, const int* seqs) {
  (void)eid;
  g_activity = ACT_CREATE;
  auto& o = *S->dw[d];
  // one source line per (object slot, monitor slot): the report location identifies the monitor
  ExpPtr p;
  unsigned long line = 0;
#define W_WATCH(D, MS) if (d == D && ms == MS) { if (nseq == 0) p = NAMED_REQUIRE_DESTRUCTION(o); else if (nseq == 1) p = NAMED_REQUIRE_DESTRUCTION(o).IN_SEQUENCE(wseq(seqs[0])); else p = NAMED_REQUIRE_DESTRUCTION(o).IN_SEQUENCE(wseq(seqs[0]), wseq(seqs[1])); line = __LINE__; }
  W_WATCH(0, 0)
  W_WATCH(0, 1)
  W_WATCH(0, 2)
  W_WATCH(1, 0)
  W_WATCH(1, 1)
  W_WATCH(1, 2)
  W_WATCH(2, 0)
  W_WATCH(2, 1)
  W_WATCH(2, 2)
#undef W_WATCH
  S->mon[d][ms] = std::move(p);
  S->monline[d][ms] = line;
  g_activity = ACT_NONE;
}
void scoped_dw_run(int d, int nseq, int s0, bool kill_inside, void (*step)(void* ctx, int kind), void* ctx) {
  auto& o = *S->dw[d];
  auto body = [&](unsigned long line) {
    S->monline[d][NMON] = line;
    g_activity = ACT_NONE;
    step(ctx, 0);
    if (kill_inside) { destroy_dw(d); step(ctx, 1); }
    g_activity = ACT_UNWATCH;
  };
  g_activity = ACT_CREATE;
  if (nseq == 0) { REQUIRE_DESTRUCTION(o); body(__LINE__); }
  else { REQUIRE_DESTRUCTION(o).IN_SEQUENCE(wseq(s0)); body(__LINE__); }
  g_activity = ACT_NONE;
  step(ctx, 2);
  S->monline[d][NMON] = 0;
}
void unwatch(int d, int ms) {
  g_activity = ACT_UNWATCH;
  S->mon[d][ms].reset();
  g_activity = ACT_NONE;
}
bool mon_alive(int d, int ms) { return static_cast<bool>(S->mon[d][ms]); }
bool mon_satisfied(int d, int ms) { return S->mon[d][ms]->is_satisfied(); }
bool mon_saturated(int d, int ms) { return S->mon[d][ms]->is_saturated(); }
unsigned long mon_line(int d, int ms) { return S->monline[d][ms]; }
void destroy_dw(int d) {
  g_activity = ACT_DESTROY_DW;
  delete S->dw[d];
  S->dw[d] = nullptr;
  g_activity = ACT_NONE;
}
void copy_dw(int dst, int src, bool from_const) {
  // from a const lvalue the implicit copy constructor is chosen (member-wise copy, including the
  // object's monitor slot); from a non-const lvalue the forwarding constructor template wins
  if (from_const) S->dw[dst] = new deathwatched<Dwt>(static_cast<deathwatched<Dwt> const&>(*S->dw[src]));
  else S->dw[dst] = new deathwatched<Dwt>(*S->dw[src]);
}
void move_dw(int dst, int src) { S->dw[dst] = new deathwatched<Dwt>(std::move(*S->dw[src])); }
void assign_dw(int dst, int src, bool move) {
  if (move) *S->dw[dst] = std::move(*S->dw[src]);
  else *S->dw[dst] = *S->dw[src];
}
void recreate_dw(int d) { if (!S->dw[d]) S->dw[d] = new deathwatched<Dwt>(d); }
std::string dw_addr(int d) { std::ostringstream os; os << static_cast<void const*>(S->dw[d]); return os.str(); }

int tracer_depth() { return static_cast<int>(S->tracers.size()); }
void push_tracer(int kind) {
  TracerSlot t;
  if (kind == 1) t.st = std::make_unique<StreamTr>(S->tracer_ids++);
  else t.rec = std::make_unique<RecTracer>(S->tracer_ids++);
  S->tracers.push_back(std::move(t));
}
void pop_tracer() { drain_stream_tracers(); S->tracers.pop_back(); }
void drop_tracer(int k) { drain_stream_tracers(); S->tracers.erase(S->tracers.begin() + k); }
void drain_stream_tracers() {
  for (auto& t : S->tracers) {
    if (!t.st) continue;
    std::string all = visible_nul(t.st->os.str());
    if (all.empty()) continue;
    t.st->os.str("");
    // records: "<file>:<line>\n<text>\n"; a header line is a known site file followed by ':' and digits
    std::vector<std::string> lines;
    { std::istringstream in(all); std::string l; while (std::getline(in, l)) lines.push_back(l); }
    auto header = [&](const std::string& l, std::string& file, unsigned long& line) {
      auto c = l.rfind(':');
      if (c == std::string::npos || c + 1 >= l.size()) return false;
      for (size_t i = c + 1; i < l.size(); ++i) if (!isdigit(static_cast<unsigned char>(l[i]))) return false;
      file = l.substr(0, c);
      bool known = file == mon_file();
      for (int k = 0; k < NALL && !known; ++k) if (file == slot_file(k)) known = true;
      if (!known) return false;
      line = strtoul(l.c_str() + c + 1, nullptr, 10);
      return true;
    };
    RTrace cur{t.st->id, "", 0, ""};
    bool open = false;
    for (auto& l : lines) {
      std::string f; unsigned long ln = 0;
      if (header(l, f, ln)) {
        if (open) g_log.traces.push_back(cur);
        cur = RTrace{t.st->id, f, ln, ""};
        open = true;
      } else if (open) cur.text += l + "\n";
      else g_log.traces.push_back(RTrace{t.st->id, "?", 0, l});  // text without a location header
    }
    if (open) g_log.traces.push_back(cur);
  }
}
int reporter_gen() { return S->gen; }

bool swap_reporter(bool with_ok) {
  trompeloeil::reporter_func old_r;
  trompeloeil::ok_reporter_func old_ok;
  int prev = S->gen;
  int prev_ok = S->okgen;
  install_reporter(prev + 1, with_ok, &old_r, &old_ok);
  S->gen = prev + 1;
  if (with_ok) S->okgen = prev + 1;
  // probe the callables handed back: they must be generation `prev`
  bool good = true;
  Log saved = g_log;
  g_log.clear();
  int act = g_activity;
  g_activity = ACT_OTHER;
  if (!old_r) good = false;
  else {
    old_r(severity::nonfatal, "probe", 1, "probe");
    if (g_log.reports.size() != 1 || g_log.reports[0].gen != prev) good = false;
  }
  if (with_ok) {
    if (!old_ok) good = false;
    else {
      old_ok("probe");
      if (g_log.oks.size() != 1 || g_log.oks[0].gen != prev_ok) good = false;
    }
  }
  g_activity = act;
  g_log = saved;
  return good;
}

}  // namespace real
}  // namespace w

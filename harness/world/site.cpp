// One expectation slot = one translation unit compiled from this file with -DSLOT=<k>
// -DSLOTFILE='"w_slot<k>.site"'. Every form of the slot is a distinct source line; the report
// location (file, line) therefore identifies (slot, form). All behaviour that is not a
// compile-time property of the expectation statement is data (Spec).
#include "mocks.hpp"

#ifndef SLOT
#error "compile with -DSLOT=<k>"
#endif
#define W_CAT_(a, b) a##b
#define W_CAT(a, b) W_CAT_(a, b)

namespace w {
using trompeloeil::_;

#line 1 SLOTFILE
const char* W_CAT(slot_file, SLOT)() { return __FILE__; }

#define W_WITHS .WITH(wev(eid, 0, wkey(_1))).WITH(wev(eid, 1, wkey(_1)))
#define W_WITHS2 .WITH(wev(eid, 0, wkey(_1))).WITH(wev(eid, 1, wkey(_2)))
#define W_WITHS11 .WITH(wev(eid, 0, wkey(_1))).WITH(wev(eid, 1, wkey(_11)))
#define W_FX .SIDE_EFFECT(wfx(eid, 0)).SIDE_EFFECT(wfx(eid, 1))
#define W_SEQ0
#define W_SEQ1 .IN_SEQUENCE(wseq(s.seq[0]))
#define W_SEQ2 .IN_SEQUENCE(wseq(s.seq[0]), wseq(s.seq[1]))
#define W_SEQ3 .IN_SEQUENCE(wseq(s.seq[0]), wseq(s.seq[1]), wseq(s.seq[2]))
#define W_RET .RETURN(wret(eid))
#define W_THR .THROW(wthrow(eid))
#define W_NONE
// the object expression carries the slot number, so the expectation text (reports, OK reports,
// trace records) identifies the slot as well: "wmock_s<3>(mk).f(dm_int(s.m[0]))"
#define W_OBJ2(K) wmock_s<K>(mk)
// clause order: even slots write IN_SEQUENCE before RT_TIMES, odd slots RT_TIMES before IN_SEQUENCE (both are documented)
#if SLOT % 2
#define W_MK(OBJ, CALL, SEQC, WITHC, TERM) \
  return Created{NAMED_REQUIRE_CALL(OBJ, CALL).RT_TIMES(lo, hi) SEQC WITHC W_FX TERM, __LINE__}
#else
#define W_MK(OBJ, CALL, SEQC, WITHC, TERM) \
  return Created{NAMED_REQUIRE_CALL(OBJ, CALL) SEQC.RT_TIMES(lo, hi) WITHC W_FX TERM, __LINE__}
#endif

#define W_FORMS(FN, CALL, WITHC, TERM0)               \
  case FN * 8 + 6: W_MK(W_OBJ2(SLOT), CALL, W_SEQ3, WITHC, TERM0);  \
  case FN * 8 + 7: W_MK(W_OBJ2(SLOT), CALL, W_SEQ3, WITHC, W_THR);  \
  case FN * 8 + 0: W_MK(W_OBJ2(SLOT), CALL, W_SEQ0, WITHC, TERM0);  \
  case FN * 8 + 1: W_MK(W_OBJ2(SLOT), CALL, W_SEQ0, WITHC, W_THR);  \
  case FN * 8 + 2: W_MK(W_OBJ2(SLOT), CALL, W_SEQ1, WITHC, TERM0);  \
  case FN * 8 + 3: W_MK(W_OBJ2(SLOT), CALL, W_SEQ1, WITHC, W_THR);  \
  case FN * 8 + 4: W_MK(W_OBJ2(SLOT), CALL, W_SEQ2, WITHC, TERM0);  \
  case FN * 8 + 5: W_MK(W_OBJ2(SLOT), CALL, W_SEQ2, WITHC, W_THR);

namespace {
template <class M>
Created create_impl(M& mk, const Spec& s) {
  const int eid = s.eid;
  const std::size_t lo = static_cast<std::size_t>(s.lo);
  const std::size_t hi = s.hi == INF ? ~static_cast<std::size_t>(0) : static_cast<std::size_t>(s.hi);
  switch (s.func * 8 + s.nseq * 2 + s.term) {
    // each W_FORMS expands on ONE line: all eight forms of a function share the line, the
    // expectation text distinguishes functions; (file,line) -> (slot, function)
    W_FORMS(F_f, f(dm_int(s.m[0])), W_WITHS, W_RET)
    W_FORMS(F_h, h(dm_int(s.m[0])), W_WITHS, W_RET)
    W_FORMS(F_ovi, ov(dm_int(s.m[0])), W_WITHS, W_RET)
    W_FORMS(F_ovs, ov(dm_str(s.m[0])), W_WITHS, W_RET)
    W_FORMS(F_v, v(dm_int(s.m[0])), W_WITHS, W_NONE)
    W_FORMS(F_cf, cf(dm_int(s.m[0])), W_WITHS, W_RET)
    W_FORMS(F_g, g(dm_int(s.m[0]), dm_int(s.m[1])), W_WITHS2, W_RET)
    W_FORMS(F_w, w(dm_int(s.m[0]), _, _, _, _, _, _, _, _, _, dm_int(s.m[1]), _), W_WITHS11, W_RET)
  }
  return Created{nullptr, 0};
}
}  // namespace

// both mock classes go through the same source lines
Created W_CAT(create_slot, SLOT)(const Spec& s) {
  return with_mock(s.obj, [&](auto& mk) { return create_impl(mk, s); });
}

}  // namespace w

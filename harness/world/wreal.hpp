// Interface of the real world (trompeloeil objects driven through documented entry points only).
// Implemented in real.cpp + site TUs. This header does not include trompeloeil.
#pragma once
#include "wspec.hpp"

namespace w { namespace real {

extern Log g_log;
extern int g_activity;

void cold_start();   // optional, once per process, before the first reset()
void reset();                       // fresh world; installs reporter generation 0
void shutdown_quiet();              // destroy whatever is left without checking (harness error paths)

// expectations
enum CreateRes { CR_OK = 0, CR_LOGIC_ERROR, CR_OTHER };
int create(const Spec& s);          // returns CreateRes; on CR_OK slot holds the expectation
void release(int slot);             // slot index over NSLOT+NLIT (scoped slots have no handle)
// Scoped block: { <scoped expectation A> [<scoped expectation B>] calls... } executed inside one C++ scope with the
// non-NAMED macros (B may be null). step(kind, index, result) is invoked after every sub-step: kind 0 = A created, 1 = B created,
// 2 = call #index returned, 3 = B destroyed (scope exit), 4 = A destroyed.
struct ScopedCall { int func, a0, a1; };
void scoped_run(int obj, const Spec* A, const Spec* B, const std::vector<ScopedCall>& calls,
                void (*step)(void* ctx, int kind, int index, const CallResult& r), void* ctx);
bool exp_alive(int slot);
bool is_satisfied(int slot);
bool is_saturated(int slot);
unsigned long exp_line(int slot);   // __LINE__ of the site form used
const char* slot_file(int slot);    // __FILE__ of the slot's site

// mocks
bool mock_alive(int obj);
CallResult call(int obj, int func, int a0, int a1);
void move_mock(int obj, bool keep_husk);
void destroy_mock(int obj);
void recreate_mock(int obj);
int husks();
void destroy_husks();

// sequences
bool seq_alive(int k);
bool seq_completed(int k);
void destroy_seq(int k);
void move_seq(int k, int mode = 0);
void recreate_seq(int k);

// deathwatched
bool dw_alive(int d);
void watch(int d, int ms, int eid, int nseq, const int* seqs);
void unwatch(int d, int ms);
// { REQUIRE_DESTRUCTION(obj)[.IN_SEQUENCE(s)]; [delete obj;] } inside one C++ scope (the non-NAMED macro).
// step(kind): 0 = requirement created, 1 = object destroyed inside the scope, 2 = scope left (requirement destroyed)
void scoped_dw_run(int d, int nseq, int s0, bool kill_inside, void (*step)(void* ctx, int kind), void* ctx);
bool mon_alive(int d, int ms);
bool mon_satisfied(int d, int ms);
bool mon_saturated(int d, int ms);
unsigned long mon_line(int d, int ms);
const char* mon_file();
void destroy_dw(int d);
void copy_dw(int dst, int src, bool from_const);
void move_dw(int dst, int src);
void assign_dw(int dst, int src, bool move);
void recreate_dw(int d);
std::string dw_addr(int d);

// tracers / reporters
int tracer_depth();
void push_tracer(int kind);   // 0: recording tracer, 1: the library's stream_tracer on a string stream
void drain_stream_tracers();
void pop_tracer();
void drop_tracer(int k);   // destroys the k-th live tracer (0 = oldest)
int reporter_gen();
// installs generation gen+1 through one of the two set_reporter overloads; returns true iff the
// callables handed back are those of the generation that was installed before (checked by
// invoking them on a probe).
bool swap_reporter(bool with_ok);

}}  // namespace w::real

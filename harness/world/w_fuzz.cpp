// libFuzzer target for engine W: bytes -> records -> operations -> same interpreter and oracle.
// Configuration through the environment (libFuzzer owns argv): W_PROFILE, W_PROP, W_OUT, W_FAILDIR.
#include <fcntl.h>
#include "wgen.hpp"
#include "winterp.hpp"

using namespace w;

static vc::Stats ST;
static std::string g_out, g_faildir = ".", g_prop, g_profile = "all";
static uint32_t PM = 0;
static Profile g_prof;

static void flush_stats() { ST.write(g_out); }

static void init() {
  static bool done = false;
  if (done) return;
  done = true;
  if (const char* e = getenv("W_PROFILE")) g_profile = e;
  if (const char* e = getenv("W_PROP")) g_prop = e;
  if (const char* e = getenv("W_OUT")) g_out = e;
  if (const char* e = getenv("W_FAILDIR")) g_faildir = e;
  PM = prop_mask(g_prop);
  if (const char* e = getenv("W_COLD")) if (*e == '1') { real::cold_start(); ST.label("process_started_with_a_call_before_any_reporter_was_installed"); }
  g_prof = make_profile(g_profile);
  ST.rule = "libFuzzer (coverage-guided): bytes chunked into 26-byte records and decoded exactly like the rapidcheck cases (profile '" + g_profile + "'); byte 0 selects the teardown permutation";
  atexit(flush_stats);
}

extern "C" int LLVMFuzzerTestOneInput(const uint8_t* data, size_t size) {
  init();
  if (size < 1 + REC) return 0;
  unsigned perm = data[0];
  std::vector<Op> ops = decode_all(data + 1, size - 1, g_prof, 40);
  Interp in;
  CaseResult r = in.run(ops, perm);
  ST.evaluations++;
  ST.label("calls", r.calls);
  ST.label("calls_accepted", r.accepted);
  ST.label("calls_multi_candidate", r.multi_candidate);
  ST.label("steps_ineligible_in_sequence", r.ineligible);
  ST.label("reports", r.reports);
  ST.label("deathwatched_events", r.dw_events);
  if (r.degraded) ST.label("cases_degraded_to_memory_safety_only");
  if (r.calls > 0 && (r.accepted > 0 || r.rejected_with_live > 0)) {
    std::string txt;
    for (auto& o : ops) txt += op_pretty(o) + "; ";
    ST.nontrivial_case(vc::fnv1a(ops_text(ops)), txt);
  }
  for (auto& mm : r.mismatches) {
    if (!(PM == 0 || (mm.mask & PM))) continue;
    std::string why = std::string("[") + cat_name(mm.cat) + "] at op " + std::to_string(mm.op_index) + ": " + mm.msg;
    std::string s = "# engine=W prop=" + g_prop + " profile=" + g_profile + "\n# perm=" + std::to_string(perm) + "\n";
    if (const char* e = getenv("W_COLD")) if (*e == '1') s += "# coldcall: the process made one accepted call before any reporter was installed\n";
    std::istringstream w(why);
    std::string l;
    while (std::getline(w, l)) s += "# " + l + "\n";
    s += ops_text(ops);
    std::string path = g_faildir + "/w_fail." + g_prop + ".fuzz" + std::to_string(getpid()) + ".txt";
    vc::write_file(path, s);
    ST.violations.push_back({path, why});
    flush_stats();
    fprintf(stderr, "ORACLE DISAGREEMENT %s\n%s\n", path.c_str(), why.c_str());
    __builtin_trap();
  }
  return 0;
}

// Interpreter: applies an operation list to the real world and to the model and compares.
#pragma once
#include <algorithm>
#include <cstdint>
#include <cstdio>
#include <functional>
#include <set>
#include "../common/vcommon.hpp"
#include "wlit.hpp"
#include "wmodel.hpp"
#include "wreal.hpp"

namespace w {

// property bit masks
constexpr uint32_t P(int n) { return 1u << n; }
constexpr uint32_t C01 = P(1), C02 = P(2), C03 = P(3), C04 = P(4), C05 = P(5), C06 = P(6), C07 = P(7), C08 = P(8),
                   C13 = P(13), C14 = P(14), C15 = P(15), C16 = P(16), C17 = P(17);
inline uint32_t prop_mask(const std::string& p) { return (p.size() == 3 && p[0] == 'C') ? P(atoi(p.c_str() + 1)) : 0; }

enum Cat { CAT_OUTCOME, CAT_FLAGS, CAT_COMPLETED, CAT_CALL_REPORTS, CAT_REPORT_CONTENT, CAT_EOL_REPORTS, CAT_SEQ_DESTROY,
           CAT_DW, CAT_OK, CAT_TRACE, CAT_CLAUSES, CAT_WITH, CAT_SWAP, CAT_CREATE, CAT_SEVERITY, CAT_PASSED, NCAT };
inline uint32_t cat_mask(int c) {
  switch (c) {
    case CAT_OUTCOME: return C01 | C02 | C03 | C05 | C07 | C08 | C14;
    case CAT_FLAGS: return C01 | C02 | C03 | C05 | C07 | C13 | C14;
    case CAT_COMPLETED: return C05 | C06 | C14;
    case CAT_CALL_REPORTS: return C01 | C03 | C05 | C07 | C15;
    case CAT_REPORT_CONTENT: return C15 | C03 | C04 | C07;
    case CAT_EOL_REPORTS: return C04 | C15 | C14;
    case CAT_SEQ_DESTROY: return C06 | C15 | C14;
    case CAT_DW: return C13 | C15 | C05 | C14;
    case CAT_OK: return C16;
    case CAT_TRACE: return C17;
    case CAT_CLAUSES: return C08 | C01 | C07 | C02;
    case CAT_WITH: return C08;
    case CAT_SWAP: return C16;
    case CAT_CREATE: return C03;
    case CAT_SEVERITY: return C15;
    case CAT_PASSED: return C05;
  }
  return 0;
}
inline const char* cat_name(int c) {
  static const char* n[] = {"outcome", "flags", "is_completed", "call-reports", "report-content", "end-of-life-reports",
                            "sequence-destroyed", "deathwatched", "ok-reports", "trace", "clauses", "with-order", "set_reporter",
                            "create", "severity", "passed-predecessor"};
  return n[c];
}
// After a mismatch of these categories the case ends: from there on the model no longer describes the real objects, and
// what follows would be blamed on properties that hold (a wrong handler - C02 - makes counts, flags and end-of-life
// reports differ without C03/C04 being broken). Two exceptions, where the case goes on (Interp::keep_going) because the
// divergence itself is what the other properties are about: (1) a wrong is_satisfied()/is_saturated() answer for an
// expectation that has not been offered a single call yet - its bounds were lost, not its count (C03 sees the flag,
// C04 the missing shortfall report later); (2) reports emitted by a *move* of a sequence object - the pending steps
// were dropped, which C05 sees as calls accepted out of order afterwards.
inline bool cat_state_affecting(int c) {
  return c == CAT_OUTCOME || c == CAT_FLAGS || c == CAT_COMPLETED || c == CAT_CALL_REPORTS || c == CAT_EOL_REPORTS ||
         c == CAT_SEQ_DESTROY || c == CAT_DW || c == CAT_CLAUSES || c == CAT_CREATE || c == CAT_PASSED;
}

struct Mismatch { int cat; uint32_t mask; size_t op_index; std::string msg; };

struct CaseResult {
  std::vector<Mismatch> mismatches;
  bool degraded = false;
  size_t ops_run = 0, noops = 0;
  // labels
  int calls = 0, accepted = 0, rejected = 0, multi_candidate = 0, tie = 0, blocked_yield = 0, multiseq = 0;
  int rejected_with_live = 0, ineligible = 0, handler_not_newest = 0, forbidden_hits = 0, saturated_hits = 0;
  int reports = 0, multi_listed = 0, shortfalls = 0, nested = 0, traces = 0, oks = 0, fx_events = 0, with_events = 0;
  int ctx_ops = 0;   // operations executed inside a catch handler or during stack unwinding
  int completed_flips = 0, seq_teardown_pending = 0, dw_events = 0, swaps = 0, moved_calls = 0, after_release_calls = 0;
  int throwing_calls = 0, tolerant = 0, trace_depth2_calls = 0, culprit_not_newest = 0;
  int call_after_destroy_dependency = 0;
  int flag_flips = 0, eol_nontrivial = 0, skipped_pending = 0, scoped_blocks = 0;
  uint32_t case_mask = 0;
};

inline std::string visible(const std::string& t) { std::string o; for (char c : t) { if (c == '\n') o += " / "; else o += c; } return o; }
struct OpTrace { bool applicable = false; CallResult got; int forbid_eid = -1; std::vector<int> forbid_nested_eids; int created_eid = -1; };   // nested: every forbid hit by a call made inside a side effect or a scoped block

struct ParsedLoc { size_t pos; std::string file; unsigned long line; };

class Interp {
 public:
  Model m;
  CaseResult res;
  bool stop = false;
  size_t cur = 0;
  bool injected = false, in_composite = false;   // sub-steps of a scoped block: the real side already ran
  CallResult inj_got;
  std::vector<OpTrace> optrace;   // one entry per operation of the case (not the teardown)
  // history invariant for C05 (independent of the model's bookkeeping): registration order per sequence object
  std::map<std::pair<int, int>, std::vector<int>> registered;  // (seq slot, gen) -> eids in registration order
  std::set<int> passed;                                         // eids that a later-registered participant passed
  bool last_completed[NSEQ] = {true, true, true};
  bool any_moved[NOBJ] = {false, false, false};
  std::set<std::pair<int, int>> released_on;  // (obj, func) that had an expectation released or saturated
  bool destroyed_dependency = false;
  std::map<int, int> last_flags;  // eid -> satisfied | saturated<<1

  void mismatch(int cat, const std::string& msg) {
    uint32_t mask = cat_mask(cat) & (res.case_mask | C01 | C02 | C03 | C04 | C08 | C15 | C16);
    res.mismatches.push_back(Mismatch{cat, mask, cur, msg});
    if (cat_state_affecting(cat) && !keep_going) stop = true;
  }
  bool keep_going = false;            // see cat_state_affecting
  std::set<int> bounds_suspect;       // expectations whose flags were wrong before any call was offered to them

  // ---- location lookup ------------------------------------------------------------------
  int pre_slot_eid[NALL];
  int pre_mon_eid[NDW][NMONX];
  int eid_at(const std::string& file, unsigned long line) const {
    // expectations alive before or after the current operation (a release removes it from the model first)
    for (int s = 0; s < NALL; ++s) {
      int e = m.slot_eid[s] >= 0 ? m.slot_eid[s] : pre_slot_eid[s];
      if (e >= 0 && file == real::slot_file(s) && line == real::exp_line(s)) return e;
    }
    if (file == real::mon_file())
      for (int d = 0; d < NDW; ++d) for (int k = 0; k < NMONX; ++k) {
        int e = m.mon_eid[d][k] >= 0 ? m.mon_eid[d][k] : pre_mon_eid[d][k];
        if (e >= 0 && line == real::mon_line(d, k)) return e;
      }
    return -1;
  }
  std::vector<ParsedLoc> find_locs(const std::string& text) const {
    std::vector<ParsedLoc> out;
    std::set<std::string> files;
    for (int s = 0; s < NALL; ++s) files.insert(real::slot_file(s));
    files.insert(real::mon_file());
    for (auto& f : files) {
      size_t pos = 0;
      std::string needle = " at " + f + ":";
      while ((pos = text.find(needle, pos)) != std::string::npos) {
        size_t p = pos + needle.size();
        unsigned long line = 0; bool any = false;
        while (p < text.size() && isdigit(static_cast<unsigned char>(text[p]))) { line = line * 10 + (text[p] - '0'); ++p; any = true; }
        if (any) out.push_back(ParsedLoc{pos, f, line});
        pos = p;
      }
    }
    std::sort(out.begin(), out.end(), [](const ParsedLoc& a, const ParsedLoc& b) { return a.pos < b.pos; });
    return out;
  }

  static int classify(const std::string& msg) {
    auto starts = [&](const char* p) { return msg.rfind(p, 0) == 0; };
    if (starts("No match for call of ")) return K_NOMATCH;
    if (starts("Match of forbidden call of ")) return K_FORBIDDEN;
    if (starts("Sequence mismatch for sequence ")) return K_SEQ_CALL;  // refined by activity
    if (starts("Unfulfilled expectation:")) return K_UNFULFILLED;
    if (starts("Pending expectation on destroyed mock object:")) return K_PENDING_DESTROYED;
    if (starts("Sequence expectations not met at destruction of sequence object")) return K_SEQ_DESTROYED;
    if (starts("Object ") && msg.find(" is still alive") != std::string::npos) return K_STILL_ALIVE;
    if (starts("Unexpected destruction of ")) return K_UNEXPECTED_DESTRUCTION;
    return K_UNKNOWN;
  }

  static std::string site_text_piece(int func) {
    switch (func) {
      case F_f: return ".f(dm_int("; case F_h: return ".h(dm_int("; case F_ovi: return ".ov(dm_int(";
      case F_ovs: return ".ov(dm_str("; case F_v: return ".v(dm_int("; case F_cf: return ".cf(dm_int("; case F_g: return ".g(dm_int("; case F_w: return ".w(dm_int(";
    }
    return "?";
  }
  std::string exp_text_piece(const MExp& e) const {
    if (e.is_mon) return "REQUIRE_DESTRUCTION(";
    if (e.s.lit >= 0) return lit_forms()[e.s.lit].text;
    return "wmock_s<" + std::to_string(e.s.slot) + ">(mk)" + site_text_piece(e.s.func);
    return site_text_piece(e.s.func);
  }
  static std::string arg_text(int func, int idx, int v) {
    (void)func;
    return "_" + std::to_string(idx + 1) + " == " + std::to_string(v);
  }
  static std::string mspec_text(const MSpec& ms, bool str) {
    (void)str;
    std::string v = std::to_string(ms.val);
    switch (ms.kind) {
      case M_WILD: return " matching _";
      case M_ANY: return " matching ANY(";
      case M_VALUE: case M_EQ: return " == " + v;
      case M_NE: return " != " + v;
      case M_LT: return " < " + v;
      case M_LE: return " <= " + v;
      case M_GT: return " > " + v;
      case M_GE: return " >= " + v;
    }
    return "?";
  }

  // ---- report comparison -----------------------------------------------------------------
  struct PRep { int kind; bool fatal; int eid; const RReport* r; bool used = false; };

  void check_report_content(const XRep& x, const RReport& r, int cat) {
    const std::string& t = r.msg;
    auto locs = find_locs(t);
    auto need = [&](bool c, const std::string& what) {
      if (!c) mismatch(CAT_REPORT_CONTENT, std::string(rep_name(x.kind)) + " report: " + what + "\n--- text ---\n" + t);
    };
    (void)cat;
    if (x.eid >= 0) {
      const MExp& e = m.E.at(x.eid);
      // a destruction requirement is described by the object expression it watches
      std::string piece = e.is_mon ? (x.kind == K_STILL_ALIVE ? "Object o " : "destructor for o") : exp_text_piece(e);
      need(t.find(piece) != std::string::npos, "does not carry the expectation text");
    }
    if (x.kind == K_NOMATCH || x.kind == K_FORBIDDEN) {
      for (size_t i = 0; i < x.args.size(); ++i)
        need(t.find(arg_text(x.func, static_cast<int>(i), x.args[i])) != std::string::npos,
             "does not print actual argument _" + std::to_string(i + 1) + " == " + std::to_string(x.args[i]));
    }
    if (x.kind == K_NOMATCH) {
      std::string fn = func_name(x.func);
      fn = fn.substr(0, fn.find('('));
      need(t.rfind("No match for call of " + fn + " with signature ", 0) == 0, "does not name the function " + fn);
      if (x.func == F_ovs) need(t.substr(0, t.find('\n')).find("string") != std::string::npos, "signature of wrong overload");
      if (x.func == F_ovi) need(t.substr(0, t.find('\n')).find("string") == std::string::npos, "signature of wrong overload");
      std::vector<int> got;
      for (auto& l : locs) got.push_back(eid_at(l.file, l.line));
      std::vector<int> want;
      for (auto& l : x.listed) want.push_back(l.eid);
      bool sat_header = t.find("Matches saturated call requirement") != std::string::npos;
      need(sat_header == x.sat_listing, x.sat_listing ? "should list matching saturated expectations" : "should list the live expectations, not saturated ones");
      if (x.sat_listing) {
        std::multiset<int> a(got.begin(), got.end()), b(want.begin(), want.end());
        need(a == b, "saturated listing differs: got " + show_ids(got) + " want " + show_ids(want));
      } else {
        need(got == want, "listing differs (newest first): got " + show_ids(got) + " want " + show_ids(want));
        if (got == want) {
          for (size_t i = 0; i < x.listed.size(); ++i) {
            size_t b = locs[i].pos, e = i + 1 < locs.size() ? locs[i + 1].pos : t.size();
            // block text of this expectation: from its location to the next "Tried"
            std::string blk = t.substr(b, e - b);
            size_t tr = blk.find("\nTried ");
            if (tr != std::string::npos) blk = blk.substr(0, tr);
            std::vector<int> rej;
            size_t p = 0;
            while ((p = blk.find("Expected ", p)) != std::string::npos) {
              size_t q = blk.find('_', p);
              if (q != std::string::npos) rej.push_back(atoi(blk.c_str() + q + 1) - 1);
              p += 9;
            }
            int fw = -1;
            size_t f = blk.find("Failed WITH(wev(eid, ");
            if (f != std::string::npos) fw = atoi(blk.c_str() + f + 21);
            size_t nfw = 0;
            for (size_t q = blk.find("Failed WITH("); q != std::string::npos; q = blk.find("Failed WITH(", q + 1)) ++nfw;
            const MExp& le = m.E.at(x.listed[i].eid);
            if (le.s.lit >= 0) continue;  // literal sites: WITH text differs; parameters still checked below
            need(rej == x.listed[i].rej_params, "expectation " + std::to_string(x.listed[i].eid) + " rejecting parameters shown " + show_ids(rej) + " want " + show_ids(x.listed[i].rej_params));
            need(nfw == (x.listed[i].rej_params.empty() ? 1u : 0u), "expectation " + std::to_string(x.listed[i].eid) + " shows " + std::to_string(nfw) + " failing WITH clauses (only the first failing one is to be shown, and none when a parameter rejected)");
            if (x.listed[i].rej_params.empty()) need(fw == x.listed[i].failed_with, "expectation " + std::to_string(x.listed[i].eid) + " failed WITH shown " + std::to_string(fw) + " want " + std::to_string(x.listed[i].failed_with));
            else need(fw == -1, "WITH shown although a parameter rejected");
            for (int rp : x.listed[i].rej_params) {
              const MSpec& ms = le.s.m[rp == 0 ? 0 : 1];
              need(blk.find("_" + std::to_string(rp + 1) + mspec_text(ms, false)) != std::string::npos, "expected value of _" + std::to_string(rp + 1) + " not shown");
            }
          }
        }
      }
    }
    if (x.kind == K_UNFULFILLED || x.kind == K_PENDING_DESTROYED) {
      const MExp& e = m.E.at(x.eid);
      std::string req = e.s.lo == 1 ? "once" : std::to_string(e.s.lo) + " times";
      std::string act = e.count == 0 ? "never called" : e.count == 1 ? "called once" : "called " + std::to_string(e.count) + " times";
      need(t.find("to be called " + req) != std::string::npos, "required count '" + req + "' missing");
      need(t.find("actually " + act) != std::string::npos, "actual count '" + act + "' missing");
      if (e.s.lit < 0) {
        need(t.find("_1" + mspec_text(e.s.m[0], e.s.func == F_ovs)) != std::string::npos, "expected value of _1 missing");
        if (second_pos(e.s.func) >= 0) { std::string pn = "_" + std::to_string(second_pos(e.s.func) + 1); need(t.find(pn + mspec_text(e.s.m[1], false)) != std::string::npos, "expected value of " + pn + " missing"); }
      }
    }
    if (x.kind == K_SEQ_DESTROYED) {
      std::vector<int> got;
      for (auto& l : locs) got.push_back(eid_at(l.file, l.line));
      std::vector<int> want, wantopt;
      for (auto& l : x.listed) want.push_back(l.eid);
      // optional entries (dead-but-unreleased monitors) are removed from what was listed before comparing
      std::vector<int> g2;
      for (int g : got) if (std::find(x.optional_listed.begin(), x.optional_listed.end(), g) == x.optional_listed.end()) g2.push_back(g);
      need(g2 == want, "pending listing differs (registration order): got " + show_ids(got) + " want " + show_ids(want));
    }
  }
  static std::string show_ids(const std::vector<int>& v) {
    std::string s = "[";
    for (size_t i = 0; i < v.size(); ++i) s += (i ? "," : "") + std::to_string(v[i]);
    return s + "]";
  }

  // C15 severity rule holds whatever the model says: also checked when the case runs unchecked
  void check_severity_only() {
    for (auto& r : real::g_log.reports) {
      bool in_call = r.activity == ACT_CALL;
      if (in_call != r.fatal) {
        uint32_t mask = cat_mask(CAT_SEVERITY);
        res.mismatches.push_back(Mismatch{CAT_SEVERITY, mask, cur, std::string("severity ") + (r.fatal ? "fatal" : "non-fatal") + " from " + (in_call ? "a call" : "a destructor/other") + " (unchecked part of the case): " + r.msg});
      }
    }
  }

  void compare_reports(const Op& o, const Expect& x) {
    struct KG { bool& k; ~KG() { k = false; } } kg{keep_going};
    keep_going = o.kind == O_MOVE_SEQ;
    int cat = CAT_EOL_REPORTS;
    if (o.kind == O_CALL) cat = CAT_CALL_REPORTS;
    else if (o.kind == O_DESTROY_SEQ || o.kind == O_MOVE_SEQ) cat = CAT_SEQ_DESTROY;
    else if (o.kind == O_DESTROY_DW || o.kind == O_UNWATCH || o.kind == O_WATCH || o.kind == O_COPY_DW || o.kind == O_MOVE_DW || o.kind == O_ASSIGN_DW) cat = CAT_DW;
    else if (o.kind == O_CREATE) cat = CAT_CREATE;
    std::vector<PRep> got;
    for (auto& r : real::g_log.reports) {
      PRep p{classify(r.msg), r.fatal, -1, &r};
      if (p.kind == K_SEQ_CALL && r.activity != ACT_CALL) p.kind = K_SEQ_DESTRUCTION;
      if (r.line != 0) p.eid = eid_at(r.file, r.line);
      got.push_back(p);
      // C15 severity rule, checked on every report regardless of the model
      bool in_call = r.activity == ACT_CALL;
      if (in_call != r.fatal) mismatch(CAT_SEVERITY, std::string("severity ") + (r.fatal ? "fatal" : "non-fatal") + " from " + (in_call ? "a call" : "a destructor/other") + ": " + r.msg);
      if (r.gen != m.rep_gen) mismatch(CAT_SWAP, "report delivered to reporter generation " + std::to_string(r.gen) + " want " + std::to_string(m.rep_gen));
      if (p.kind == K_UNKNOWN) mismatch(CAT_REPORT_CONTENT, "unclassifiable report text: " + r.msg);
    }
    res.reports += static_cast<int>(got.size());
    for (auto& xr : x.reports) {
      bool found = false;
      for (auto& g : got) {
        if (g.used || g.kind != xr.kind || g.eid != xr.eid) continue;
        g.used = true; found = true;
        if (g.fatal != xr.fatal) mismatch(CAT_SEVERITY, std::string(rep_name(xr.kind)) + " report has wrong severity");
        check_report_content(xr, *g.r, cat);
        break;
      }
      if (!found) {
        if (xr.optional_) { res.tolerant++; continue; }
        mismatch(cat, std::string("missing ") + rep_name(xr.kind) + " report about " + std::to_string(xr.eid) + " (got " + std::to_string(got.size()) + " reports" + (got.empty() ? "" : ": " + got[0].r->msg) + ")");
      }
    }
    for (auto& g : got) {
      if (g.used) continue;
      mismatch(cat, std::string("unexpected ") + rep_name(g.kind) + " report (subject " + std::to_string(g.eid) + "): " + g.r->msg);
    }
  }

  // WITH evaluations: per (eid, depth) the log must be a concatenation of passes in declaration order each ending at the
  // first failing clause, for arguments of a call made at that depth
  void check_withs(const Op& o, const Expect& x) {
    std::map<std::pair<int, int>, std::vector<int>> seqs;
    for (auto& c : real::g_log.clauses) if (c.type == C_WITH) { seqs[{c.eid, c.depth}].push_back(c.idx); res.with_events++; }
    for (auto& kv : seqs) {
      int eid = kv.first.first, depth = kv.first.second;
      auto it = m.E.find(eid);
      if (it == m.E.end()) { mismatch(CAT_WITH, "WITH of unknown expectation evaluated"); continue; }
      const Spec& s = it->second.s;
      std::vector<std::vector<int>> passes;
      auto add_pass = [&](int ob, int fn, int a0, int a1) {
        if (ob != s.obj || fn != s.func) return;
        std::vector<int> p;
        for (int i = 0; i < 2; ++i) {
          if (s.with[i] == W_OFF) continue;
          p.push_back(i);
          if (!with_accepts(s.with[i], Model::with_key(s, i, a0, a1))) break;
        }
        if (!p.empty()) passes.push_back(p);
      };
      if (depth == 1) add_pass(o.at(0), o.at(1), o.at(2), o.at(3));
      else for (auto& n : real::g_log.nested) if (n.depth == depth - 1) add_pass(n.obj, n.func, n.arg, n.arg);
      (void)x;
      const auto& v = kv.second;
      std::vector<char> ok(v.size() + 1, 0);
      ok[0] = 1;
      for (size_t i = 0; i < v.size(); ++i) {
        if (!ok[i]) continue;
        for (auto& p : passes)
          if (i + p.size() <= v.size() && std::equal(p.begin(), p.end(), v.begin() + static_cast<long>(i))) ok[i + p.size()] = 1;
      }
      if (!ok[v.size()]) mismatch(CAT_WITH, "WITH clauses of expectation " + std::to_string(eid) + " evaluated as " + show_ids(v) + ": not declaration-order passes stopping at the first failure (or evaluated for a call on another object/function)");
    }
  }

  void sweep(const Op& o) {
    for (int s = 0; s < NSLOT + NLIT; ++s) {
      if (m.slot_eid[s] < 0) continue;
      const MExp& e = m.E.at(m.slot_eid[s]);
      bool sat = real::is_satisfied(s), satu = real::is_saturated(s);
      {
        int fl = (sat ? 1 : 0) | (satu ? 2 : 0);
        auto lf = last_flags.find(e.s.eid);
        if (lf != last_flags.end() && lf->second != fl) res.flag_flips++;
        last_flags[e.s.eid] = fl;
      }
      bool fresh = (o.kind == O_CREATE && e.s.eid == m.next_eid - 1 && e.count == 0) || bounds_suspect.count(e.s.eid) != 0;
      if (fresh && (sat != e.satisfied() || satu != e.is_saturated())) bounds_suspect.insert(e.s.eid);
      keep_going = fresh;
      if (sat != e.satisfied() || satu != e.is_saturated())
        mismatch(CAT_FLAGS, "expectation " + std::to_string(e.s.eid) + " (slot " + std::to_string(s) + ", [" + std::to_string(e.s.lo) + "," + std::to_string(e.s.hi) + "], model count " + std::to_string(e.count) + "): is_satisfied=" + std::to_string(sat) + " is_saturated=" + std::to_string(satu) + " model " + std::to_string(e.satisfied()) + "/" + std::to_string(e.is_saturated()));
      keep_going = false;
    }
    for (int d = 0; d < NDW; ++d) for (int k = 0; k < NMON; ++k) {
      if (m.mon_eid[d][k] < 0) continue;
      const MExp& e = m.E.at(m.mon_eid[d][k]);
      bool sat = real::mon_satisfied(d, k), satu = real::mon_saturated(d, k);
      if (sat != e.died || satu != e.died)
        mismatch(CAT_DW, "monitor " + std::to_string(e.s.eid) + " of dw" + std::to_string(d) + ": is_satisfied=" + std::to_string(sat) + " is_saturated=" + std::to_string(satu) + " model died=" + std::to_string(e.died));
    }
    for (int k = 0; k < NSEQ; ++k) {
      if (!m.seq[k].alive) continue;
      bool c = real::seq_completed(k), mc = m.seq_completed(k);
      if (c != mc) mismatch(CAT_COMPLETED, "sequence s" + std::to_string(k) + ".is_completed()=" + std::to_string(c) + " model " + std::to_string(mc));
      if (c != last_completed[k]) { res.completed_flips++; last_completed[k] = c; }
    }
  }

  // ---- scoped block (composite) -------------------------------------------------------------
  struct ScopedCtx { Interp* self; Op createA, createB; bool hasB; std::vector<Op> calls; };
  static void scoped_step(void* vctx, int kind, int index, const CallResult& r) {
    auto* c = static_cast<ScopedCtx*>(vctx);
    Interp& in = *c->self;
    Op sub = kind == 0 ? c->createA : kind == 1 ? c->createB : kind == 2 ? c->calls[static_cast<size_t>(index)]
             : kind == 3 ? Op{O_RELEASE, {NSLOT + NLIT + 1}} : Op{O_RELEASE, {NSLOT + NLIT}};
    if (in.stop) {   // unchecked part of a case: only keep the model's bookkeeping (slots, ids) in step
      if (in.m.applicable(sub)) in.m.step(sub);
      in.check_severity_only(); real::g_log.clear(); return;
    }
    in.injected = true;
    in.inj_got = r;
    in.run_op(sub);
    in.injected = false;
    real::g_log.clear();
  }
  static Op scoped_create_op(int scslot, int obj, int form) {
    Op o; o.kind = O_CREATE; o.a.assign(CA_N, 0);
    o.a[CA_SLOT] = NSLOT + NLIT + scslot; o.a[CA_OBJ] = obj; o.a[CA_LIT] = NLITNAMED + form % (NLITALL - NLITNAMED);
    const LitForm& f = lit_forms()[o.a[CA_LIT]];
    o.a[CA_FUNC] = f.func; o.a[CA_LO] = static_cast<int>(f.lo); o.a[CA_HI] = f.hi == INF ? -1 : static_cast<int>(f.hi);
    o.a[CA_M0K] = f.m0.kind; o.a[CA_M0V] = f.m0.val; o.a[CA_M1K] = f.m1.kind; o.a[CA_M1V] = f.m1.val;
    o.a[CA_W0] = f.with0; o.a[CA_X0] = f.fx0;
    return o;
  }
  struct ScopedDwCtx { Interp* self; Op watch, kill, unwatch; };
  static void scoped_dw_step(void* vctx, int kind) {
    auto* c = static_cast<ScopedDwCtx*>(vctx);
    Interp& in = *c->self;
    const Op& sub = kind == 0 ? c->watch : kind == 1 ? c->kill : c->unwatch;
    if (in.stop) {   // unchecked part of a case: only keep the model's liveness bookkeeping in step
      if (in.m.applicable(sub)) in.m.step(sub);
      in.check_severity_only(); real::g_log.clear(); return;
    }
    in.injected = true;
    in.inj_got = CallResult{};
    in.run_op(sub);
    in.injected = false;
    real::g_log.clear();
  }
  void run_scoped_dw(const Op& o) {
    if (!m.applicable(o)) { res.noops++; return; }
    res.scoped_blocks++;
    ScopedDwCtx c{this, Op{O_WATCH, {o.at(0), NMON, o.at(1) > 0 ? 1 : 0, o.at(2), o.at(2)}}, Op{O_DESTROY_DW, {o.at(0)}}, Op{O_UNWATCH, {o.at(0), NMON}}};
    real::g_log.clear();
    in_composite = true;
    real::scoped_dw_run(o.at(0), o.at(1) > 0 ? 1 : 0, o.at(2), o.at(3) != 0, &Interp::scoped_dw_step, &c);
    in_composite = false;
  }
  void run_scoped(const Op& o) {
    if (!m.applicable(o)) { res.noops++; return; }
    res.scoped_blocks++;
    ScopedCtx c;
    c.self = this;
    c.hasB = o.at(2) >= 0;
    c.createA = scoped_create_op(0, o.at(0), o.at(1));
    if (c.hasB) c.createB = scoped_create_op(1, o.at(0), o.at(2));
    int n = std::min(o.at(3), 4);
    std::vector<real::ScopedCall> rc;
    for (int i = 0; i < n; ++i) {
      int fn = o.at(4 + 2 * static_cast<size_t>(i)) % 2 ? F_v : F_f, a0 = o.at(5 + 2 * static_cast<size_t>(i));
      c.calls.push_back(Op{O_CALL, {o.at(0), fn, a0, 0}});
      rc.push_back(real::ScopedCall{fn, a0, 0});
    }
    Spec A = Model::spec_of(c.createA), B;
    A.eid = m.next_eid;
    if (c.hasB) { B = Model::spec_of(c.createB); B.eid = A.eid + 1; }
    real::g_log.clear();
    in_composite = true;
    real::scoped_run(o.at(0), &A, c.hasB ? &B : nullptr, rc, &Interp::scoped_step, &c);
    in_composite = false;
  }

  // ---- run -------------------------------------------------------------------------------
  void run_op(const Op& o) {
    if (o.kind == O_SCOPED) { run_scoped(o); return; }
    if (o.kind == O_SCOPED_DW) { run_scoped_dw(o); return; }
    Model before_applicable = Model();  // unused placeholder to keep structure simple
    (void)before_applicable;
    if (!m.applicable(o)) { res.noops++; return; }
    res.ops_run++;
    if (cur < optrace.size()) optrace[cur].applicable = true;
    int eid0 = m.next_eid;
    // bookkeeping for labels, before the step
    bool call_after_release = false, call_on_moved = false;
    if (o.kind == O_CALL) {
      call_after_release = released_on.count({o.at(0), o.at(1)}) != 0;
      call_on_moved = any_moved[o.at(0)];
    }
    int depth_tr = static_cast<int>(m.tracers.size());
    if (o.kind == O_RELEASE) {
      const MExp& e = m.E.at(m.slot_eid[o.at(0)]);
      if (!e.satisfied() && (e.reported || !e.attached || any_moved[e.s.obj])) res.eol_nontrivial++;
    } else if (o.kind == O_DESTROY_MOCK) {
      for (int f = 0; f < NFUNC; ++f) for (int eid : m.obj[o.at(0)].active[f]) if (!m.E.at(eid).satisfied()) { res.eol_nontrivial++; break; }
    }
    for (int q = 0; q < NALL; ++q) pre_slot_eid[q] = m.slot_eid[q];
    for (int d = 0; d < NDW; ++d) for (int k = 0; k < NMONX; ++k) pre_mon_eid[d][k] = m.mon_eid[d][k];
    Expect x = m.step(o);
    if (!injected) real::g_log.clear();
    CallResult got = inj_got;
    int cres = 0;
    bool swap_good = true;
    auto do_real = [&] { switch (o.kind) {
      case O_CREATE: { Spec s = Model::spec_of(o); s.eid = eid0; cres = real::create(s); break; }
      case O_RELEASE: real::release(o.at(0)); break;
      case O_CALL: got = real::call(o.at(0), o.at(1), o.at(2), o.at(3)); break;
      case O_MOVE_MOCK: real::move_mock(o.at(0), o.at(1) != 0); any_moved[o.at(0)] = true; break;
      case O_DESTROY_HUSKS: real::destroy_husks(); break;
      case O_DESTROY_MOCK: real::destroy_mock(o.at(0)); any_moved[o.at(0)] = false; break;
      case O_RECREATE_MOCK: real::recreate_mock(o.at(0)); break;
      case O_DESTROY_SEQ: real::destroy_seq(o.at(0)); break;
      case O_MOVE_SEQ: real::move_seq(o.at(0), o.at(1)); break;
      case O_RECREATE_SEQ: real::recreate_seq(o.at(0)); last_completed[o.at(0)] = true; break;
      case O_WATCH: { int sq[2] = {o.at(3), o.at(4)}; real::watch(o.at(0), o.at(1), eid0, o.at(2), sq); break; }
      case O_UNWATCH: real::unwatch(o.at(0), o.at(1)); break;
      case O_DESTROY_DW: real::destroy_dw(o.at(0)); break;
      case O_COPY_DW: real::copy_dw(o.at(0), o.at(1), o.at(2) != 0); break;
      case O_MOVE_DW: real::move_dw(o.at(0), o.at(1)); break;
      case O_ASSIGN_DW: real::assign_dw(o.at(0), o.at(1), o.at(2) != 0); break;
      case O_RECREATE_DW: real::recreate_dw(o.at(0)); break;
      case O_PUSH_TRACER: real::push_tracer(o.at(0)); break;
      case O_POP_TRACER: real::pop_tracer(); break;
      case O_DROP_TRACER: real::drop_tracer(o.at(0) % depth_tr); break;
      case O_SWAP_REPORTER: swap_good = real::swap_reporter(o.at(0) != 0); res.swaps++; break;
    } };
    if (!injected) {
      struct CtxProbe {};
      struct AtUnwind { std::function<void()> f; ~AtUnwind() { f(); } };
      if (o.ctx == 1) { try { throw CtxProbe{}; } catch (CtxProbe&) { do_real(); } res.ctx_ops++; }
      else if (o.ctx == 2) { try { AtUnwind u{do_real}; throw CtxProbe{}; } catch (CtxProbe&) {} res.ctx_ops++; }
      else do_real();
    }
    real::drain_stream_tracers();
    if (x.degrade) { res.degraded = true; stop = true; check_severity_only(); return; }

    // --- compare ---
    if (o.kind == O_CREATE && cres != x.create_res)
      mismatch(CAT_CREATE, "creation result " + std::to_string(cres) + " want " + std::to_string(x.create_res) + " (0 ok, 1 logic_error)");
    if (o.kind == O_SWAP_REPORTER && !swap_good) mismatch(CAT_SWAP, "set_reporter did not return the previously installed reporter(s)");
    if (cur < optrace.size()) {
      optrace[cur].got = got;
      if (o.kind == O_CREATE && cres == 0 && !in_composite) optrace[cur].created_eid = eid0;
      for (auto& xr : x.reports) if (xr.kind == K_FORBIDDEN) { if (x.nested.empty() && !in_composite) optrace[cur].forbid_eid = xr.eid; else optrace[cur].forbid_nested_eids.push_back(xr.eid); }
    }
    if (o.kind == O_CALL) {
      res.calls++;
      if (!(got == x.outcome)) mismatch(CAT_OUTCOME, "call outcome " + show(got) + " model " + show(x.outcome));
      if (x.outcome.kind == R_FATAL) res.rejected++; else res.accepted++;
      if (x.outcome.kind == R_THROWN || x.outcome.kind == R_SIDE_EXC) res.throwing_calls++;
      if (x.n_matching >= 2) res.multi_candidate++;
      res.tie += x.tie; res.blocked_yield += x.blocked_yield; res.multiseq += x.multiseq;
      res.rejected_with_live += x.rejected_with_live; res.ineligible += x.ineligible_step;
      res.skipped_pending += x.skipped_pending;
      res.handler_not_newest += x.handler_not_newest; res.forbidden_hits += x.forbidden_hit; res.saturated_hits += x.saturated_hit;
      if (call_after_release) res.after_release_calls++;
      if (call_on_moved) res.moved_calls++;
      if (depth_tr >= 2) res.trace_depth2_calls++;
      if (destroyed_dependency) res.call_after_destroy_dependency++;
      res.nested += static_cast<int>(x.nested.size());
      // C05 history invariant on the real outcome
      std::vector<int> handlers;
      for (auto& c : real::g_log.clauses) if (c.type == C_RET || c.type == C_THROW) handlers.push_back(c.eid);
      if (got.kind == R_RETURNED && got.value > 0) handlers.push_back(static_cast<int>(got.value));
      for (int h : handlers) {
        if (passed.count(h)) mismatch(CAT_PASSED, "expectation " + std::to_string(h) + " handled a call although a later step of one of its sequences had already matched");
      }
    } else if (x.ineligible_step) res.ineligible++;
    // passed-set update from the model's accepted handlers (oks) -- uses registration order only
    for (int h : x.oks) mark_passed(h);
    for (int h : x.oks_optional) mark_passed(h);
    if (o.kind == O_DESTROY_DW) { for (auto& kv : m.E) if (kv.second.is_mon && kv.second.dw == o.at(0) && kv.second.died && kv.second.alive) mark_passed(kv.first); res.dw_events++; }
    if (o.kind == O_CREATE && cres == 0 && x.create_res == 0) { Spec s = Model::spec_of(o); for (int j = 0; j < s.nseq; ++j) registered[{s.seq[j], m.seq[s.seq[j]].gen}].push_back(eid0); }
    if (o.kind == O_WATCH) { for (int j = 0; j < o.at(2); ++j) registered[{o.at(3 + j), m.seq[o.at(3 + j)].gen}].push_back(eid0); res.dw_events++; }
    if (o.kind == O_UNWATCH || o.kind == O_COPY_DW || o.kind == O_MOVE_DW || o.kind == O_ASSIGN_DW) res.dw_events++;

    compare_reports(o, x);
    for (auto& xr : x.reports) {
      if (xr.listed.size() >= 2) res.multi_listed++;
      if (xr.kind == K_UNFULFILLED || xr.kind == K_PENDING_DESTROYED) res.shortfalls++;
      if (xr.kind == K_SEQ_DESTROYED) res.seq_teardown_pending++;
      if ((xr.kind == K_FORBIDDEN || xr.kind == K_SEQ_CALL) && x.handler_not_newest) res.culprit_not_newest++;
    }
    // OK reports
    {
      std::multiset<std::string> want, have;
      for (int e : x.oks) want.insert(exp_text_piece(m.E.at(e)));
      bool genbad = false;
      for (auto& k : real::g_log.oks) { if (k.gen != m.ok_gen) genbad = true; }
      size_t got_n = real::g_log.oks.size();
      if (got_n < x.oks.size() || got_n > x.oks.size() + x.oks_optional.size())
        mismatch(CAT_OK, std::to_string(got_n) + " OK reports, want " + std::to_string(x.oks.size()) + (x.oks_optional.empty() ? "" : ".." + std::to_string(x.oks.size() + x.oks_optional.size())) + (real::g_log.oks.empty() ? "" : " first: " + real::g_log.oks[0].msg));
      else {
        // match texts: every required piece must be found in a distinct report; the rest must belong to optional ones
        std::vector<bool> used(got_n, false);
        for (int e : x.oks) {
          std::string piece = exp_text_piece(m.E.at(e));
          bool f = false;
          for (size_t i = 0; i < used.size(); ++i) if (!used[i] && real::g_log.oks[i].msg.find(piece) != std::string::npos) { used[i] = true; f = true; break; }
          if (!f) mismatch(CAT_OK, "no OK report with the text of handler " + std::to_string(e) + " (" + piece + "); got: " + real::g_log.oks[0].msg);
        }
        std::vector<bool> oused(x.oks_optional.size(), false);
        for (size_t i = 0; i < used.size(); ++i) {
          if (used[i]) continue;
          bool f = false;
          for (size_t j = 0; j < oused.size() && !f; ++j)
            if (!oused[j] && real::g_log.oks[i].msg.find(exp_text_piece(m.E.at(x.oks_optional[j]))) != std::string::npos) { oused[j] = true; f = true; }
          if (!f) mismatch(CAT_OK, "OK report that belongs to no accepted call of this operation: " + real::g_log.oks[i].msg);
        }
        if (!x.oks_optional.empty()) res.tolerant++;
      }
      if (genbad) mismatch(CAT_SWAP, "OK report delivered to a replaced OK reporter");
      res.oks += static_cast<int>(x.oks.size());
    }
    // traces
    {
      std::vector<bool> used(real::g_log.traces.size(), false);
      // which record belongs to which accepted call: a maximum matching over "could be this call's record" (tracer at
      // the start or at the end of the call, handling expectation, its text). A first-fit assignment is wrong when two
      // nested calls handled by the same expectation each construct a tracer: the first call's alternative tracer is
      // the second call's only one.
      size_t nx = x.traces.size(), nr = real::g_log.traces.size();
      auto content = [&](const XTrace& xt, const RTrace& t, std::string& why) {
        bool good = true;
        for (size_t a = 0; a < xt.args.size(); ++a)
          if (t.text.find(arg_text(xt.func, static_cast<int>(a), xt.args[a])) == std::string::npos) { good = false; why = "argument " + std::to_string(a + 1) + " missing"; }
        for (size_t a = 0; a + 1 < xt.args.size(); ++a) {
          size_t p1 = t.text.find("_" + std::to_string(a + 1) + " =="), p2 = t.text.find("_" + std::to_string(a + 2) + " ==");
          if (p1 == std::string::npos || p2 == std::string::npos || p1 > p2) { good = false; why = "arguments not in positional order"; }
        }
        if (xt.res.kind == R_RETURNED) {
          if (xt.func != F_v && t.text.find(" -> " + std::to_string(xt.res.value)) == std::string::npos) { good = false; why = "returned value missing"; }
          if (t.text.find("threw") != std::string::npos) { good = false; why = "claims an exception"; }
        } else if (xt.res.kind == R_THROWN) {
          if (t.text.find("threw exception: what() = thrown:" + std::to_string(xt.res.value)) == std::string::npos) { good = false; why = "what() of the thrown exception missing"; }
        } else {
          if (t.text.find("threw unknown exception") == std::string::npos) { good = false; why = "unknown exception not noted"; }
        }
        return good;
      };
      std::vector<std::vector<size_t>> compat(nx);
      for (size_t k = 0; k < nx; ++k) {
        auto& xt = x.traces[k];
        const MExp& e = m.E.at(xt.eid);
        for (size_t i = 0; i < nr; ++i) {
          auto& t = real::g_log.traces[i];
          if (t.tracer != xt.tracer && t.tracer != xt.alt_tracer) continue;
          if (eid_at(t.file, t.line) != xt.eid && !(e.saturated && !e.alive)) continue;
          if (t.text.find(exp_text_piece(e)) == std::string::npos) continue;
          compat[k].push_back(i);
        }
        // preference: right content before wrong content (a wrong record is reported against the call it is paired
        // with only when no pairing with right contents exists), the tracer of the call's start before the other one
        std::stable_sort(compat[k].begin(), compat[k].end(), [&](size_t a, size_t b) {
          std::string w;
          int ra = (content(xt, real::g_log.traces[a], w) ? 0 : 2) + (real::g_log.traces[a].tracer == xt.tracer ? 0 : 1);
          int rb = (content(xt, real::g_log.traces[b], w) ? 0 : 2) + (real::g_log.traces[b].tracer == xt.tracer ? 0 : 1);
          return ra < rb;
        });
      }
      std::vector<std::vector<size_t>> loose = compat;
      for (size_t k = 0; k < nx; ++k) {   // first attempt: records with the right contents only
        std::string w;
        compat[k].erase(std::remove_if(compat[k].begin(), compat[k].end(), [&](size_t i) { return !content(x.traces[k], real::g_log.traces[i], w); }), compat[k].end());
      }
      std::vector<long> rec_of(nx, -1), call_of(nr, -1);
      std::function<bool(size_t, std::vector<bool>&)> augment = [&](size_t k, std::vector<bool>& seen) {
        for (size_t i : compat[k]) {
          if (seen[i]) continue;
          seen[i] = true;
          if (call_of[i] < 0 || augment(static_cast<size_t>(call_of[i]), seen)) { call_of[i] = static_cast<long>(k); rec_of[k] = static_cast<long>(i); return true; }
        }
        return false;
      };
      auto match_all = [&] {
        std::fill(rec_of.begin(), rec_of.end(), -1); std::fill(call_of.begin(), call_of.end(), -1);
        for (size_t k = 0; k < nx; ++k) if (!x.traces[k].optional_) { std::vector<bool> seen(nr, false); augment(k, seen); }
        for (size_t k = 0; k < nx; ++k) if (x.traces[k].optional_) { std::vector<bool> seen(nr, false); augment(k, seen); }
        for (size_t k = 0; k < nx; ++k) if (!x.traces[k].optional_ && rec_of[k] < 0) return false;
        return true;
      };
      if (!match_all()) { compat = loose; match_all(); }
      for (size_t k = 0; k < nx; ++k) {
        auto& xt = x.traces[k];
        bool f = false;
        for (size_t i = 0; i < used.size() && !f; ++i) {
          auto& t = real::g_log.traces[i];
          if (rec_of[k] != static_cast<long>(i)) continue;
          used[i] = true; f = true;
          std::string why;
          bool good = content(xt, t, why);
          if (!good) mismatch(CAT_TRACE, "trace record of call handled by " + std::to_string(xt.eid) + ": " + why + "\n--- text ---\n" + t.text);
        }
        if (!f && xt.optional_) { res.tolerant++; continue; }
        if (!f) {
          std::string all;
          for (auto& t : real::g_log.traces) all += "\n  [tracer " + std::to_string(t.tracer) + ", expectation " + std::to_string(eid_at(t.file, t.line)) + "] " + visible(t.text).substr(0, 160);
          all += "\n  expected:";
          for (auto& q : x.traces) all += " [tracer " + std::to_string(q.tracer) + (q.alt_tracer >= 0 ? "|" + std::to_string(q.alt_tracer) : "") + ", expectation " + std::to_string(q.eid) + (q.optional_ ? ", optional" : "") + "]";
          mismatch(CAT_TRACE, "no trace record for accepted call handled by " + std::to_string(xt.eid) + " on tracer " + std::to_string(xt.tracer) + (xt.alt_tracer >= 0 ? " (or " + std::to_string(xt.alt_tracer) + ")" : "") + " (" + std::to_string(real::g_log.traces.size()) + " records)" + all);
        }
      }
      size_t extra = 0;
      for (size_t i = 0; i < used.size(); ++i) if (!used[i]) {
        ++extra;
        // tolerated only for a rejected call (unstated whether those are traced)
        bool rejected_call = false;
        for (auto& r : real::g_log.reports) if (r.fatal) rejected_call = true;
        if (!rejected_call || real::g_log.traces[i].text.find("threw unknown exception") == std::string::npos)
          mismatch(CAT_TRACE, "unexpected trace record: " + real::g_log.traces[i].text);
        else if (!m.tracers.empty() && real::g_log.traces[i].tracer != m.tracers.back())
          mismatch(CAT_TRACE, "trace record delivered to a tracer that is not the innermost live one");
      }
      if (m.tracers.empty() && !real::g_log.traces.empty()) mismatch(CAT_TRACE, "trace record although no tracer is alive");
      res.traces += static_cast<int>(x.traces.size());
    }
    // clauses
    {
      std::vector<Clause> got_c;
      for (auto& c : real::g_log.clauses) if (c.type != C_WITH) got_c.push_back(c);
      res.fx_events += static_cast<int>(got_c.size());
      if (!(got_c == x.clauses)) {
        auto show_c = [](const std::vector<Clause>& v) {
          std::string s;
          static const char* tn[] = {"WITH", "FX", "RET", "THROW"};
          for (auto& c : v) s += std::string(tn[c.type]) + "(e" + std::to_string(c.eid) + "#" + std::to_string(c.idx) + "@" + std::to_string(c.depth) + ") ";
          return s;
        };
        mismatch(CAT_CLAUSES, "clause evaluation log [" + show_c(got_c) + "] model [" + show_c(x.clauses) + "]");
      }
      check_withs(o, x);
    }
    // nested results
    if (x.nested.size() != real::g_log.nested.size()) mismatch(CAT_CLAUSES, "nested call count differs");
    else for (size_t i = 0; i < x.nested.size(); ++i)
      if (!(x.nested[i].res == real::g_log.nested[i].res)) mismatch(CAT_OUTCOME, "nested call outcome " + show(real::g_log.nested[i].res) + " model " + show(x.nested[i].res));

    // labels that need post-state
    if (o.kind == O_RELEASE || (o.kind == O_CALL && (!x.oks.empty() || !x.oks_optional.empty()))) {
      for (auto& kv : m.E) if ((!kv.second.alive || kv.second.saturated) && !kv.second.is_mon) released_on.insert({kv.second.s.obj, kv.second.s.func});
    }
    if (o.kind == O_DESTROY_SEQ || o.kind == O_DESTROY_MOCK || o.kind == O_DESTROY_DW || o.kind == O_RELEASE || o.kind == O_UNWATCH) destroyed_dependency = true;
    if (!stop) sweep(o);
  }

  void mark_passed(int h) {
    for (auto& kv : registered) {
      auto& v = kv.second;
      auto it = std::find(v.begin(), v.end(), h);
      if (it == v.end()) continue;
      // only while that sequence object generation is alive
      if (!m.seq[kv.first.first].alive || m.seq[kv.first.first].gen != kv.first.second) continue;
      for (auto j = v.begin(); j != it; ++j) passed.insert(*j);
    }
  }

  uint32_t compute_case_mask(const std::vector<Op>& ops) const {
    uint32_t k = 0;
    for (auto& o : ops) {
      switch (o.kind) {
        case O_CREATE: if (o.at(CA_NSEQ) > 0) k |= C05 | C06; if (o.at(CA_HI) == 0) k |= C07; break;
        case O_WATCH: k |= C13; if (o.at(2) > 0) k |= C05 | C06; break;
        case O_UNWATCH: case O_DESTROY_DW: case O_COPY_DW: case O_MOVE_DW: case O_ASSIGN_DW: k |= C13 | C14; break;
        case O_MOVE_MOCK: case O_DESTROY_MOCK: case O_DESTROY_SEQ: case O_MOVE_SEQ: k |= C14; if (o.kind == O_DESTROY_SEQ) k |= C06; break;
        case O_PUSH_TRACER: case O_POP_TRACER: k |= C17; break;
        case O_DROP_TRACER: k |= C17 | C14; break;
        default: break;
      }
    }
    return k;
  }

  // teardown order: generated (permutation drawn from `perm_seed`, a pure function of the case)
  std::vector<Op> teardown_ops(unsigned perm_seed) const {
    std::vector<Op> t;
    for (int s = 0; s < NSLOT + NLIT; ++s) if (m.slot_eid[s] >= 0) t.push_back(Op{O_RELEASE, {s}});
    for (int i = 0; i < NOBJ; ++i) if (m.obj[i].alive) t.push_back(Op{O_DESTROY_MOCK, {i}});
    for (int k = 0; k < NSEQ; ++k) if (m.seq[k].alive) t.push_back(Op{O_DESTROY_SEQ, {k}});
    for (int d = 0; d < NDW; ++d) {
      for (int k = 0; k < NMON; ++k) if (m.mon_eid[d][k] >= 0) t.push_back(Op{O_UNWATCH, {d, k}});
      if (m.dw[d].alive) t.push_back(Op{O_DESTROY_DW, {d}});
    }
    if (m.husks > 0) t.push_back(Op{O_DESTROY_HUSKS, {}});
    uint64_t x = perm_seed * 2654435761u + 12345;
    for (size_t i = t.size(); i > 1; --i) {
      x = x * 6364136223846793005ULL + 1442695040888963407ULL;
      std::swap(t[i - 1], t[(x >> 33) % i]);
    }
    // tracers are destroyed in a generated order among themselves too (not only innermost first), at generated positions
    for (size_t i = 0; i < m.tracers.size(); ++i) {
      x = x * 6364136223846793005ULL + 1442695040888963407ULL;
      size_t pos = t.empty() ? 0 : (x >> 33) % (t.size() + 1);
      x = x * 6364136223846793005ULL + 1442695040888963407ULL;
      t.insert(t.begin() + static_cast<long>(pos), Op{O_DROP_TRACER, {static_cast<int>((x >> 33) % MAXTR)}});
    }
    return t;
  }

  CaseResult run(const std::vector<Op>& ops, unsigned perm_seed, bool with_teardown = true) {
    real::reset();
    res = CaseResult();
    res.case_mask = compute_case_mask(ops);
    stop = false;
    cur = 0;
    optrace.assign(ops.size(), OpTrace());
    for (size_t i = 0; i < ops.size(); ++i) {
      cur = i;
      if (stop) {
        // model no longer trusted: keep executing for memory safety only
        exec_unchecked(ops[i]);
        continue;
      }
      run_op(ops[i]);
    }
    if (with_teardown) {
      if (!stop) {
        auto t = teardown_ops(perm_seed);
        for (size_t i = 0; i < t.size() && !stop; ++i) { cur = ops.size() + i; run_op(t[i]); }
      }
    }
    real::shutdown_quiet();
    return res;
  }

  // liveness is harness-controlled, so the model's applicability test stays exact even when its predictions are not
  void exec_unchecked(const Op& o) {
    if (!m.applicable(o)) return;
    if (o.kind == O_SCOPED) { bool was = stop; stop = true; run_scoped(o); stop = was; check_severity_only(); return; }
    if (o.kind == O_SCOPED_DW) { bool was = stop; stop = true; run_scoped_dw(o); stop = was; return; }
    int eid0 = m.next_eid;
    int ntr_before = static_cast<int>(m.tracers.size());
    m.step(o);
    real::g_log.clear();
    switch (o.kind) {
      case O_CREATE: { Spec s = Model::spec_of(o); s.eid = eid0; real::create(s); break; }
      case O_RELEASE: real::release(o.at(0)); break;
      case O_CALL: real::call(o.at(0), o.at(1), o.at(2), o.at(3)); break;
      case O_MOVE_MOCK: real::move_mock(o.at(0), o.at(1) != 0); break;
      case O_DESTROY_HUSKS: real::destroy_husks(); break;
      case O_DESTROY_MOCK: real::destroy_mock(o.at(0)); break;
      case O_RECREATE_MOCK: real::recreate_mock(o.at(0)); break;
      case O_DESTROY_SEQ: real::destroy_seq(o.at(0)); break;
      case O_MOVE_SEQ: real::move_seq(o.at(0), o.at(1)); break;
      case O_RECREATE_SEQ: real::recreate_seq(o.at(0)); break;
      case O_WATCH: { int sq[2] = {o.at(3), o.at(4)}; real::watch(o.at(0), o.at(1), eid0, o.at(2), sq); break; }
      case O_UNWATCH: real::unwatch(o.at(0), o.at(1)); break;
      case O_DESTROY_DW: real::destroy_dw(o.at(0)); break;
      case O_COPY_DW: real::copy_dw(o.at(0), o.at(1), o.at(2) != 0); break;
      case O_MOVE_DW: real::move_dw(o.at(0), o.at(1)); break;
      case O_ASSIGN_DW: real::assign_dw(o.at(0), o.at(1), o.at(2) != 0); break;
      case O_RECREATE_DW: real::recreate_dw(o.at(0)); break;
      case O_PUSH_TRACER: real::push_tracer(o.at(0)); break;
      case O_POP_TRACER: real::pop_tracer(); break;
      case O_DROP_TRACER: real::drop_tracer(o.at(0) % ntr_before); break;
      case O_SWAP_REPORTER: real::swap_reporter(o.at(0) != 0); break;
    }
    check_severity_only();
  }
};

}  // namespace w

// Reference model of the world (pure: vectors and integers, no trompeloeil) and the operation
// alphabet. The model is written from the property statements C01-C08, C13-C17, not from the
// library's data structures.
#pragma once
#include <algorithm>
#include <map>
#include <sstream>
#include <string>
#include <vector>
#include "wspec.hpp"

namespace w {

enum OpKind {
  O_CREATE = 0, O_RELEASE, O_CALL, O_MOVE_MOCK, O_DESTROY_MOCK, O_RECREATE_MOCK,
  O_DESTROY_SEQ, O_MOVE_SEQ, O_RECREATE_SEQ,
  O_WATCH, O_UNWATCH, O_DESTROY_DW, O_COPY_DW, O_MOVE_DW, O_ASSIGN_DW, O_RECREATE_DW,
  O_PUSH_TRACER, O_POP_TRACER, O_SWAP_REPORTER, O_DESTROY_HUSKS, O_SCOPED, O_SCOPED_DW,
  O_DROP_TRACER,   // destroy the k-th live tracer (oldest = 0), wherever it is in the nesting
  NOPKIND
};
inline const char* op_name(int k) {
  static const char* n[] = {"create", "release", "call", "move_mock", "destroy_mock", "recreate_mock",
                            "destroy_seq", "move_seq", "recreate_seq",
                            "watch", "unwatch", "destroy_dw", "copy_dw", "move_dw", "assign_dw", "recreate_dw",
                            "push_tracer", "pop_tracer", "swap_reporter", "destroy_husks", "scoped", "scoped_dw", "drop_tracer"};
  return (k >= 0 && k < NOPKIND) ? n[k] : "?";
}
// argument layout of O_CREATE
enum { CA_SLOT = 0, CA_OBJ, CA_FUNC, CA_TERM, CA_NSEQ, CA_SEQ0, CA_SEQ1, CA_LO, CA_HI, CA_M0K, CA_M0V, CA_M1K, CA_M1V,
       CA_W0, CA_W1, CA_X0, CA_X1, CA_X0O, CA_X0F, CA_X0A, CA_X1O, CA_X1F, CA_X1A, CA_LIT, CA_N };

struct Op {
  int kind = O_CALL;
  std::vector<int> a;
  // where the operation is executed: 0 plain code, 1 inside a catch handler (std::current_exception() set),
  // 2 in a destructor run by stack unwinding (std::uncaught_exceptions() > 0). No property lets the outcome depend on it.
  int ctx = 0;
  int at(size_t i) const { return i < a.size() ? a[i] : 0; }
};

inline std::string op_text(const Op& o) {
  std::ostringstream s;
  if (o.ctx == 1) s << "incatch ";
  if (o.ctx == 2) s << "unwinding ";
  s << op_name(o.kind);
  for (int v : o.a) s << ' ' << v;
  return s.str();
}
inline bool op_parse(const std::string& line, Op& o) {
  std::istringstream s(line);
  std::string k;
  if (!(s >> k)) return false;
  o.ctx = 0;
  if (k == "incatch" || k == "unwinding") { o.ctx = k == "incatch" ? 1 : 2; if (!(s >> k)) return false; }
  o.kind = -1;
  for (int i = 0; i < NOPKIND; ++i) if (k == op_name(i)) o.kind = i;
  if (o.kind < 0) return false;
  o.a.clear();
  int v;
  while (s >> v) o.a.push_back(v);
  return true;
}
// human-oriented rendering for evidence samples
inline std::string op_pretty(const Op& o) {
  std::ostringstream s;
  static const char* mk[] = {"_", "ANY", "", "eq", "ne", "lt", "le", "gt", "ge"};
  switch (o.kind) {
    case O_CREATE: {
      s << "create e@slot" << o.at(CA_SLOT) << " on m" << o.at(CA_OBJ) << "." << func_name(o.at(CA_FUNC)) << "(";
      s << mk[o.at(CA_M0K) % NMKIND] << (o.at(CA_M0K) >= M_VALUE ? std::to_string(o.at(CA_M0V)) : "");
      if (second_pos(o.at(CA_FUNC)) >= 0) s << (o.at(CA_FUNC) == F_w ? ",..,_11:" : ",") << mk[o.at(CA_M1K) % NMKIND] << (o.at(CA_M1K) >= M_VALUE ? std::to_string(o.at(CA_M1V)) : "");
      auto bt = [](int v) { return v == -1 ? std::string("inf") : v <= -2 ? "2^32+" + std::to_string(-2 - v) : std::to_string(v); };
      s << ") times[" << bt(o.at(CA_LO) == -1 ? 0 : o.at(CA_LO)) << "," << bt(o.at(CA_HI)) << "]";
      for (int j = 0; j < o.at(CA_NSEQ); ++j) s << " in s" << o.at(CA_SEQ0 + j);
      if (o.at(CA_W0) || o.at(CA_W1)) s << " with(" << o.at(CA_W0) << "," << o.at(CA_W1) << ")";
      if (o.at(CA_X0) || o.at(CA_X1)) s << " fx(" << o.at(CA_X0) << "," << o.at(CA_X1) << ")";
      s << (o.at(CA_TERM) ? " THROW" : " RETURN");
      if (o.at(CA_LIT) >= 0) s << " lit" << o.at(CA_LIT);
      break;
    }
    case O_CALL:
      s << "call m" << o.at(0) << "." << func_name(o.at(1)) << "(" << o.at(2);
      if (second_pos(o.at(1)) >= 0) s << (o.at(1) == F_w ? ",..,_11:" : ",") << o.at(3);
      s << ")";
      break;
    default: s << op_text(o);
  }
  return s.str();
}

// ------------------------------------------------------------------------------------------
// expected observations of one operation
enum RepKind { K_NOMATCH = 0, K_FORBIDDEN, K_SEQ_CALL, K_UNFULFILLED, K_PENDING_DESTROYED, K_SEQ_DESTROYED,
               K_STILL_ALIVE, K_UNEXPECTED_DESTRUCTION, K_SEQ_DESTRUCTION, K_UNKNOWN };
inline const char* rep_name(int k) {
  static const char* n[] = {"no-match", "forbidden", "sequence(call)", "unfulfilled", "pending-on-destroyed-mock",
                            "sequence-object-destroyed", "still-alive", "unexpected-destruction", "sequence(destruction)", "unknown"};
  return n[k];
}
struct XListed { int eid; std::vector<int> rej_params; int failed_with; };
struct XRep {
  int kind = K_UNKNOWN;
  bool fatal = false;
  int eid = -1;             // subject expectation / monitor (location), -1: no location
  int func = -1;
  std::vector<int> args;
  bool sat_listing = false;
  std::vector<XListed> listed;   // no-match: listed expectations in order; seq destroyed: pending in order
  std::vector<int> optional_listed;  // seq destroyed: entries that may or may not be listed
  int seq = -1;
  int dw = -1;
  bool optional_ = false;   // accepted present or absent (documented soundness exclusion)
};
struct XTrace { int tracer; int eid; int func; std::vector<int> args; CallResult res;
                // a tracer constructed by a side effect of this very call: the record may go to the tracer that was innermost when
                // the call began or to the one that is innermost when it ends; with none alive at the beginning it is optional
                int alt_tracer = -1; bool optional_ = false; };
struct XNested { int depth, obj, func, arg; CallResult res; };
struct Expect {
  bool applicable = true;
  bool degrade = false;            // prediction depends on unspecified behaviour: memory safety only
  bool is_call = false;
  CallResult outcome;
  int create_res = 0;
  std::vector<XRep> reports;
  std::vector<int> oks;
  std::vector<int> oks_optional;   // accepted calls ended by an exception from a side effect: 0 or 1 OK report (unstated)
  std::vector<XTrace> traces;
  std::vector<Clause> clauses;     // FX / RET / THROW in order
  std::vector<XNested> nested;
  bool swap_ok = true;
  // labels for non-triviality rules
  int n_matching = 0;              // candidates matching the top-level call
  bool tie = false, blocked_yield = false, multiseq = false, rejected_with_live = false;
  bool skipped_pending = false;
  bool ineligible_step = false, handler_not_newest = false, forbidden_hit = false, saturated_hit = false;
};

struct MExp {
  Spec s;
  bool is_mon = false;
  int dw = -1, ms = -1;
  long count = 0;
  bool reported = false;   // named in an earlier violation report (no-match listing, forbidden, shortfall)
  bool seq_named = false;  // named only in a sequence report (C04 exclusion: 0 or 1 shortfall accepted)
  bool attached = true;    // still linked to a living mock
  bool saturated = false;
  bool alive = true;
  bool died = false;       // monitors
  bool tainted = false;
  std::vector<int> seqs;       // sequence slots named
  std::vector<int> seqgen;     // generation of the sequence object named
  std::vector<bool> pending;   // still pending in that sequence
  long lo() const { return is_mon ? 1 : s.lo; }
  bool satisfied() const { return is_mon ? died : count >= s.lo; }
  bool is_saturated() const { return is_mon ? died : (s.hi != INF && count == s.hi); }
};
struct MSeq { bool alive = true; int gen = 0; std::vector<int> pending; };
struct MObj { bool alive = true; std::vector<int> active[NFUNC]; std::vector<int> saturated[NFUNC]; };
struct MDw { bool alive = true; std::vector<int> reqs; };

constexpr long COST_INF = 1L << 40;

class Model {
 public:
  std::map<int, MExp> E;
  int slot_eid[NALL];
  int mon_eid[NDW][NMONX];
  MObj obj[NOBJ];
  MSeq seq[NSEQ];
  MDw dw[NDW];
  std::vector<int> tracers;  // ids, innermost last
  int tracer_ids = 0;
  int rep_gen = 0, ok_gen = 0;
  int husks = 0;
  int next_eid = 1;
  // switches
  bool fix_backstep = true;      // retire predecessors on every match (C05 as stated)

  Model() {
    for (auto& x : slot_eid) x = -1;
    for (auto& r : mon_eid) for (auto& x : r) x = -1;
  }

  static Spec spec_of(const Op& o) {
    Spec s;
    s.slot = o.at(CA_SLOT); s.obj = o.at(CA_OBJ); s.func = o.at(CA_FUNC); s.term = o.at(CA_TERM);
    s.nseq = o.at(CA_NSEQ); s.seq[0] = o.at(CA_SEQ0); s.seq[1] = o.at(CA_SEQ1);
    s.seq[2] = (0 + 1 + 2) - s.seq[0] - s.seq[1];   // nseq == 3 (NSEQ is 3): the remaining sequence, listed last
    // bounds beyond 32 bits are written as -2 - k in the operation and mean 2^32 + k (k = 0, 1)
    auto wide = [](int v) -> long { return v <= -2 ? (1L << 32) + (-2 - v) : v; };
    s.lo = wide(o.at(CA_LO)); s.hi = o.at(CA_HI) == -1 ? INF : wide(o.at(CA_HI));
    s.m[0] = MSpec{o.at(CA_M0K), o.at(CA_M0V)}; s.m[1] = MSpec{o.at(CA_M1K), o.at(CA_M1V)};
    s.with[0] = o.at(CA_W0); s.with[1] = o.at(CA_W1);
    s.fx[0] = o.at(CA_X0); s.fx[1] = o.at(CA_X1);
    s.fxa[0][0] = o.at(CA_X0O); s.fxa[0][1] = o.at(CA_X0F); s.fxa[0][2] = o.at(CA_X0A);
    s.fxa[1][0] = o.at(CA_X1O); s.fxa[1][1] = o.at(CA_X1F); s.fxa[1][2] = o.at(CA_X1A);
    s.lit = o.a.size() > CA_LIT ? o.at(CA_LIT) : -1;
    return s;
  }

  bool applicable(const Op& o) const {
    switch (o.kind) {
      case O_CREATE: {
        Spec s = spec_of(o);
        if (slot_eid[s.slot] >= 0 || !obj[s.obj].alive) return false;
        for (int j = 0; j < s.nseq; ++j) if (!seq[s.seq[j]].alive) return false;
        if (s.nseq >= 2 && s.seq[0] == s.seq[1]) return false;
        if (s.nseq > 2 && s.lit >= 0) return false;
        if (s.nseq > 0 && s.hi == 0 && s.lit >= 0) return false;  // compile-time forbids cannot be sequenced; RT_TIMES(0) + IN_SEQUENCE can
        if (s.lit >= 0) for (int q = NSLOT; q < NALL; ++q) if (slot_eid[q] >= 0 && E.at(slot_eid[q]).s.lit == s.lit) return false;  // one location = one live expectation
        if ((s.lit >= 0) != (s.slot >= NSLOT)) return false;
        return true;
      }
      case O_RELEASE: return slot_eid[o.at(0)] >= 0;
      case O_CALL: return obj[o.at(0)].alive;
      case O_MOVE_MOCK: return o.at(0) != OBJ_FIXED && obj[o.at(0)].alive && husks < 4;   // slot OBJ_FIXED: not movable
      case O_DESTROY_MOCK: return obj[o.at(0)].alive;
      case O_RECREATE_MOCK: return !obj[o.at(0)].alive;
      case O_DESTROY_SEQ: case O_MOVE_SEQ: return seq[o.at(0)].alive;
      case O_RECREATE_SEQ: return !seq[o.at(0)].alive;
      case O_WATCH: {
        if (!dw[o.at(0)].alive || mon_eid[o.at(0)][o.at(1)] >= 0) return false;
        for (int j = 0; j < o.at(2); ++j) if (!seq[o.at(3 + j)].alive) return false;
        // at most one sequenced requirement per object at a time (the order in which several
        // requirements of one object are told about its death is unspecified)
        if (o.at(2) > 0) for (int eid : dw[o.at(0)].reqs) if (!E.at(eid).seqs.empty()) return false;
        if (o.at(2) == 2 && o.at(3) == o.at(4)) return false;
        return true;
      }
      case O_UNWATCH: return mon_eid[o.at(0)][o.at(1)] >= 0;
      case O_DESTROY_DW: return dw[o.at(0)].alive;
      case O_COPY_DW: case O_MOVE_DW: return !dw[o.at(0)].alive && dw[o.at(1)].alive && o.at(0) != o.at(1);
      case O_ASSIGN_DW: return dw[o.at(0)].alive && dw[o.at(1)].alive && o.at(0) != o.at(1);
      case O_RECREATE_DW: return !dw[o.at(0)].alive;
      case O_PUSH_TRACER: return static_cast<int>(tracers.size()) < MAXTR;
      case O_POP_TRACER: case O_DROP_TRACER: return !tracers.empty();
      case O_SWAP_REPORTER: return true;
      case O_DESTROY_HUSKS: return husks > 0;
      case O_SCOPED: return obj[o.at(0)].alive && o.at(1) != o.at(2);  // composite: executed by the interpreter as sub-operations
      case O_SCOPED_DW: {  // composite: { REQUIRE_DESTRUCTION(obj)[.IN_SEQUENCE(s)]; [delete obj;] }
        if (!dw[o.at(0)].alive) return false;
        if (o.at(1) > 0 && !seq[o.at(2)].alive) return false;
        if (o.at(1) > 0) for (int eid : dw[o.at(0)].reqs) if (!E.at(eid).seqs.empty()) return false;
        return true;
      }
    }
    return false;
  }

  // --- matching --------------------------------------------------------------------------
  static int with_key(const Spec& s, int idx, int a0, int a1) { return (second_pos(s.func) >= 0 && idx == 1) ? a1 : a0; }
  static bool params_match(const Spec& s, int a0, int a1) {
    if (!mspec_accepts(s.m[0], a0)) return false;
    if (second_pos(s.func) >= 0 && !mspec_accepts(s.m[1], a1)) return false;
    return true;
  }
  static int first_failed_with(const Spec& s, int a0, int a1) {
    for (int i = 0; i < 2; ++i) if (!with_accepts(s.with[i], with_key(s, i, a0, a1))) return i;
    return -1;
  }
  static bool matches(const Spec& s, int a0, int a1) { return params_match(s, a0, a1) && first_failed_with(s, a0, a1) < 0; }

  // number of still-pending earlier steps e has to pass over in sequence index j; COST_INF if blocked
  long cost_in(const MExp& e, size_t j) const {
    if (!e.pending[j]) return COST_INF;
    const MSeq& sq = seq[e.seqs[j]];
    if (!sq.alive || sq.gen != e.seqgen[j]) return COST_INF;
    long c = 0;
    for (int p : sq.pending) {
      if (p == e.s.eid) return c;
      if (!E.at(p).satisfied()) return COST_INF;
      ++c;
    }
    return COST_INF;
  }
  long cost(const MExp& e) const {
    long c = 0;
    for (size_t j = 0; j < e.seqs.size(); ++j) c = std::max(c, cost_in(e, j));
    return c;
  }

  void leave_sequences(MExp& e) {
    for (size_t j = 0; j < e.seqs.size(); ++j) {
      if (!e.pending[j]) continue;
      MSeq& sq = seq[e.seqs[j]];
      if (sq.alive && sq.gen == e.seqgen[j]) sq.pending.erase(std::remove(sq.pending.begin(), sq.pending.end(), e.s.eid), sq.pending.end());
      e.pending[j] = false;
    }
  }
  void retire_predecessors(MExp& e) {
    for (size_t j = 0; j < e.seqs.size(); ++j) {
      if (!e.pending[j]) continue;
      MSeq& sq = seq[e.seqs[j]];
      if (!sq.alive || sq.gen != e.seqgen[j]) continue;
      while (!sq.pending.empty() && sq.pending.front() != e.s.eid) {
        MExp& p = E.at(sq.pending.front());
        for (size_t q = 0; q < p.seqs.size(); ++q)
          if (p.seqs[q] == e.seqs[j] && p.seqgen[q] == sq.gen) p.pending[q] = false;
        sq.pending.erase(sq.pending.begin());
      }
    }
  }
  void mark_seq_named(const MExp& e) {
    for (size_t j = 0; j < e.seqs.size(); ++j) {
      const MSeq& sq = seq[e.seqs[j]];
      if (!sq.alive || sq.gen != e.seqgen[j]) continue;
      for (int p : sq.pending) E.at(p).seq_named = true;
    }
  }

  CallResult do_call(int o, int func, int a0, int a1, int depth, Expect& x) {
    MObj& mo = obj[o];
    std::vector<int> M;
    for (int eid : mo.active[func]) if (matches(E.at(eid).s, a0, a1)) M.push_back(eid);
    for (int eid : M) if (E.at(eid).tainted) { x.degrade = true; return CallResult{}; }
    std::vector<int> args;
    for (int k = 0; k < func_arity(func); ++k) args.push_back(call_arg(func, k, a0, a1));
    if (depth == 1) x.n_matching = static_cast<int>(M.size());
    if (M.empty()) {
      XRep r; r.kind = K_NOMATCH; r.fatal = true; r.func = func; r.args = args;
      std::vector<int> sat;
      for (int eid : mo.saturated[func]) if (matches(E.at(eid).s, a0, a1)) sat.push_back(eid);
      if (!sat.empty()) {
        r.sat_listing = true;
        for (int eid : sat) r.listed.push_back(XListed{eid, {}, -1});
        if (depth == 1) x.saturated_hit = true;
      } else {
        for (int eid : mo.active[func]) {
          MExp& e = E.at(eid);
          XListed l{eid, {}, -1};
          if (!mspec_accepts(e.s.m[0], a0)) l.rej_params.push_back(0);
          if (second_pos(func) >= 0 && !mspec_accepts(e.s.m[1], a1)) l.rej_params.push_back(second_pos(func));
          if (l.rej_params.empty()) l.failed_with = first_failed_with(e.s, a0, a1);
          r.listed.push_back(l);
          e.reported = true;
        }
        if (depth == 1 && !mo.active[func].empty()) x.rejected_with_live = true;
      }
      x.reports.push_back(r);
      return CallResult{R_FATAL, 0, ""};
    }
    // designated candidate: fewest pending steps passed over, newest on ties
    int cand = -1; long best = COST_INF + 1;
    long c_newest = cost(E.at(M[0]));
    for (int eid : M) {
      long c = cost(E.at(eid));
      if (c < best) { best = c; cand = eid; }
      else if (c == best && depth == 1 && c < COST_INF) x.tie = true;
    }
    MExp& e = E.at(cand);
    if (depth == 1) {
      if (cand != M[0]) { x.handler_not_newest = true; if (c_newest >= COST_INF) x.blocked_yield = true; }
      if (e.seqs.size() >= 2) x.multiseq = true;
    }
    if (e.s.hi == 0) {
      XRep r; r.kind = K_FORBIDDEN; r.fatal = true; r.eid = cand; r.func = func; r.args = args;
      x.reports.push_back(r);
      e.reported = true;
      if (depth == 1) { x.forbidden_hit = true; x.rejected_with_live = true; }
      return CallResult{R_FATAL, 0, ""};
    }
    if (best >= COST_INF) {
      XRep r; r.kind = K_SEQ_CALL; r.fatal = true; r.eid = cand; r.func = func; r.args = args;
      x.reports.push_back(r);
      mark_seq_named(e);
      if (depth == 1) { x.ineligible_step = true; x.rejected_with_live = true; }
      return CallResult{R_FATAL, 0, ""};
    }
    if (e.s.hi == 0) {
      XRep r; r.kind = K_FORBIDDEN; r.fatal = true; r.eid = cand; r.func = func; r.args = args;
      x.reports.push_back(r);
      e.reported = true;
      if (depth == 1) { x.forbidden_hit = true; x.rejected_with_live = true; }
      return CallResult{R_FATAL, 0, ""};
    }
    // accepted
    if (depth == 1 && best > 0) x.skipped_pending = true;
    e.count++;
    if (fix_backstep || e.satisfied()) retire_predecessors(e);
    if (e.s.hi != INF && e.count == e.s.hi) {
      leave_sequences(e);
      auto& act = mo.active[func];
      act.erase(std::remove(act.begin(), act.end(), cand), act.end());
      mo.saturated[func].push_back(cand);
      e.saturated = true;
    }
    size_t ok_at = x.oks.size();
    x.oks.push_back(cand);
    const Spec sp = e.s;  // copy: nested calls may change the map
    int tr = tracers.empty() ? -1 : tracers.back();
    CallResult res;
    bool done = false;
    for (int i = 0; i < 2 && !done; ++i) {
      if (sp.fx[i] == X_OFF) continue;
      x.clauses.push_back(Clause{C_FX, cand, i, depth});
      if (sp.fx[i] == X_THROW) { res = CallResult{R_SIDE_EXC, cand, ""}; done = true; }
      else if (sp.fx[i] == X_TRACER) { if (static_cast<int>(tracers.size()) < MAXTR) tracers.push_back(tracer_ids++); }
      else if (sp.fx[i] == X_NEST && depth < 3 && obj[sp.fxa[i][0]].alive) {
        size_t at = x.nested.size();
        x.nested.push_back(XNested{depth, sp.fxa[i][0], sp.fxa[i][1], sp.fxa[i][2], CallResult{}});
        CallResult n = do_call(sp.fxa[i][0], sp.fxa[i][1], sp.fxa[i][2], sp.fxa[i][2], depth + 1, x);
        if (x.degrade) return CallResult{};
        x.nested[at].res = n;
        if (n.kind != R_RETURNED) { res = n; done = true; }
      }
    }
    if (!done) {
      if (sp.term == 1) { x.clauses.push_back(Clause{C_THROW, cand, 0, depth}); res = CallResult{R_THROWN, cand, ""}; }
      else if (sp.func == F_v) res = CallResult{R_RETURNED, 0, ""};
      else { x.clauses.push_back(Clause{C_RET, cand, 0, depth}); res = CallResult{R_RETURNED, cand, ""}; }
    }
    if (done) {  // the exception came out of a side effect (own throw or a nested call's)
      x.oks.erase(x.oks.begin() + static_cast<long>(ok_at));
      x.oks_optional.push_back(cand);
    }
    int tr_end = tracers.empty() ? -1 : tracers.back();
    if (tr >= 0) { XTrace t{tr, cand, func, args, res}; if (tr_end != tr) t.alt_tracer = tr_end; x.traces.push_back(t); }
    else if (tr_end >= 0) { XTrace t{tr_end, cand, func, args, res}; t.optional_ = true; x.traces.push_back(t); }
    return res;
  }

  XRep shortfall(const MExp& e, int kind) const {
    XRep r; r.kind = kind; r.fatal = false; r.eid = e.s.eid; r.func = e.s.func;
    r.optional_ = e.seq_named;
    return r;
  }

  // --- one operation ---------------------------------------------------------------------
  Expect step(const Op& o) {
    Expect x;
    x.applicable = applicable(o);
    if (!x.applicable) return x;
    switch (o.kind) {
      case O_CREATE: {
        Spec s = spec_of(o);
        s.eid = next_eid++;
        if (s.hi != INF && s.lo > s.hi) { x.create_res = 1; break; }  // RT_TIMES(lo>hi): logic_error, nothing left
        MExp e; e.s = s;
        for (int j = 0; j < s.nseq; ++j) {
          e.seqs.push_back(s.seq[j]); e.seqgen.push_back(seq[s.seq[j]].gen); e.pending.push_back(true);
          seq[s.seq[j]].pending.push_back(s.eid);
        }
        E[s.eid] = e;
        slot_eid[s.slot] = s.eid;
        auto& act = obj[s.obj].active[s.func];
        act.insert(act.begin(), s.eid);
        break;
      }
      case O_RELEASE: {
        int eid = slot_eid[o.at(0)];
        MExp& e = E.at(eid);
        if (!e.reported && e.attached && !e.satisfied()) x.reports.push_back(shortfall(e, K_UNFULFILLED));
        if (e.attached) {
          auto& act = obj[e.s.obj].active[e.s.func];
          act.erase(std::remove(act.begin(), act.end(), eid), act.end());
          auto& sat = obj[e.s.obj].saturated[e.s.func];
          sat.erase(std::remove(sat.begin(), sat.end(), eid), sat.end());
        }
        leave_sequences(e);
        e.alive = false;
        slot_eid[o.at(0)] = -1;
        break;
      }
      case O_CALL: {
        x.is_call = true;
        x.outcome = do_call(o.at(0), o.at(1), o.at(2), o.at(3), 1, x);
        break;
      }
      case O_MOVE_MOCK: if (o.at(1)) ++husks; break;   // expectations stay with the slot = the new object
      case O_DESTROY_HUSKS: husks = 0; break;
      case O_DESTROY_MOCK: {
        MObj& mo = obj[o.at(0)];
        for (int f = 0; f < NFUNC; ++f) {
          for (auto* lst : {&mo.active[f], &mo.saturated[f]}) {
            for (int eid : *lst) {
              MExp& e = E.at(eid);
              if (!e.reported && !e.satisfied()) { x.reports.push_back(shortfall(e, K_PENDING_DESTROYED)); e.reported = true; }
              e.attached = false;
            }
            lst->clear();
          }
        }
        mo.alive = false;
        break;
      }
      case O_RECREATE_MOCK: obj[o.at(0)].alive = true; break;
      case O_DESTROY_SEQ: {
        MSeq& sq = seq[o.at(0)];
        XRep r; r.kind = K_SEQ_DESTROYED; r.fatal = false; r.seq = o.at(0);
        for (int eid : sq.pending) {
          MExp& e = E.at(eid);
          if ((e.is_mon && e.died) || (!e.is_mon && e.s.hi == 0)) r.optional_listed.push_back(eid);  // saturated members: listed or not, either way
          else r.listed.push_back(XListed{eid, {}, -1});
          e.seq_named = true;
          e.tainted = true;  // eligibility after its sequence object died is unspecified
          for (size_t j = 0; j < e.seqs.size(); ++j) if (e.seqs[j] == o.at(0) && e.seqgen[j] == sq.gen) e.pending[j] = false;
        }
        if (!r.listed.empty()) x.reports.push_back(r);
        else if (!r.optional_listed.empty()) { r.optional_ = true; x.reports.push_back(r); }
        sq.pending.clear();
        sq.alive = false;
        break;
      }
      case O_MOVE_SEQ: break;
      case O_RECREATE_SEQ: seq[o.at(0)].alive = true; seq[o.at(0)].gen++; break;
      case O_WATCH: {
        MExp e; e.is_mon = true; e.dw = o.at(0); e.ms = o.at(1); e.s.eid = next_eid++; e.s.lo = 1; e.s.hi = 1;
        for (int j = 0; j < o.at(2); ++j) {
          int k = o.at(3 + j);
          e.seqs.push_back(k); e.seqgen.push_back(seq[k].gen); e.pending.push_back(true);
          seq[k].pending.push_back(e.s.eid);
        }
        E[e.s.eid] = e;
        mon_eid[e.dw][e.ms] = e.s.eid;
        dw[e.dw].reqs.push_back(e.s.eid);
        break;
      }
      case O_UNWATCH: {
        int eid = mon_eid[o.at(0)][o.at(1)];
        MExp& e = E.at(eid);
        if (!e.died) {
          XRep r; r.kind = K_STILL_ALIVE; r.fatal = false; r.eid = eid; r.dw = e.dw;
          x.reports.push_back(r);
          auto& rq = dw[e.dw].reqs;
          rq.erase(std::remove(rq.begin(), rq.end(), eid), rq.end());
        }
        leave_sequences(e);
        e.alive = false;
        mon_eid[o.at(0)][o.at(1)] = -1;
        break;
      }
      case O_DESTROY_DW: {
        MDw& d = dw[o.at(0)];
        if (d.reqs.empty()) {
          XRep r; r.kind = K_UNEXPECTED_DESTRUCTION; r.fatal = false; r.dw = o.at(0);
          x.reports.push_back(r);
        } else {
          for (int eid : d.reqs) {
            MExp& e = E.at(eid);
            for (size_t j = 0; j < e.seqs.size(); ++j) {
              if (e.tainted) { x.degrade = true; break; }
              if (cost_in(e, j) >= COST_INF) {
                XRep r; r.kind = K_SEQ_DESTRUCTION; r.fatal = false; r.eid = eid; r.seq = e.seqs[j]; r.dw = o.at(0);
                x.reports.push_back(r);
                x.ineligible_step = true;
                mark_seq_named(e);
              }
            }
            e.died = true;
            e.count = 1;
            retire_predecessors(e);
            leave_sequences(e);   // saturated: leaves its sequences (C06)
          }
          d.reqs.clear();
        }
        d.alive = false;
        break;
      }
      case O_COPY_DW: case O_MOVE_DW: dw[o.at(0)].alive = true; dw[o.at(0)].reqs.clear(); break;
      case O_ASSIGN_DW: break;
      case O_RECREATE_DW: dw[o.at(0)].alive = true; dw[o.at(0)].reqs.clear(); break;
      case O_PUSH_TRACER: tracers.push_back(tracer_ids++); break;
      case O_POP_TRACER: tracers.pop_back(); break;
      case O_DROP_TRACER: tracers.erase(tracers.begin() + o.at(0) % static_cast<int>(tracers.size())); break;
      case O_SWAP_REPORTER: rep_gen++; if (o.at(0)) ok_gen = rep_gen; break;
    }
    return x;
  }

  bool seq_completed(int k) const {
    for (int eid : seq[k].pending) if (!E.at(eid).satisfied()) return false;
    return true;
  }
};

}  // namespace w

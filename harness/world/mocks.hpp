// Mock classes and the data-driven clause callbacks used by the expectation sites.
#pragma once
#include <trompeloeil.hpp>
#include <memory>
#include <ostream>
#include <stdexcept>
#include <string>
#include "wspec.hpp"

namespace w {

struct Mk {
  static constexpr bool trompeloeil_movable_mock = true;
  MAKE_MOCK1(f, int(int));
  MAKE_MOCK1(h, int(int));
  MAKE_MOCK1(ov, int(int));
  MAKE_MOCK1(ov, int(std::string const&));
  MAKE_MOCK1(v, void(int));
  MAKE_CONST_MOCK1(cf, int(int));
  MAKE_MOCK2(g, int(int, int));
  MAKE_MOCK12(w, int(int, int, int, int, int, int, int, int, int, int, int, int));
};
// the same functions on a mock class that is NOT movable (the library's default; another
// specialisation of its expectation lists). Object slot OBJ_FIXED holds this type.
struct MkN {
  MAKE_MOCK1(f, int(int));
  MAKE_MOCK1(h, int(int));
  MAKE_MOCK1(ov, int(int));
  MAKE_MOCK1(ov, int(std::string const&));
  MAKE_MOCK1(v, void(int));
  MAKE_CONST_MOCK1(cf, int(int));
  MAKE_MOCK2(g, int(int, int));
  MAKE_MOCK12(w, int(int, int, int, int, int, int, int, int, int, int, int, int));
};

struct Dwt {
  Dwt() = default;
  explicit Dwt(int p) : payload(p) {}
  Dwt(const Dwt&) = default;
  Dwt(Dwt&&) = default;
  Dwt& operator=(const Dwt&) = default;
  Dwt& operator=(Dwt&&) = default;
  virtual ~Dwt() = default;
  int payload = 0;
};

struct fatal_report {};                  // thrown by the conforming reporter on severity::fatal
struct thrown : std::runtime_error {     // value of THROW clauses
  int eid;
  explicit thrown(int e) : std::runtime_error("thrown:" + std::to_string(e)), eid(e) {}
};
struct side_exc { int eid; int idx; };   // thrown by a throwing SIDE_EFFECT

// ---- type-erased matcher built with the documented make_matcher<> around a library matcher ----
template <typename V>
struct HolderBase {
  virtual ~HolderBase() = default;
  virtual bool matches(V const&) const = 0;
  virtual void print(std::ostream&) const = 0;
};
template <typename V>
struct DPred {
  bool operator()(V const& v, std::shared_ptr<HolderBase<V>> const& h) const { return h->matches(v); }
};
template <typename V>
struct DPrint {
  void operator()(std::ostream& os, std::shared_ptr<HolderBase<V>> const& h) const { h->print(os); }
};
template <typename V>
using DM = decltype(trompeloeil::make_matcher<V>(DPred<V>{}, DPrint<V>{}, std::shared_ptr<HolderBase<V>>{}));

DM<int> dm_int(const MSpec&);
DM<std::string> dm_str(const MSpec&);

// ---- clause callbacks (defined in real.cpp) ----
inline int wkey(int x) { return x; }
int wkey(std::string const& s);
bool wev(int eid, int idx, int key);   // WITH clause idx of expectation eid on key of _1
void wfx(int eid, int idx);            // SIDE_EFFECT clause idx
int wret(int eid);                     // RETURN expression
std::size_t wrt(int n);                // a bound that is only known at run time
thrown wthrow(int eid);                // THROW expression

// sequence objects named by sites
trompeloeil::sequence& wseq(int k);
// objects named by sites
Mk& wmock(int obj);      // obj != OBJ_FIXED
MkN& wmock_fixed();      // the object of slot OBJ_FIXED
template <int K, class M> inline M& wmock_s(M& m) { return m; }
// runs f on the mock object of slot obj, whatever its type
template <class F> inline decltype(auto) with_mock(int obj, F&& f) {
  if (obj == OBJ_FIXED) return f(wmock_fixed());
  return f(wmock(obj));
}

using ExpPtr = std::unique_ptr<trompeloeil::expectation>;
struct Created { ExpPtr p; unsigned long line; };

// one per site TU
Created create_slot0(const Spec&); Created create_slot1(const Spec&); Created create_slot2(const Spec&);
Created create_slot3(const Spec&); Created create_slot4(const Spec&); Created create_slot5(const Spec&);
Created create_slot6(const Spec&); Created create_slot7(const Spec&);
Created create_lit(int litslot, const Spec&);
const char* slot_file0(); const char* slot_file1(); const char* slot_file2(); const char* slot_file3();
const char* slot_file4(); const char* slot_file5(); const char* slot_file6(); const char* slot_file7();
const char* lit_file();
const char* scoped_file();

}  // namespace w

// Literal sites: the documented spellings written out. One form per source line; the location
// identifies the form. NLIT slots share this file, so two live expectations of the same form
// (different literal slots) share a location: the interpreter never creates the same literal
// form twice at once (see Model::applicable).
#include "mocks.hpp"
#include "wlit.hpp"

namespace w {
using trompeloeil::_;
using trompeloeil::eq;
using trompeloeil::ne;
using trompeloeil::lt;
using trompeloeil::le;
using trompeloeil::gt;
using trompeloeil::ge;

const char* lit_file() { return __FILE__; }

#define L_MK(EXPR) return Created{EXPR, __LINE__}
namespace {
template <class M>
Created create_lit_impl(M& m, const Spec& s) {
  const int eid = s.eid;
  switch (s.lit) {
    case 0: L_MK(NAMED_REQUIRE_CALL(m, f(_)).RETURN(wret(eid)));
    case 1: L_MK(NAMED_REQUIRE_CALL(m, f(1)).TIMES(2).RETURN(wret(eid)));
    case 2: L_MK(NAMED_REQUIRE_CALL(m, f(ANY(int))).RETURN(wret(eid)).TIMES(1, 3));
    case 3: L_MK(NAMED_REQUIRE_CALL(m, f(eq(2))).TIMES(AT_LEAST(2)).RETURN(wret(eid)));
    case 4: L_MK(NAMED_REQUIRE_CALL(m, f(lt(3))).RETURN(wret(eid)).TIMES(AT_MOST(2)));
    case 5: L_MK(NAMED_ALLOW_CALL(m, f(_)).RETURN(wret(eid)));
    case 6: L_MK(NAMED_ALLOW_CALL(m, f(ge(2))).RETURN(wret(eid)));
    case 7: L_MK(NAMED_FORBID_CALL(m, f(_)));
    case 8: L_MK(NAMED_FORBID_CALL(m, f(3)));
    case 9: L_MK(NAMED_REQUIRE_CALL(m, f(ne(1))).TIMES(0));
    case 10: L_MK(NAMED_REQUIRE_CALL(m, g(_, gt(1))).RETURN(wret(eid)));
    case 11: L_MK(NAMED_ALLOW_CALL(m, g(le(2), _)).RETURN(wret(eid)));
    case 12: L_MK(NAMED_REQUIRE_CALL(m, v(_)).TIMES(2).SIDE_EFFECT(wfx(eid, 0)));
    case 13: L_MK(NAMED_REQUIRE_CALL(m, f(_)).WITH(_1 > 2).RETURN(wret(eid)));
    case 14: L_MK(NAMED_ALLOW_CALL(m, ov(ANY(int))).RETURN(wret(eid)));
    case 15: L_MK(NAMED_ALLOW_CALL(m, ov(ANY(std::string const&))).RETURN(wret(eid)));
    case 30: L_MK(NAMED_FORBID_CALL_V(m, v(_), .WITH(_1 > 2)));
    case 31: L_MK(NAMED_REQUIRE_CALL_V(m, f(_), .TIMES(2) .RETURN(wret(eid))));
    case 32: L_MK(NAMED_ALLOW_CALL_V(m, f(le(1)), .RETURN(wret(eid))));
    case 33: L_MK(NAMED_FORBID_CALL_V(m, f(4)));
    case 34: L_MK(NAMED_REQUIRE_CALL(m, f(_)).RT_TIMES(wrt(2)).RETURN(wret(eid)));
    case 35: L_MK(NAMED_REQUIRE_CALL(m, f(_)).RETURN(wret(eid)).RT_TIMES(AT_LEAST(wrt(1))));
    case 36: L_MK(NAMED_REQUIRE_CALL(m, f(_)).RT_TIMES(AT_MOST(wrt(2))).RETURN(wret(eid)));
    case 37: L_MK(NAMED_REQUIRE_CALL(m, f(ge(2))).RETURN(wret(eid)).RT_TIMES(wrt(1)));
    case 38: L_MK(NAMED_REQUIRE_CALL_V(m, v(_), .RT_TIMES(wrt(3))));
  }
  return Created{nullptr, 0};
}
}  // namespace

Created create_lit(int litslot, const Spec& s) {
  (void)litslot;
  return with_mock(s.obj, [&](auto& m) { return create_lit_impl(m, s); });
}

}  // namespace w

// Engine W driver: rapidcheck generation, replay, bounded enumerations.
#include <rapidcheck.h>
#include <fcntl.h>
#include <functional>
#include <iostream>
#include "wgen.hpp"
#include "winterp.hpp"

using namespace w;

static vc::Args A;
static vc::Stats ST;
static uint32_t PM = 0;  // mask of the property under check (0: any mismatch counts)
static std::string g_last_fail;

static bool nontrivial(const std::string& prop, const CaseResult& r) {
  int n = atoi(prop.c_str() + 1);
  switch (n) {
    case 1: return r.after_release_calls > 0 || r.moved_calls > 0 || r.rejected_with_live > 0;
    case 2: return r.multi_candidate > 0;
    case 3: return r.flag_flips > 0 && r.calls > 0;
    case 4: return r.eol_nontrivial > 0;
    case 5: return r.ineligible > 0 || r.skipped_pending > 0;
    case 6: return r.completed_flips >= 2 || r.seq_teardown_pending > 0;
    case 7: return r.forbidden_hits > 0 && r.accepted > 0;
    case 8: return (r.fx_events >= 2 || r.with_events >= 2) && (r.multi_candidate > 0 || r.nested > 0 || r.throwing_calls > 0);
    case 13: return r.dw_events >= 3;
    case 14: return r.call_after_destroy_dependency > 0 || r.moved_calls > 0;
    case 15: return r.multi_listed > 0 || r.culprit_not_newest > 0;
    case 16: return (r.accepted > 0 && r.handler_not_newest > 0) || r.rejected_with_live > 0 || r.swaps > 0;
    case 17: return r.trace_depth2_calls > 0 || (r.traces > 0 && r.throwing_calls > 0);
  }
  return r.calls > 0;
}

static void account(const std::vector<Op>& ops, const CaseResult& r) {
  ST.evaluations++;
  ST.label("ops", r.ops_run);
  ST.label("noop_ops", r.noops);
  ST.label("calls", r.calls);
  ST.label("calls_accepted", r.accepted);
  ST.label("calls_rejected", r.rejected);
  ST.label("calls_multi_candidate", r.multi_candidate);
  ST.label("calls_tie_on_cost", r.tie);
  ST.label("calls_newer_blocked_yields_to_older", r.blocked_yield);
  ST.label("calls_multi_sequence_handler", r.multiseq);
  ST.label("calls_handler_not_newest", r.handler_not_newest);
  ST.label("calls_skipping_pending_steps", r.skipped_pending);
  ST.label("calls_rejected_with_live_expectation", r.rejected_with_live);
  ST.label("steps_ineligible_in_sequence", r.ineligible);
  ST.label("calls_forbidden", r.forbidden_hits);
  ST.label("calls_matching_saturated", r.saturated_hits);
  ST.label("calls_after_release_or_saturation", r.after_release_calls);
  ST.label("calls_on_moved_mock", r.moved_calls);
  ST.label("calls_throwing", r.throwing_calls);
  ST.label("calls_nested", r.nested);
  ST.label("reports", r.reports);
  ST.label("reports_listing_2plus", r.multi_listed);
  ST.label("reports_culprit_not_newest", r.culprit_not_newest);
  ST.label("shortfall_reports", r.shortfalls);
  ST.label("end_of_life_nontrivial", r.eol_nontrivial);
  ST.label("ok_reports", r.oks);
  ST.label("trace_records", r.traces);
  ST.label("calls_with_2plus_tracers", r.trace_depth2_calls);
  ST.label("side_effect_return_events", r.fx_events);
  ST.label("with_evaluations", r.with_events);
  ST.label("flag_flips", r.flag_flips);
  ST.label("is_completed_flips", r.completed_flips);
  ST.label("sequence_teardown_with_pending", r.seq_teardown_pending);
  ST.label("deathwatched_events", r.dw_events);
  ST.label("reporter_swaps", r.swaps);
  ST.label("ops_in_catch_handler_or_during_unwinding", r.ctx_ops);
  ST.label("scoped_blocks", r.scoped_blocks);
  ST.label("calls_after_a_dependency_was_destroyed", r.call_after_destroy_dependency);
  ST.label("tolerant_optional_reports", r.tolerant);
  if (r.degraded) ST.label("cases_degraded_to_memory_safety_only");
  for (auto& mm : r.mismatches) if (!(PM == 0 || (mm.mask & PM))) ST.label(std::string("other_property_mismatch_") + cat_name(mm.cat));
  if (nontrivial(A.prop, r)) {
    std::string txt;
    for (auto& o : ops) txt += op_pretty(o) + "; ";
    ST.nontrivial_case(vc::fnv1a(ops_text(ops)), txt);
  }
}

static std::string first_relevant(const CaseResult& r) {
  for (auto& mm : r.mismatches) if (PM == 0 || (mm.mask & PM)) return std::string("[") + cat_name(mm.cat) + "] at op " + std::to_string(mm.op_index) + ": " + mm.msg;
  return "";
}

static std::string replay_text(const std::vector<Op>& ops, unsigned perm, const std::string& why) {
  std::string s = "# engine=W prop=" + A.prop + " profile=" + A.profile + "\n# perm=" + std::to_string(perm) + "\n";
  if (A.has("coldcall")) s += "# coldcall: the process made one accepted call before any reporter was installed\n";
  std::istringstream w(why);
  std::string l;
  while (std::getline(w, l)) s += "# " + l + "\n";
  s += ops_text(ops);
  return s;
}

static int g_cur_fd = -1;
static void save_current(const std::vector<Op>& ops, unsigned perm) {
  // the case about to run, so that a sanitizer abort (which bypasses shrinking) leaves its input behind
  if (g_cur_fd < 0) {
    std::string path = A.faildir + "/cur_case." + std::to_string(getpid()) + ".txt";
    g_cur_fd = open(path.c_str(), O_CREAT | O_WRONLY | O_TRUNC, 0644);
    if (g_cur_fd < 0) return;
  }
  std::string t = replay_text(ops, perm, "case in progress when the process ended");
  if (pwrite(g_cur_fd, t.data(), t.size(), 0) == static_cast<ssize_t>(t.size())) { if (ftruncate(g_cur_fd, static_cast<off_t>(t.size())) != 0) {} }
}

// C07 metamorphic relation ("as if it had never existed"): remove one forbidding expectation F, its release and
// every call for which F was the designated candidate; every remaining call must have the same outcome and the
// same handler (identified by the position of the handler's create operation) in both worlds. Real vs real.
// Only for forbids that are in no sequence (C07 quantifies over stackings, lifetimes, arguments and repeated calls): a
// run-time forbid placed IN_SEQUENCE is a step of its sequence, which later steps have to pass over (C02's cost), so it
// is not "as if it had never existed" for them and the relation does not apply.
static std::string forbid_metamorphic(const std::vector<Op>& ops, unsigned perm, const Interp& h) {
  std::vector<size_t> forbids;
  for (size_t i = 0; i < ops.size(); ++i)
    if (ops[i].kind == O_CREATE && ops[i].at(CA_HI) == 0 && ops[i].at(CA_NSEQ) == 0 && h.optrace[i].created_eid >= 0) forbids.push_back(i);
  if (forbids.empty()) return "";
  size_t fi = forbids[perm % forbids.size()];
  int slot = ops[fi].at(CA_SLOT), lit = ops[fi].at(CA_LIT), feid = h.optrace[fi].created_eid;
  // lifetime of F in H: until the first applicable release of its slot
  size_t end = ops.size();
  for (size_t i = fi + 1; i < ops.size(); ++i) if (ops[i].kind == O_RELEASE && ops[i].at(0) == slot && h.optrace[i].applicable) { end = i; break; }
  // keep the two worlds in step: nothing else may compete for F's slot / literal location while F lives
  for (size_t i = fi + 1; i < end; ++i)
    if (ops[i].kind == O_CREATE && (ops[i].at(CA_SLOT) == slot || (lit >= 0 && ops[i].at(CA_LIT) == lit))) return "";
  // a hit on F from a nested call (made by a side effect of an accepted outer call, or by one of the calls of a scoped
  // block - every such hit is recorded, a block can hit several forbids) cannot be removed without
  // changing the outer call's effects: the two worlds would not stay in step
  for (size_t i = 0; i < ops.size(); ++i) for (int e : h.optrace[i].forbid_nested_eids) if (e == feid) return "";
  std::vector<Op> ops2;
  std::vector<size_t> origin;
  for (size_t i = 0; i < ops.size(); ++i) {
    if (i == fi || i == end) continue;
    if (ops[i].kind == O_CALL && h.optrace[i].forbid_eid == feid) { ST.label("metamorphic_calls_removed"); continue; }
    ops2.push_back(ops[i]);
    origin.push_back(i);
  }
  Interp h2;
  CaseResult r2 = h2.run(ops2, perm, false);
  if (r2.degraded || h2.stop) return "";
  ST.label("metamorphic_pairs");
  auto creator = [](const Interp& w, const std::vector<size_t>* org, long eid) -> long {
    for (size_t i = 0; i < w.optrace.size(); ++i) if (w.optrace[i].created_eid == eid) return static_cast<long>(org ? (*org)[i] : i);
    return -1;
  };
  for (size_t j = 0; j < ops2.size(); ++j) {
    size_t i = origin[j];
    if (ops2[j].kind != O_CALL || !h.optrace[i].applicable || !h2.optrace[j].applicable) continue;
    const CallResult &a = h.optrace[i].got, &b = h2.optrace[j].got;
    bool same = a.kind == b.kind;
    if (same && a.kind != R_FATAL && a.value > 0) same = creator(h, nullptr, a.value) == creator(h2, &origin, b.value);
    ST.label("metamorphic_calls_compared");
    if (!same) return "metamorphic (forbid created at op " + std::to_string(fi) + " removed): call at op " + std::to_string(i) + " (" + op_pretty(ops[i]) + ") gives " + show(a) + " with the forbid and " + show(b) + " without it";
  }
  return "";
}

static bool run_case(const std::vector<Op>& ops, unsigned perm, std::string* why) {
  save_current(ops, perm);
  Interp in;
  CaseResult r = in.run(ops, perm);
  account(ops, r);
  std::string f = first_relevant(r);
  if (f.empty() && A.prop == "C07" && !r.degraded && !in.stop && r.mismatches.empty()) {
    std::string mm = forbid_metamorphic(ops, perm, in);
    if (!mm.empty()) f = "[forbid-metamorphic] " + mm;
  }
  if (!f.empty()) {
    if (why) *why = f;
    std::string path = A.faildir + "/w_fail." + A.prop + "." + std::to_string(getpid()) + ".txt";
    vc::write_file(path, replay_text(ops, perm, f));
    g_last_fail = path;
    return false;
  }
  return true;
}

static int do_replay(const std::string& path, bool verbose) {
  std::istringstream in(vc::read_file(path));
  std::string line;
  std::vector<Op> ops;
  unsigned perm = 0;
  while (std::getline(in, line)) {
    if (line.empty()) continue;
    if (line[0] == '#') {
      auto p = line.find("perm=");
      if (p != std::string::npos) perm = static_cast<unsigned>(atol(line.c_str() + p + 5));
      static bool cold_done = false;
      if (line.rfind("# coldcall", 0) == 0 && !cold_done) { cold_done = true; real::cold_start(); }   // nothing of the library has run yet in this process
      continue;
    }
    Op o;
    if (!op_parse(line, o)) { fprintf(stderr, "bad replay line: %s\n", line.c_str()); return 2; }
    ops.push_back(o);
  }
  Interp it;
  CaseResult r = it.run(ops, perm);
  account(ops, r);
  bool bad = false;
  for (auto& mm : r.mismatches) {
    bool rel = PM == 0 || (mm.mask & PM);
    if (rel) bad = true;
    if (verbose) printf("%s mismatch [%s] at op %zu (%s): %s\n", rel ? "RELEVANT" : "other", cat_name(mm.cat), mm.op_index,
                        mm.op_index < ops.size() ? op_pretty(ops[mm.op_index]).c_str() : "teardown", mm.msg.c_str());
  }
  if (!bad && A.prop == "C07" && !r.degraded && !it.stop && r.mismatches.empty()) {   // the relation is part of the check: a replay runs it too
    std::string mm = forbid_metamorphic(ops, perm, it);
    if (!mm.empty()) { bad = true; if (verbose) printf("RELEVANT [forbid-metamorphic] %s\n", mm.c_str()); }
  }
  if (verbose) {
    for (size_t i = 0; i < ops.size(); ++i) printf("  %2zu: %s\n", i, op_pretty(ops[i]).c_str());
    printf("replay %s: %s%s\n", path.c_str(), bad ? "FAILS" : "passes", r.degraded ? " (degraded)" : "");
  }
  return bad ? 1 : 0;
}

// ---- bounded exhaustive scopes -------------------------------------------------------------
static Op mk_create(int slot, int obj, int func, int nseq, int s0, int s1, long lo, long hi, int mk, int mv, int lit = -1) {
  Op o; o.kind = O_CREATE; o.a.assign(CA_N, 0);
  o.a[CA_SLOT] = slot; o.a[CA_OBJ] = obj; o.a[CA_FUNC] = func; o.a[CA_NSEQ] = nseq; o.a[CA_SEQ0] = s0; o.a[CA_SEQ1] = s1;
  o.a[CA_LO] = static_cast<int>(lo); o.a[CA_HI] = hi == INF ? -1 : static_cast<int>(hi); o.a[CA_M0K] = mk; o.a[CA_M0V] = mv; o.a[CA_LIT] = lit;
  if (lit >= 0) lit_fill(o);
  return o;
}
static Op mk_call(int obj, int func, int a0, int a1 = 0) { return Op{O_CALL, {obj, func, a0, a1}}; }

static bool enum_case(const std::vector<Op>& ops, unsigned perm, long& idx) {
  ++idx;
  if ((idx % A.nshards) != A.shard) return true;
  std::string why;
  if (!run_case(ops, perm, &why)) { fprintf(stderr, "enumeration case %ld fails: %s\n", idx, why.c_str()); return false; }
  return true;
}

// C03: every (L,H), every spelling, every stacking, n = 0..H+3 calls, flags swept after every call
static bool enum_c03() {
  long idx = 0;
  std::vector<std::pair<long, long>> bounds;
  for (long l = 0; l <= 5; ++l) { for (long h = std::max(l, 1L); h <= 5; ++h) bounds.push_back({l, h}); bounds.push_back({l, INF}); }
  bounds.push_back({0, 0});
  for (int stacking = 0; stacking < 4; ++stacking) {
    auto prefix = [&](std::vector<Op>& ops) {
      if (stacking == 1) ops.push_back(mk_create(1, 0, F_f, 0, 0, 1, 0, INF, M_WILD, 0));      // older allow-all below
      if (stacking == 2) ops.push_back(mk_create(1, 0, F_f, 0, 0, 1, 1, 1, M_VALUE, 1));       // older bounded below
    };
    auto suffix = [&](std::vector<Op>& ops) {
      if (stacking == 3) ops.push_back(mk_create(2, 0, F_f, 0, 0, 1, 0, INF, M_VALUE, 2));     // newer non-matching above
    };
    for (auto& b : bounds) {
      long top = (b.second == INF ? b.first : b.second) + 3;
      for (long n = 0; n <= top; ++n) {
        std::vector<Op> ops;
        prefix(ops);
        ops.push_back(mk_create(0, 0, F_f, 0, 0, 1, b.first, b.second, M_VALUE, 1));
        suffix(ops);
        for (long i = 0; i < n; ++i) ops.push_back(mk_call(0, F_f, 1));
        if (!enum_case(ops, static_cast<unsigned>(n), idx)) return false;
      }
    }
    // compile-time spellings (literal sites 0..9 on f, 10/11 on g, 12 on v)
    for (int lit = 0; lit < NLITALL + NLITNAMEDV; ++lit) {
      if (lit >= NLITFORM && lit < NLITALL) continue;   // scoped forms have no NAMED handle
      const LitForm& f = lit_forms()[lit];
      long top = (f.hi == INF ? f.lo : f.hi) + 3;
      int arg = f.m0.kind == M_VALUE || f.m0.kind == M_EQ ? f.m0.val : f.m0.kind == M_LT ? 1 : f.m0.kind == M_GE ? 3 : f.m0.kind == M_NE ? 2 : f.with0 == W_GT2 ? 4 : 1;
      for (long n = 0; n <= top; ++n) {
        std::vector<Op> ops;
        if (f.func == F_f) prefix(ops);
        ops.push_back(mk_create(NSLOT, 0, f.func, 0, 0, 1, f.lo, f.hi, f.m0.kind, f.m0.val, lit));
        if (f.func == F_f) suffix(ops);
        for (long i = 0; i < n; ++i) ops.push_back(mk_call(0, f.func, arg, 2));
        if (!enum_case(ops, static_cast<unsigned>(n), idx)) return false;
      }
    }
    // RT_TIMES(lo > hi): logic_error, nothing left behind (alone and after IN_SEQUENCE)
    for (int nseq = 0; nseq <= 2; ++nseq) for (long lo = 1; lo <= 3; ++lo) for (long hi = (nseq ? 1 : 0); hi < lo; ++hi) {
      std::vector<Op> ops;
      prefix(ops);
      ops.push_back(mk_create(0, 0, F_f, nseq, 0, 1, lo, hi, M_VALUE, 1));
      ops.push_back(mk_call(0, F_f, 1));
      ops.push_back(mk_create(0, 0, F_f, nseq, 0, 1, 1, 1, M_VALUE, 1));
      ops.push_back(mk_call(0, F_f, 1));
      if (!enum_case(ops, 0, idx)) return false;
    }
  }
  ST.label("c03_enumerated_cases", static_cast<uint64_t>(idx));
  return true;
}

// C05: N <= 3 participants (expectations on distinct argument values, or destruction monitors), K <= 2 sequences,
// every membership, bounds from {(0,inf),(1,1),(1,2),(2,2),(1,inf)}, every call/destruction string up to maxlen
static bool enum_c05(int N, int K, int maxlen) {
  long idx = 0;
  static const long B[5][2] = {{0, INF}, {1, 1}, {1, 2}, {2, 2}, {1, INF}};
  int nmemb = K == 1 ? 2 : 4;  // subsets of the K sequences
  std::vector<int> memb(static_cast<size_t>(N), 0), bnd(static_cast<size_t>(N), 0), kind(static_cast<size_t>(N), 0);
  // odometer over (kind, membership, bound) per participant; monitors use bound index 0 only
  std::function<bool(int)> rec = [&](int p) -> bool {
    if (p == N) {
      // all strings up to maxlen
      std::vector<int> str;
      std::function<bool()> strings = [&]() -> bool {
        std::vector<Op> ops;
        for (int q = 0; q < N; ++q) {
          int m = memb[static_cast<size_t>(q)];
          int nseq = (m & 1) + ((m >> 1) & 1);
          int s0 = (m & 1) ? 0 : 1, s1 = 1;
          if (kind[static_cast<size_t>(q)] == 0)
            ops.push_back(mk_create(q, 0, F_f, nseq, s0, s1, B[bnd[static_cast<size_t>(q)]][0], B[bnd[static_cast<size_t>(q)]][1], M_VALUE, q));
          else
            ops.push_back(Op{O_WATCH, {q, 0, nseq, s0, s1}});
        }
        for (int x : str) {
          if (kind[static_cast<size_t>(x)] == 0) ops.push_back(mk_call(0, F_f, x));
          else ops.push_back(Op{O_DESTROY_DW, {x}});
        }
        if (!enum_case(ops, static_cast<unsigned>(idx % 4999), idx)) return false;
        if (static_cast<int>(str.size()) < maxlen) {
          for (int x = 0; x < N; ++x) { str.push_back(x); if (!strings()) return false; str.pop_back(); }
        }
        return true;
      };
      return strings();
    }
    for (int k = 0; k < 2; ++k) {
      kind[static_cast<size_t>(p)] = k;
      for (int m = 0; m < nmemb; ++m) {
        memb[static_cast<size_t>(p)] = m;
        int nb = k == 0 ? 5 : 1;
        for (int b = 0; b < nb; ++b) { bnd[static_cast<size_t>(p)] = b; if (!rec(p + 1)) return false; }
      }
    }
    return true;
  };
  bool ok = rec(0);
  ST.label("c05_enumerated_cases", static_cast<uint64_t>(idx));
  return ok;
}

int main(int argc, char** argv) {
  A = vc::parse_args(argc, argv);
  if (A.profile.empty()) A.profile = "all";
  PM = prop_mask(A.prop);
  if (A.has("coldcall")) { real::cold_start(); ST.label("process_started_with_a_call_before_any_reporter_was_installed"); }
  ST.rule = "rapidcheck: vectors of 26-byte records decoded (indices modulo, nothing filtered) into operations of profile '" + A.profile +
            "' over 3 mocks x 7 functions, 12 expectation slots, 3 sequences, 3 deathwatched objects, tracers, reporters; plus a generated teardown order. "
            "distinct = FNV-1a of the decoded operation list; non-trivial per property as in DESIGN.md section 5";
  if (!A.replay.empty()) {
    int rc = do_replay(A.replay, A.has("verbose") || !A.has("quiet"));
    ST.write(A.out);
    return rc;
  }
  if (A.has("enum")) {
    std::string e = A.get("enum");
    bool ok = true;
    ST.exhaustive = true;
    if (e == "c03") {
      ST.rule = "exhaustive: every (L,H) with 0<=L<=H<=5, H=inf and (0,0) via RT_TIMES, every compile-time spelling at the literal sites, x 4 stackings (alone, over an older allow-all, over an older bounded expectation, under a newer non-matching one) x n = 0..H+3 calls, flags swept after every step; RT_TIMES(lo>hi) alone and after IN_SEQUENCE. non-trivial = some flag changes value; distinct by operation list";
      ok = enum_c03();
    } else {
      int N = static_cast<int>(A.geti("N", 3)), K = static_cast<int>(A.geti("K", 1)), len = static_cast<int>(A.geti("len", 4));
      ST.rule = "exhaustive small scope: N<=" + std::to_string(N) + " participants (expectation on its own argument value | destruction monitor) registered in order, K<=" + std::to_string(K) +
                " sequences, every membership, bounds from {(0,inf),(1,1),(1,2),(2,2),(1,inf)}, every call/destruction string of length <=" + std::to_string(len) + "; shard " + std::to_string(A.shard) + "/" + std::to_string(A.nshards) +
                ". non-trivial = some step ineligible when attempted or a handler passes over pending predecessors";
      ok = true;
      for (int n = 1; n <= N && ok; ++n) ok = enum_c05(n, K, len);
      // optional second scope, e.g. --N2 2 --K2 2 --len2 4 (two sequences on fewer participants)
      if (ok && A.has("N2")) {
        int N2 = static_cast<int>(A.geti("N2", 2)), K2 = static_cast<int>(A.geti("K2", 2)), len2 = static_cast<int>(A.geti("len2", 4));
        ST.rule += "; second scope N<=" + std::to_string(N2) + " K<=" + std::to_string(K2) + " len<=" + std::to_string(len2);
        for (int n = 2; n <= N2 && ok; ++n) ok = enum_c05(n, K2, len2);
      }
    }
    if (!ok && !g_last_fail.empty()) ST.violations.push_back({g_last_fail, "oracle disagreement in the exhaustive scope (see replay header)"});
    ST.write(A.out);
    return ok ? 0 : 1;
  }
  Profile prof = make_profile(A.profile);
  long max_ops = A.geti("maxops", 48);
  bool ok = rc::check("world " + A.prop + " " + A.profile, [&]() {
    auto recs = *rc::gen::container<std::vector<std::vector<uint8_t>>>(
        rc::gen::container<std::vector<uint8_t>>(REC, rc::gen::resize(100, rc::gen::cast<uint8_t>(rc::gen::inRange<int>(0, 256)))));
    unsigned perm = static_cast<unsigned>(*rc::gen::resize(100, rc::gen::inRange<int>(0, 5000)));
    std::vector<Op> ops;
    DecodeCtx ctx;
    for (auto& r : recs) { if (static_cast<long>(ops.size()) >= max_ops) break; ops.push_back(decode_ctx(r.data(), prof, ctx)); }
    std::string why;
    if (!run_case(ops, perm, &why)) RC_FAIL(why);
  });
  if (!ok && !g_last_fail.empty()) ST.violations.push_back({g_last_fail, "oracle disagreement (see replay header)"});
  ST.write(A.out);
  return ok ? 0 : 1;
}

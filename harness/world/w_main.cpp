// Engine W driver: rapidcheck generation, replay, bounded enumerations.
#include <rapidcheck.h>
#include <fcntl.h>
#include <iostream>
#include "wgen.hpp"
#include "winterp.hpp"

using namespace w;

static vc::Args A;
static vc::Stats ST;
static uint32_t PM = 0;  // mask of the property under check (0: any mismatch counts)
static std::string g_last_fail;

static bool nontrivial(const std::string& prop, const CaseResult& r) {
  int n = atoi(prop.c_str() + 1);
  switch (n) {
    case 1: return r.after_release_calls > 0 || r.moved_calls > 0 || r.rejected_with_live > 0;
    case 2: return r.multi_candidate > 0;
    case 3: return r.flag_flips > 0 && r.calls > 0;
    case 4: return r.eol_nontrivial > 0;
    case 5: return r.ineligible > 0 || r.skipped_pending > 0;
    case 6: return r.completed_flips >= 2 || r.seq_teardown_pending > 0;
    case 7: return r.forbidden_hits > 0 && r.accepted > 0;
    case 8: return (r.fx_events >= 2 || r.with_events >= 2) && (r.multi_candidate > 0 || r.nested > 0 || r.throwing_calls > 0);
    case 13: return r.dw_events >= 3;
    case 14: return r.call_after_destroy_dependency > 0 || r.moved_calls > 0;
    case 15: return r.multi_listed > 0 || r.culprit_not_newest > 0;
    case 16: return (r.accepted > 0 && r.handler_not_newest > 0) || r.rejected_with_live > 0 || r.swaps > 0;
    case 17: return r.trace_depth2_calls > 0 || (r.traces > 0 && r.throwing_calls > 0);
  }
  return r.calls > 0;
}

static void account(const std::vector<Op>& ops, const CaseResult& r) {
  ST.evaluations++;
  ST.label("ops", r.ops_run);
  ST.label("noop_ops", r.noops);
  ST.label("calls", r.calls);
  ST.label("calls_accepted", r.accepted);
  ST.label("calls_rejected", r.rejected);
  ST.label("calls_multi_candidate", r.multi_candidate);
  ST.label("calls_tie_on_cost", r.tie);
  ST.label("calls_newer_blocked_yields_to_older", r.blocked_yield);
  ST.label("calls_multi_sequence_handler", r.multiseq);
  ST.label("calls_handler_not_newest", r.handler_not_newest);
  ST.label("calls_skipping_pending_steps", r.skipped_pending);
  ST.label("calls_rejected_with_live_expectation", r.rejected_with_live);
  ST.label("steps_ineligible_in_sequence", r.ineligible);
  ST.label("calls_forbidden", r.forbidden_hits);
  ST.label("calls_matching_saturated", r.saturated_hits);
  ST.label("calls_after_release_or_saturation", r.after_release_calls);
  ST.label("calls_on_moved_mock", r.moved_calls);
  ST.label("calls_throwing", r.throwing_calls);
  ST.label("calls_nested", r.nested);
  ST.label("reports", r.reports);
  ST.label("reports_listing_2plus", r.multi_listed);
  ST.label("reports_culprit_not_newest", r.culprit_not_newest);
  ST.label("shortfall_reports", r.shortfalls);
  ST.label("end_of_life_nontrivial", r.eol_nontrivial);
  ST.label("ok_reports", r.oks);
  ST.label("trace_records", r.traces);
  ST.label("calls_with_2plus_tracers", r.trace_depth2_calls);
  ST.label("side_effect_return_events", r.fx_events);
  ST.label("with_evaluations", r.with_events);
  ST.label("flag_flips", r.flag_flips);
  ST.label("is_completed_flips", r.completed_flips);
  ST.label("sequence_teardown_with_pending", r.seq_teardown_pending);
  ST.label("deathwatched_events", r.dw_events);
  ST.label("reporter_swaps", r.swaps);
  ST.label("calls_after_a_dependency_was_destroyed", r.call_after_destroy_dependency);
  ST.label("tolerant_optional_reports", r.tolerant);
  if (r.degraded) ST.label("cases_degraded_to_memory_safety_only");
  for (auto& mm : r.mismatches) if (!(PM == 0 || (mm.mask & PM))) ST.label(std::string("other_property_mismatch_") + cat_name(mm.cat));
  if (nontrivial(A.prop, r)) {
    std::string txt;
    for (auto& o : ops) txt += op_pretty(o) + "; ";
    ST.nontrivial_case(vc::fnv1a(ops_text(ops)), txt);
  }
}

static std::string first_relevant(const CaseResult& r) {
  for (auto& mm : r.mismatches) if (PM == 0 || (mm.mask & PM)) return std::string("[") + cat_name(mm.cat) + "] at op " + std::to_string(mm.op_index) + ": " + mm.msg;
  return "";
}

static std::string replay_text(const std::vector<Op>& ops, unsigned perm, const std::string& why) {
  std::string s = "# engine=W prop=" + A.prop + " profile=" + A.profile + "\n# perm=" + std::to_string(perm) + "\n";
  std::istringstream w(why);
  std::string l;
  while (std::getline(w, l)) s += "# " + l + "\n";
  s += ops_text(ops);
  return s;
}

static int g_cur_fd = -1;
static void save_current(const std::vector<Op>& ops, unsigned perm) {
  // the case about to run, so that a sanitizer abort (which bypasses shrinking) leaves its input behind
  if (g_cur_fd < 0) {
    std::string path = A.faildir + "/cur_case." + std::to_string(getpid()) + ".txt";
    g_cur_fd = open(path.c_str(), O_CREAT | O_WRONLY | O_TRUNC, 0644);
    if (g_cur_fd < 0) return;
  }
  std::string t = replay_text(ops, perm, "case in progress when the process ended");
  if (pwrite(g_cur_fd, t.data(), t.size(), 0) == static_cast<ssize_t>(t.size())) { if (ftruncate(g_cur_fd, static_cast<off_t>(t.size())) != 0) {} }
}

static bool run_case(const std::vector<Op>& ops, unsigned perm, std::string* why) {
  save_current(ops, perm);
  Interp in;
  CaseResult r = in.run(ops, perm);
  account(ops, r);
  std::string f = first_relevant(r);
  if (!f.empty()) {
    if (why) *why = f;
    std::string path = A.faildir + "/w_fail." + A.prop + "." + std::to_string(getpid()) + ".txt";
    vc::write_file(path, replay_text(ops, perm, f));
    g_last_fail = path;
    return false;
  }
  return true;
}

static int do_replay(const std::string& path, bool verbose) {
  std::istringstream in(vc::read_file(path));
  std::string line;
  std::vector<Op> ops;
  unsigned perm = 0;
  while (std::getline(in, line)) {
    if (line.empty()) continue;
    if (line[0] == '#') { auto p = line.find("perm="); if (p != std::string::npos) perm = static_cast<unsigned>(atol(line.c_str() + p + 5)); continue; }
    Op o;
    if (!op_parse(line, o)) { fprintf(stderr, "bad replay line: %s\n", line.c_str()); return 2; }
    ops.push_back(o);
  }
  Interp it;
  CaseResult r = it.run(ops, perm);
  account(ops, r);
  bool bad = false;
  for (auto& mm : r.mismatches) {
    bool rel = PM == 0 || (mm.mask & PM);
    if (rel) bad = true;
    if (verbose) printf("%s mismatch [%s] at op %zu (%s): %s\n", rel ? "RELEVANT" : "other", cat_name(mm.cat), mm.op_index,
                        mm.op_index < ops.size() ? op_pretty(ops[mm.op_index]).c_str() : "teardown", mm.msg.c_str());
  }
  if (verbose) {
    for (size_t i = 0; i < ops.size(); ++i) printf("  %2zu: %s\n", i, op_pretty(ops[i]).c_str());
    printf("replay %s: %s%s\n", path.c_str(), bad ? "FAILS" : "passes", r.degraded ? " (degraded)" : "");
  }
  return bad ? 1 : 0;
}

int main(int argc, char** argv) {
  A = vc::parse_args(argc, argv);
  if (A.profile.empty()) A.profile = "all";
  PM = prop_mask(A.prop);
  ST.rule = "rapidcheck: vectors of 26-byte records decoded (indices modulo, nothing filtered) into operations of profile '" + A.profile +
            "' over 3 mocks x 7 functions, 12 expectation slots, 3 sequences, 3 deathwatched objects, tracers, reporters; plus a generated teardown order. "
            "distinct = FNV-1a of the decoded operation list; non-trivial per property as in DESIGN.md section 5";
  if (!A.replay.empty()) {
    int rc = do_replay(A.replay, A.has("verbose") || !A.has("quiet"));
    ST.write(A.out);
    return rc;
  }
  Profile prof = make_profile(A.profile);
  long max_ops = A.geti("maxops", 48);
  bool ok = rc::check("world " + A.prop + " " + A.profile, [&]() {
    auto recs = *rc::gen::container<std::vector<std::vector<uint8_t>>>(
        rc::gen::container<std::vector<uint8_t>>(REC, rc::gen::resize(100, rc::gen::cast<uint8_t>(rc::gen::inRange<int>(0, 256)))));
    unsigned perm = static_cast<unsigned>(*rc::gen::resize(100, rc::gen::inRange<int>(0, 5000)));
    std::vector<Op> ops;
    DecodeCtx ctx;
    for (auto& r : recs) { if (static_cast<long>(ops.size()) >= max_ops) break; ops.push_back(decode_ctx(r.data(), prof, ctx)); }
    std::string why;
    if (!run_case(ops, perm, &why)) RC_FAIL(why);
  });
  if (!ok && !g_last_fail.empty()) ST.violations.push_back({g_last_fail, "oracle disagreement (see replay header)"});
  ST.write(A.out);
  return ok ? 0 : 1;
}

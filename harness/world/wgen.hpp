// Decoding of generated records (bytes) into operations, per profile. Shared by the rapidcheck
// driver and the libFuzzer target: every record decodes to a valid operation (indices modulo),
// nothing is filtered.
#pragma once
#include <cstdint>
#include <string>
#include <vector>
#include "wlit.hpp"
#include "wmodel.hpp"

namespace w {

constexpr size_t REC = 26;  // bytes per record

struct Profile {
  std::string name;
  int weight[NOPKIND] = {};
  int p_seq = 0;        // percent of creates that name sequences
  int p_seq2 = 30;      // of those, percent naming two
  int p_forbid = 8;     // percent of creates with hi == 0
  int p_inf = 20;       // percent with hi == inf
  int p_with = 25;      // percent chance per WITH clause of being active
  int p_fx = 25;        // percent chance per SIDE_EFFECT of being active
  int p_throw_term = 15;
  int p_lit = 0;        // percent of creates using literal sites
  int p_bad_times = 1;  // percent of creates with lo > hi
  bool concentrate = false;  // most expectations/calls on one object and a few functions
  int p_watch_seq = 0;
};

inline Profile make_profile(const std::string& n) {
  Profile p; p.name = n;
  auto W = [&](int k, int w) { p.weight[k] = w; };
  if (n == "plain") {
    W(O_CREATE, 24); W(O_RELEASE, 10); W(O_CALL, 52); W(O_MOVE_MOCK, 3); W(O_DESTROY_MOCK, 2); W(O_RECREATE_MOCK, 3);
    W(O_SWAP_REPORTER, 2); W(O_DESTROY_HUSKS, 1); W(O_SCOPED, 5); p.p_lit = 20; p.concentrate = true;
  } else if (n == "forbid") {
    W(O_CREATE, 26); W(O_RELEASE, 12); W(O_CALL, 56); W(O_MOVE_MOCK, 2); W(O_DESTROY_MOCK, 1); W(O_RECREATE_MOCK, 2); W(O_DESTROY_HUSKS, 1); W(O_SCOPED, 5);
    p.p_lit = 30; p.concentrate = true; p.p_forbid = 35; p.p_inf = 40; p.p_fx = 35; p.p_seq = 25;
  } else if (n == "overlap") {
    W(O_CREATE, 28); W(O_RELEASE, 8); W(O_CALL, 58); W(O_MOVE_MOCK, 1); W(O_SWAP_REPORTER, 1);
    p.p_seq = 45; p.p_seq2 = 40; p.concentrate = true; p.p_forbid = 6; p.p_inf = 45; p.p_lit = 8;
  } else if (n == "seq") {
    W(O_CREATE, 26); W(O_RELEASE, 8); W(O_CALL, 46); W(O_DESTROY_SEQ, 2); W(O_MOVE_SEQ, 3); W(O_RECREATE_SEQ, 2);
    W(O_WATCH, 5); W(O_DESTROY_DW, 4); W(O_UNWATCH, 2); W(O_RECREATE_DW, 2); W(O_DESTROY_MOCK, 1); W(O_RECREATE_MOCK, 1); W(O_SCOPED_DW, 2);
    p.p_seq = 85; p.p_seq2 = 35; p.concentrate = true; p.p_forbid = 2; p.p_inf = 30; p.p_watch_seq = 85; p.p_with = 10; p.p_fx = 10;
  } else if (n == "clauses") {
    W(O_CREATE, 26); W(O_RELEASE, 8); W(O_CALL, 62); W(O_PUSH_TRACER, 2); W(O_POP_TRACER, 1); W(O_DROP_TRACER, 1);
    p.p_with = 60; p.p_fx = 65; p.p_throw_term = 30; p.concentrate = true; p.p_inf = 40; p.p_seq = 10;
  } else if (n == "death") {
    // up to three requirements per object alive at once
    W(O_SCOPED_DW, 6); W(O_WATCH, 22); W(O_UNWATCH, 12); W(O_DESTROY_DW, 16); W(O_COPY_DW, 6); W(O_MOVE_DW, 6); W(O_ASSIGN_DW, 9); W(O_RECREATE_DW, 12);
    W(O_CREATE, 6); W(O_CALL, 8); W(O_RELEASE, 2); W(O_DESTROY_SEQ, 1); W(O_RECREATE_SEQ, 1);
    p.p_seq = 60; p.p_watch_seq = 35; p.concentrate = true;
  } else if (n == "teardown") {
    W(O_CREATE, 20); W(O_RELEASE, 9); W(O_CALL, 24); W(O_MOVE_MOCK, 6); W(O_DESTROY_MOCK, 6); W(O_RECREATE_MOCK, 5);
    W(O_DESTROY_SEQ, 5); W(O_MOVE_SEQ, 3); W(O_RECREATE_SEQ, 4); W(O_WATCH, 5); W(O_UNWATCH, 3); W(O_DESTROY_DW, 4); W(O_COPY_DW, 1);
    W(O_MOVE_DW, 1); W(O_ASSIGN_DW, 1); W(O_RECREATE_DW, 3); W(O_PUSH_TRACER, 2); W(O_POP_TRACER, 1); W(O_DROP_TRACER, 1); W(O_DESTROY_HUSKS, 1); W(O_SCOPED_DW, 2);
    p.p_seq = 55; p.p_watch_seq = 50; p.p_inf = 30; p.p_lit = 10;
  } else if (n == "trace") {
    W(O_PUSH_TRACER, 9); W(O_POP_TRACER, 4); W(O_DROP_TRACER, 3); W(O_CREATE, 22); W(O_CALL, 54); W(O_RELEASE, 6); W(O_SWAP_REPORTER, 1);
    p.p_fx = 45; p.p_throw_term = 35; p.p_inf = 50; p.concentrate = true; p.p_seq = 10;
  } else {  // all
    p.name = "all";
    W(O_CREATE, 22); W(O_RELEASE, 8); W(O_CALL, 40); W(O_MOVE_MOCK, 2); W(O_DESTROY_MOCK, 2); W(O_RECREATE_MOCK, 2);
    W(O_DESTROY_SEQ, 2); W(O_MOVE_SEQ, 1); W(O_RECREATE_SEQ, 2); W(O_WATCH, 4); W(O_UNWATCH, 2); W(O_DESTROY_DW, 3); W(O_COPY_DW, 1);
    W(O_MOVE_DW, 1); W(O_ASSIGN_DW, 1); W(O_RECREATE_DW, 2); W(O_PUSH_TRACER, 2); W(O_POP_TRACER, 1); W(O_DROP_TRACER, 1); W(O_SWAP_REPORTER, 1); W(O_DESTROY_HUSKS, 1); W(O_SCOPED, 3);
    p.p_seq = 40; p.p_watch_seq = 40; p.p_lit = 12; p.p_with = 30; p.p_fx = 30;
  }
  return p;
}

// number of literal forms (defined in lit.cpp); kept here so the decoder needs no trompeloeil
constexpr int NLITFORM = 16;

inline void lit_fill(Op& o) {
  const LitForm& f = lit_forms()[o.a[CA_LIT]];
  o.a[CA_FUNC] = f.func; o.a[CA_TERM] = 0; o.a[CA_NSEQ] = 0; o.a[CA_LO] = static_cast<int>(f.lo); o.a[CA_HI] = f.hi == INF ? -1 : static_cast<int>(f.hi);
  o.a[CA_M0K] = f.m0.kind; o.a[CA_M0V] = f.m0.val; o.a[CA_M1K] = f.m1.kind; o.a[CA_M1V] = f.m1.val;
  o.a[CA_W0] = f.with0; o.a[CA_W1] = W_OFF; o.a[CA_X0] = f.fx0; o.a[CA_X1] = X_OFF;
}

inline Op decode(const uint8_t* b, const Profile& p) {
  Op o;
  int total = 0;
  for (int k = 0; k < NOPKIND; ++k) total += p.weight[k];
  int r = (b[0] * 256 + b[1]) % total;
  int kind = 0;
  for (; kind < NOPKIND; ++kind) { if (r < p.weight[kind]) break; r -= p.weight[kind]; }
  o.kind = kind;
  auto pct = [&](int i, int percent) { return (b[i] % 100) < percent; };
  auto argval = [&](int i) { return b[i] % 16 == 15 ? 77 : b[i] % 6; };
  switch (kind) {
    case O_CREATE: {
      o.a.assign(CA_N, 0);
      bool lit = pct(24, p.p_lit);
      o.a[CA_LIT] = -1;
      if (lit) {
        o.a[CA_SLOT] = NSLOT + b[2] % NLIT;
        o.a[CA_LIT] = b[3] % (NLITFORM + NLITNAMEDV);
        if (o.a[CA_LIT] >= NLITFORM) o.a[CA_LIT] += NLITALL - NLITFORM;   // 30..38: NAMED_ variadic spellings, run-time bound spellings
        o.a[CA_OBJ] = p.concentrate ? (b[4] % 8 < 6 ? 0 : 1) : b[4] % NOBJ;
        lit_fill(o);  // the rest of the spec is implied by the literal form
        break;
      }
      o.a[CA_SLOT] = b[2] % NSLOT;
      o.a[CA_OBJ] = p.concentrate ? (b[4] % 8 < 6 ? 0 : 1 + b[4] % 2) : b[4] % NOBJ;
      static const int conc_funcs[] = {F_f, F_f, F_f, F_w, F_g, F_ovi, F_ovs, F_h, F_v, F_cf, F_f, F_g};
      o.a[CA_FUNC] = p.concentrate ? conc_funcs[b[5] % 12] : b[5] % NFUNC;
      o.a[CA_TERM] = pct(6, p.p_throw_term) ? 1 : 0;
      int nseq = pct(7, p.p_seq) ? (pct(8, p.p_seq2) ? (b[8] >= 200 ? 3 : 2) : 1) : 0;   // 3: a member of every sequence
      o.a[CA_NSEQ] = nseq;
      o.a[CA_SEQ0] = b[9] % NSEQ;
      o.a[CA_SEQ1] = (o.a[CA_SEQ0] + 1 + b[10] % (NSEQ - 1)) % NSEQ;
      // bounds
      int lo = b[11] % 4, span = b[12] % 4;
      int hi = lo + span;
      if (pct(13, p.p_inf)) hi = -1;
      else if (pct(14, p.p_forbid)) { lo = 0; hi = 0; }   // RT_TIMES(0,0): forbidding, also when sequenced
      else if (hi == 0) hi = 1;
      if ((b[14] % 100) < p.p_bad_times && b[13] % 2) { lo = 2 + b[11] % 3; hi = lo - 1; }  // RT_TIMES(lo > hi)
      // rarely: bounds that do not fit into 32 bits (2^32, 2^32 + 1), as upper bound alone or as both bounds
      if (b[12] % 32 == 5 && hi != 0 && !(hi > 0 && lo > hi)) { hi = -2 - (b[11] % 2); if (b[11] % 8 == 0) lo = -2; }
      o.a[CA_LO] = lo; o.a[CA_HI] = hi;
      // matchers: overlapping on purpose
      static const int mkinds[] = {M_WILD, M_WILD, M_ANY, M_VALUE, M_VALUE, M_EQ, M_NE, M_LT, M_LE, M_GT, M_GE, M_VALUE};
      o.a[CA_M0K] = mkinds[b[15] % 12]; o.a[CA_M0V] = b[16] % 6;
      o.a[CA_M1K] = mkinds[b[17] % 12]; o.a[CA_M1V] = b[18] % 6;
      if (o.a[CA_FUNC] == F_ovs && o.a[CA_M0K] == M_WILD) o.a[CA_M0K] = M_ANY;  // harmless: typed wrapper either way
      o.a[CA_W0] = pct(19, p.p_with) ? 1 + b[19] % (NWKIND - 1) : W_OFF;
      o.a[CA_W1] = pct(20, p.p_with) ? 1 + b[20] % (NWKIND - 1) : W_OFF;
      // a tracer constructed inside a side effect only where the profile works with tracers at all
      auto fxk = [&](int i) { int v = b[i] % 10; return v < 6 ? X_LOG : v < 8 ? X_NEST : (v == 9 && p.weight[O_PUSH_TRACER] > 0) ? X_TRACER : X_THROW; };
      o.a[CA_X0] = pct(21, p.p_fx) ? fxk(22) : X_OFF;
      o.a[CA_X1] = pct(23, p.p_fx) ? fxk(25) : X_OFF;
      o.a[CA_X0O] = b[3] % NOBJ; o.a[CA_X0F] = p.concentrate ? conc_funcs[b[22] % 12] : b[22] % NFUNC; o.a[CA_X0A] = b[24] % 6;
      o.a[CA_X1O] = b[13] % NOBJ; o.a[CA_X1F] = p.concentrate ? conc_funcs[b[25] % 12] : b[25] % NFUNC; o.a[CA_X1A] = b[12] % 6;
      if (p.concentrate) { o.a[CA_X0O] = b[3] % 4 ? 0 : 1; o.a[CA_X1O] = b[13] % 4 ? 0 : 1; }
      break;
    }
    case O_RELEASE: o.a = {static_cast<int>(b[2] % (NSLOT + NLIT))}; break;
    case O_CALL: {
      static const int conc_funcs[] = {F_f, F_f, F_f, F_w, F_g, F_ovi, F_ovs, F_h, F_v, F_cf, F_f, F_g};
      int ob = p.concentrate ? (b[2] % 8 < 6 ? 0 : 1 + b[2] % 2) : b[2] % NOBJ;
      int fn = p.concentrate ? conc_funcs[b[3] % 12] : b[3] % NFUNC;
      o.a = {ob, fn, argval(4), argval(5)};
      break;
    }
    case O_MOVE_MOCK: o.a = {static_cast<int>(b[2] % NOBJ), b[3] % 2}; break;
    case O_DESTROY_MOCK: case O_RECREATE_MOCK: o.a = {static_cast<int>(b[2] % NOBJ)}; break;
    case O_DESTROY_SEQ: case O_RECREATE_SEQ: o.a = {static_cast<int>(b[2] % NSEQ)}; break;
    case O_MOVE_SEQ: o.a = {static_cast<int>(b[2] % NSEQ), b[3] % 3}; break;   // second: construction / assignment to fresh / assignment to moved-from
    case O_WATCH: {
      int nseq = pct(4, p.p_watch_seq) ? (b[5] % 4 == 0 ? 2 : 1) : 0;
      int s0 = b[6] % NSEQ;
      o.a = {static_cast<int>(b[2] % NDW), static_cast<int>(b[3] % NMON), nseq, s0, (s0 + 1 + b[7] % (NSEQ - 1)) % NSEQ};
      break;
    }
    case O_UNWATCH: o.a = {static_cast<int>(b[2] % NDW), static_cast<int>(b[3] % NMON)}; break;
    case O_DESTROY_DW: case O_RECREATE_DW: o.a = {static_cast<int>(b[2] % NDW)}; break;
    case O_COPY_DW: case O_MOVE_DW: o.a = {static_cast<int>(b[2] % NDW), static_cast<int>(b[3] % NDW), b[4] % 2}; break;
    case O_ASSIGN_DW: o.a = {static_cast<int>(b[2] % NDW), static_cast<int>(b[3] % NDW), b[4] % 2}; break;
    case O_SWAP_REPORTER: o.a = {b[2] % 2}; break;
    case O_PUSH_TRACER: o.a = {b[2] % 3 == 0 ? 1 : 0}; break;
    case O_DROP_TRACER: o.a = {b[2] % MAXTR}; break;
    case O_SCOPED_DW: o.a = {static_cast<int>(b[2] % NDW), (b[3] % 100) < p.p_watch_seq ? 1 : 0, static_cast<int>(b[4] % NSEQ), b[5] % 3 != 0 ? 1 : 0}; break;
    case O_SCOPED: {
      int ob = p.concentrate ? (b[2] % 8 < 6 ? 0 : 1) : b[2] % NOBJ;
      constexpr int NSF = NLITALL - NLITNAMED;
      int fa = b[3] % NSF, fb = b[4] % 3 == 0 ? -1 : b[5] % NSF;
      if (fb == fa) fb = (fa + 1 + b[6] % (NSF - 1)) % NSF;
      int n = 1 + b[7] % 4;
      o.a = {ob, fa, fb, n};
      for (int i = 0; i < n; ++i) { o.a.push_back(b[8 + 2 * i] % 8 == 0 ? 1 : 0); o.a.push_back(b[9 + 2 * i] % 16 == 15 ? 77 : b[9 + 2 * i] % 6); }
      break;
    }
    default: break;
  }
  if (kind != O_CREATE && kind != O_SCOPED && kind != O_SCOPED_DW) {   // those use every byte of the record
    int c = b[20] % 16;
    o.ctx = c == 0 ? 1 : c == 1 ? 2 : 0;
  }
  return o;
}

// Stateful part of decoding: most calls are aimed at (object, function, argument) of an expectation
// created earlier in the same case, so that accepted calls and overlapping candidates are common.
// Still a pure function of the record list.
struct DecodeCtx {
  struct Made { int obj, func, v0, v1; };
  std::vector<Made> made;
  int p_aim = 75;
};

inline Op decode_ctx(const uint8_t* b, const Profile& p, DecodeCtx& c) {
  Op o = decode(b, p);
  if (o.kind == O_CREATE) {
    // aim creates at an already used (object, function) half of the time when concentrating: overlap
    if (p.concentrate && !c.made.empty() && b[1] % 2 == 0 && o.a[CA_LIT] < 0) {
      const auto& t = c.made[b[0] % c.made.size()];
      o.a[CA_OBJ] = t.obj;
      o.a[CA_FUNC] = t.func;
    }
    c.made.push_back({o.a[CA_OBJ], o.a[CA_FUNC], o.a[CA_M0V], o.a[CA_M1V]});
    if (c.made.size() > 6) c.made.erase(c.made.begin());
  } else if (o.kind == O_CALL && !c.made.empty() && (b[6] % 100) < c.p_aim) {
    const auto& t = c.made[c.made.size() - 1 - (b[7] % c.made.size())];
    o.a[0] = t.obj;
    o.a[1] = t.func;
    if (b[8] % 3) { o.a[2] = (t.v0 + (b[9] % 3) - 1 + 6) % 6; o.a[3] = (t.v1 + (b[10] % 3) - 1 + 6) % 6; }
  }
  return o;
}

inline std::vector<Op> decode_all(const uint8_t* data, size_t size, const Profile& p, size_t max_ops = 64) {
  std::vector<Op> ops;
  DecodeCtx c;
  for (size_t off = 0; off + REC <= size && ops.size() < max_ops; off += REC) ops.push_back(decode_ctx(data + off, p, c));
  return ops;
}

inline std::string ops_text(const std::vector<Op>& ops) {
  std::string s;
  for (auto& o : ops) s += op_text(o) + "\n";
  return s;
}

}  // namespace w

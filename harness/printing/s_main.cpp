// Engine S driver (property C18): value printing.
//
// A closed family of value types x a prior stream state.  For every case the value is built
// deterministically from a "tape" of integers (so a replay file is: type, tape, state, mode),
// an independent renderer (namespace ora: no trompeloeil call, no iostream formatting)
// produces the text the property statement demands, and trompeloeil::print is run on a
// std::ostringstream that carries the prior state.  A sample of types is also driven
// end-to-end through a no-match report, an "Expected _1 ==" line, and tracer records.
#include <rapidcheck.h>
#include <ostream>
// A type of some other namespace whose operator<< the user wrote in the GLOBAL namespace, before the framework is included
// (a third-party type the user cannot put an operator next to). It is found by ordinary unqualified lookup only, which
// stops at the first enclosing namespace that declares any operator<<.
namespace extlib { struct Rgb { unsigned char r, g, b; }; inline bool operator==(const Rgb& a, const Rgb& b) { return a.r == b.r && a.g == b.g && a.b == b.b; } inline bool operator<(const Rgb& a, const Rgb& b) { return a.r < b.r; } }
std::ostream& operator<<(std::ostream& os, const extlib::Rgb& c);
#include <trompeloeil.hpp>
#include <fcntl.h>
#include <cfloat>
#include <cmath>
#include <functional>
#include <iostream>
#include <list>
#include <map>
#include <memory>
#include <new>
#include <optional>
#include <set>
#include <sstream>
#include <string>
#include <string_view>
#include <tuple>
#include <utility>
#include <vector>
#include "common/vcommon.hpp"

// =====================================================================================
// Value types of the family that are not standard types
// =====================================================================================
template <size_t N> struct Opaque { unsigned char b[N]; };          // no <<, no begin/end, no == nullptr
struct Padded { char c; double d; };                               // opaque with padding bytes
struct UserP { int x; };                                           // trompeloeil::printer<UserP>
struct UserS { int x; static constexpr bool verif_printable = true; };  // printer<T, SFINAE>
struct Ostr { int x; bool flag; };                                 // operator<<, formatted insertions inside
struct Ows { int x; };                                             // operator<< that uses setw(5) itself
struct Both { int x; };                                            // operator<< AND printer<Both>: printer wins
enum Color { red = 0, green = 5, blue = -3 };                      // unscoped: streams as int
enum class Ec : unsigned short { a = 0, b = 0x0102 };              // scoped: no <<, 2-byte dump
// Types that can be null AND have a user-provided rendering.  The null test comes first: a null
// of any of them prints nullptr, and the user's printer<> / operator<< is never handed a null.
struct Widget { int id; };                                         // trompeloeil::printer<Widget*> (full specialisation)
struct Gadget { int id; };                                         // printer<T*, SFINAE>: every pointer to (const) Gadget
struct Knob { int id; };                                           // operator<<(ostream&, const Knob*)
struct Handle { const int* p; };                                   // class with == nullptr, printer<Handle>
struct OHandle { const int* p; };                                  // class with == nullptr, operator<<

inline bool operator==(const UserP& a, const UserP& b) { return a.x == b.x; }
inline bool operator==(const Ostr& a, const Ostr& b) { return a.x == b.x && a.flag == b.flag; }
inline bool operator==(const Ows& a, const Ows& b) { return a.x == b.x; }
inline bool operator==(const Handle& h, std::nullptr_t) { return h.p == nullptr; }
inline bool operator==(const Handle& a, const Handle& b) { return a.p == b.p; }
inline bool operator==(const OHandle& h, std::nullptr_t) { return h.p == nullptr; }
inline bool operator==(const OHandle& a, const OHandle& b) { return a.p == b.p; }

static unsigned g_user_printer_calls = 0;
static unsigned g_user_stream_calls = 0;
static unsigned g_user_null_calls = 0;  // a user printer<> / operator<< was handed a null (it then does not dereference it)

inline std::ostream& operator<<(std::ostream& os, const Ostr& v) {
  ++g_user_stream_calls;
  return os << "S(" << v.x << ',' << v.flag << ')';
}
// A pair type and a tuple type that have an operator<< of their own (found through the element type Uid, which has none):
// "uses operator<< ... when one exists" also holds for them; element-wise printing is for pairs and tuples without one.
struct Uid { int v; };
inline bool operator==(const Uid& a, const Uid& b) { return a.v == b.v; }
inline bool operator<(const Uid& a, const Uid& b) { return a.v < b.v; }
inline std::ostream& operator<<(std::ostream& os, const std::pair<Uid, int>& p) {
  ++g_user_stream_calls;
  return os << "id#" << p.first.v << '*' << p.second;
}
inline std::ostream& operator<<(std::ostream& os, const std::tuple<Uid, int, Uid>& t) {
  ++g_user_stream_calls;
  return os << "ids<" << std::get<0>(t).v << '|' << std::get<1>(t) << '|' << std::get<2>(t).v << '>';
}
inline std::ostream& operator<<(std::ostream& os, const Ows& v) {
  ++g_user_stream_calls;
  return os << '[' << std::setw(5) << v.x << ']';
}
inline std::ostream& operator<<(std::ostream& os, const Both& v) { return os << "WRONG-operator<<(" << v.x << ")"; }
inline std::ostream& operator<<(std::ostream& os, const Knob* k) {
  ++g_user_stream_calls;
  if (!k) { ++g_user_null_calls; return os << "K(NULL!)"; }
  return os << "K(" << k->id << ')';
}
inline std::ostream& operator<<(std::ostream& os, const OHandle& h) {
  ++g_user_stream_calls;
  if (!h.p) { ++g_user_null_calls; return os << "OH(NULL!)"; }
  return os << "OH(" << *h.p << ')';
}

namespace trompeloeil {
// The user printers write unformatted, so their text does not depend on the state of the stream
// they are handed (the property does not say which state a user printer sees).
template <> struct printer<UserP> {
  static void print(std::ostream& os, const UserP& v) {
    ++g_user_printer_calls;
    std::string s = "UP<" + std::to_string(v.x) + ">";
    os.write(s.data(), static_cast<std::streamsize>(s.size()));
  }
};
template <> struct printer<Both> {
  static void print(std::ostream& os, const Both& v) {
    ++g_user_printer_calls;
    std::string s = "BP<" + std::to_string(v.x) + ">";
    os.write(s.data(), static_cast<std::streamsize>(s.size()));
  }
};
template <> struct printer<Widget*> {
  static void print(std::ostream& os, Widget* const& w) {
    ++g_user_printer_calls;
    std::string s = "W(NULL!)";
    if (w) s = "W(" + std::to_string(w->id) + ")"; else ++g_user_null_calls;
    os.write(s.data(), static_cast<std::streamsize>(s.size()));
  }
};
template <typename T> struct printer<T*, typename std::enable_if<std::is_same<typename std::remove_cv<T>::type, Gadget>::value>::type> {
  static void print(std::ostream& os, T* const& g) {
    ++g_user_printer_calls;
    std::string s = "G(NULL!)";
    if (g) s = "G(" + std::to_string(g->id) + ")"; else ++g_user_null_calls;
    os.write(s.data(), static_cast<std::streamsize>(s.size()));
  }
};
template <> struct printer<Handle> {
  static void print(std::ostream& os, const Handle& h) {
    ++g_user_printer_calls;
    std::string s = "H(NULL!)";
    if (h.p) s = "H(" + std::to_string(*h.p) + ")"; else ++g_user_null_calls;
    os.write(s.data(), static_cast<std::streamsize>(s.size()));
  }
};
template <typename T> struct printer<T, typename std::enable_if<T::verif_printable>::type> {
  static void print(std::ostream& os, const T& v) {
    ++g_user_printer_calls;
    std::string s = "US<" + std::to_string(v.x) + ">";
    os.write(s.data(), static_cast<std::streamsize>(s.size()));
  }
};
}  // namespace trompeloeil

static unsigned g_global_stream_calls = 0;
std::ostream& operator<<(std::ostream& os, const extlib::Rgb& c) {
  ++g_global_stream_calls;
  return os << "rgb(" << int(c.r) << ',' << int(c.g) << ',' << int(c.b) << ')';
}
namespace s {

// =====================================================================================
// Prior stream state
// =====================================================================================
struct SState {
  int base = 0;    // 0 dec, 1 hex, 2 oct
  int fill = 0;    // 0 ' ', 1 '*', 2 '0'
  long width = 0;  // 0, 1, 8, 20 when generated
  int adj = 0;     // 0 none (fresh stream), 1 left, 2 right, 3 internal
  bool showbase = false, uppercase = false, boolalpha = false;
};
static const char* const BASES[] = {"dec", "hex", "oct"};
static const char* const FILLS[] = {"space", "star", "zero"};
static const char FILLCH[] = {' ', '*', '0'};
static const long WIDTHS[] = {0, 1, 8, 20};
static const char* const ADJS[] = {"none", "left", "right", "internal"};

static void apply_state(std::ostream& os, const SState& s) {
  using B = std::ios_base;
  B::fmtflags f = os.flags();
  f &= ~(B::basefield | B::adjustfield | B::showbase | B::uppercase | B::boolalpha);
  f |= s.base == 0 ? B::dec : s.base == 1 ? B::hex : B::oct;
  if (s.adj == 1) f |= B::left; else if (s.adj == 2) f |= B::right; else if (s.adj == 3) f |= B::internal;
  if (s.showbase) f |= B::showbase;
  if (s.uppercase) f |= B::uppercase;
  if (s.boolalpha) f |= B::boolalpha;
  os.flags(f);
  os.fill(FILLCH[s.fill]);
  os.width(s.width);
}
static int nondefault_dims(const SState& s) {
  return (s.base != 0) + (s.fill != 0) + (s.width != 0) + (s.adj == 1 || s.adj == 3) + s.showbase + s.uppercase + s.boolalpha;
}
static std::string state_text(const SState& s) {
  return std::string("base=") + BASES[s.base] + " fill=" + FILLS[s.fill] + " width=" + std::to_string(s.width) + " adjust=" + ADJS[s.adj] +
         " showbase=" + (s.showbase ? "1" : "0") + " uppercase=" + (s.uppercase ? "1" : "0") + " boolalpha=" + (s.boolalpha ? "1" : "0");
}
static bool parse_state(const std::string& line, SState& s) {
  std::istringstream in(line);
  std::string kv;
  auto idx = [](const char* const* names, int n, const std::string& v) { for (int i = 0; i < n; ++i) if (v == names[i]) return i; return -1; };
  while (in >> kv) {
    auto eq = kv.find('=');
    if (eq == std::string::npos) return false;
    std::string k = kv.substr(0, eq), v = kv.substr(eq + 1);
    if (k == "base") { s.base = idx(BASES, 3, v); if (s.base < 0) return false; }
    else if (k == "fill") { s.fill = idx(FILLS, 3, v); if (s.fill < 0) return false; }
    else if (k == "width") { s.width = atol(v.c_str()); if (s.width < 0 || s.width > 4096) return false; }
    else if (k == "adjust") { s.adj = idx(ADJS, 4, v); if (s.adj < 0) return false; }
    else if (k == "showbase") s.showbase = v == "1";
    else if (k == "uppercase") s.uppercase = v == "1";
    else if (k == "boolalpha") s.boolalpha = v == "1";
    else return false;
  }
  return true;
}

// Independent padding rule for a character sequence inserted with width W:
// adjustfield == left pads after, everything else pads before.
static std::string pad_text(const std::string& tok, const SState& s, long W) {
  if (W <= static_cast<long>(tok.size())) return tok;
  std::string p(static_cast<size_t>(W) - tok.size(), FILLCH[s.fill]);
  return s.adj == 1 ? tok + p : p + tok;
}
// What `os << 255; os << true;` must give on a stream in state s whose width() is W.
static std::string probe_text(const SState& s, long W) {
  std::string digits = s.base == 0 ? "255" : s.base == 1 ? (s.uppercase ? "FF" : "ff") : "377";
  std::string prefix = !s.showbase ? "" : s.base == 1 ? (s.uppercase ? "0X" : "0x") : s.base == 2 ? "0" : "";
  std::string first;
  long len = static_cast<long>(prefix.size() + digits.size());
  std::string p(W > len ? static_cast<size_t>(W - len) : 0, FILLCH[s.fill]);
  if (s.adj == 1) first = prefix + digits + p;
  else if (s.adj == 3 && s.base == 1 && s.showbase) first = prefix + p + digits;
  else first = p + prefix + digits;
  std::string second = s.boolalpha ? "true" : prefix + "1";
  return first + second;
}

// =====================================================================================
// Tape: the only source of values
// =====================================================================================
struct Tape {
  const std::vector<uint64_t>* v;
  size_t i = 0;
  uint64_t next() { return i < v->size() ? (*v)[i++] : 0; }
};

template <class I> static I gen_int(Tape& t) {
  uint64_t v = t.next();
  using L = std::numeric_limits<I>;
  switch (v & 3) {
    case 0: {
      static const long long small[] = {0, 1, -1, 2, 7, 8, 9, 10, 15, 16, 17, 42, 100, 255, 256, -128, 127, 1000, -1000, 65535};
      return static_cast<I>(small[(v >> 2) % 20]);
    }
    case 1: {
      unsigned k = (v >> 2) % 4;
      return k == 0 ? L::max() : k == 1 ? L::min() : k == 2 ? static_cast<I>(L::max() - 1) : static_cast<I>(L::min() + 1);
    }
    default: return static_cast<I>(v >> 2);
  }
}
static double gen_double(Tape& t) {
  uint64_t v = t.next();
  static const double tab[] = {0.0, -0.0, 1.0, -1.5, 0.1, 1e10, 1e-7, 123456789.125, 1234567.0, 999999.5, 100000.0, 0.0001, 0.00001,
                               HUGE_VAL, -HUGE_VAL, DBL_MAX, DBL_MIN, 4.9406564584124654e-324, 3.141592653589793, -2.5e-300};
  switch (v & 3) {
    case 0: return tab[(v >> 2) % 20];
    case 1: return std::nan("");
    case 2: return static_cast<double>(static_cast<int64_t>(v >> 2)) / 16.0;
    default: { uint64_t bits = (v >> 2) * 0x9E3779B97F4A7C15ULL; double d; memcpy(&d, &bits, sizeof d); return d; }
  }
}
static std::string gen_string(Tape& t) {
  uint64_t v = t.next();
  size_t n = v % 7;
  uint64_t bits = v / 7;
  if (n == 6) n = 6 + static_cast<size_t>(t.next() % 40);
  static const char pal[] = "ab {},0x1Z\n*-%\"\\";
  std::string s;
  for (size_t i = 0; i < n; ++i) {
    if (i && i % 4 == 0) bits = t.next();
    unsigned b = bits & 0xff;
    bits >>= 8;
    s += (b & 0x80) ? static_cast<char>(b) : pal[b % (sizeof pal - 1)];
  }
  return s;
}
static const char* const CSTR_POOL[] = {"", "a", "hello world", "{ 1, 2 }", "nullptr", "0x1f", "line1\nline2", "  padded  ", "%s%n", "\x01\xff"};
static const char* gen_cstr(Tape& t) {
  uint64_t v = t.next();
  if (v % 3 == 0) return nullptr;
  return CSTR_POOL[(v / 3) % 10];
}
static int g_ints[4] = {7, -1, 0, 123456};
static int* gen_intp(Tape& t) {
  uint64_t v = t.next();
  if (v % 3 == 0) return nullptr;
  return &g_ints[(v / 3) % 4];
}
static size_t gen_len(Tape& t) { return static_cast<size_t>(t.next() % 4); }
static Widget g_widgets[4] = {{1}, {-7}, {0}, {424242}};
static Gadget g_gadgets[4] = {{2}, {-8}, {0}, {313131}};
static Knob g_knobs[4] = {{3}, {-9}, {0}, {202020}};
template <class P> static P* gen_poolp(P (&pool)[4], Tape& t) {  // null for a third of the draws, and for an exhausted tape
  uint64_t v = t.next();
  if (v % 3 == 0) return nullptr;
  return &pool[(v / 3) % 4];
}

// =====================================================================================
// The oracle's output
// =====================================================================================
struct Out {
  std::string text[2];  // [0]: a setw() inside a user operator<< pads left, [1]: pads right
  std::string canon;    // the same with addresses and pointer bytes abstracted (hash / samples)
  int depth = 0, maxdepth = 0;
  int leaves = 0, nulls = 0, nulls_deep = 0, nulls_deep2 = 0, hexdumps = 0, hexdumps_deep = 0, hex_nontrivial = 0, user_printed = 0;
  int user_streamed = 0;  // expected runs of the harness' own operator<< overloads
  // nullable values with a user rendering: [0] printer<> / [1] operator<<  x  [0] top level / [1] inside a composite
  int nu_null[2][2] = {{0, 0}, {0, 0}}, nu_val[2][2] = {{0, 0}, {0, 0}};
  unsigned nu_shapes = 0;  // bit per shape that occurred as a null (NU_* below)
  bool has_ows = false;
  std::vector<size_t> hex_sizes;
  void lit(const std::string& s) { text[0] += s; text[1] += s; canon += s; }
  void lit2(const std::string& l, const std::string& r) { text[0] += l; text[1] += r; canon += r; has_ows = true; }
  void opaque_lit(const std::string& s, const std::string& c) { text[0] += s; text[1] += s; canon += c; }
  void leaf() { ++leaves; }
  void null() { ++nulls; if (depth >= 1) ++nulls_deep; if (depth >= 2) ++nulls_deep2; lit("nullptr"); }
  // a null of a type with a user rendering: plain nullptr, the user's code does not run
  void null_user(int how, unsigned shape) { ++nu_null[how][depth >= 1]; nu_shapes |= 1u << shape; null(); }
  // a non-null one: the user's text
  void val_user(int how, const std::string& s) { ++nu_val[how][depth >= 1]; leaf(); if (how == 0) ++user_printed; else ++user_streamed; lit(s); }
  int nu_nulls() const { return nu_null[0][0] + nu_null[0][1] + nu_null[1][0] + nu_null[1][1]; }
  void open() { lit("{ "); ++depth; if (depth > maxdepth) maxdepth = depth; }
  void close() { lit(" }"); --depth; }
  void hex(const void* p, size_t n, const char* canon_as = nullptr) {
    ++hexdumps; ++leaves;
    if (depth >= 1) ++hexdumps_deep;
    if (n > 8 && n % 16 != 0) ++hex_nontrivial;
    hex_sizes.push_back(n);
    auto b = static_cast<const unsigned char*>(p);
    std::string s = std::to_string(n) + "-byte object={";
    if (n > 8) s += '\n';
    static const char* d = "0123456789abcdef";
    for (size_t i = 0; i < n; ++i) {
      s += " 0x"; s += d[b[i] >> 4]; s += d[b[i] & 15];
      if (i % 16 == 15) s += '\n';
    }
    s += " }";
    if (canon_as) opaque_lit(s, canon_as); else lit(s);
  }
  void addr(const void* p) {
    ++leaves;
    auto u = reinterpret_cast<uintptr_t>(p);
    static const char* d = "0123456789abcdef";
    std::string s;
    do { s.insert(s.begin(), d[u & 15]); u >>= 4; } while (u);
    opaque_lit("0x" + s, "<address>");
  }
};

enum Kind { K_STREAM, K_HEX, K_COMP, K_USER };
enum NuShape { NU_FULL_SPEC_PTR, NU_PARTIAL_SPEC_PTR, NU_CLASS_PRINTER, NU_CLASS_OSTREAM, NU_PTR_OSTREAM, NU_SHAPES };
static const char* const NU_SHAPE_NAMES[] = {"printer_full_specialisation_for_pointer", "printer_partial_specialisation_for_pointers", "printer_for_null_comparable_class",
                                             "operator<<_for_null_comparable_class", "operator<<_for_pointer"};

// =====================================================================================
// Tr<T>: name, builder, nullness, oracle renderer -- all written without the library
// =====================================================================================
template <class T, class = void> struct Tr;

template <class I> struct IntTr {
  static constexpr Kind kind = K_STREAM;
  static bool null(const I&) { return false; }
  static void fill(I& o, Tape& t) { o = gen_int<I>(t); }
  static void ora(Out& o, const I& v) {
    o.leaf();
    if (std::is_signed<I>::value) o.lit(std::to_string(static_cast<long long>(v)));
    else o.lit(std::to_string(static_cast<unsigned long long>(v)));
  }
};
#define S_INT(T, NAME) template <> struct Tr<T> : IntTr<T> { static std::string name() { return NAME; } };
S_INT(short, "short") S_INT(unsigned short, "ushort") S_INT(int, "int") S_INT(unsigned, "unsigned") S_INT(long, "long")
S_INT(unsigned long, "ulong") S_INT(long long, "llong") S_INT(unsigned long long, "ullong")

template <class C> struct CharTr {
  static constexpr Kind kind = K_STREAM;
  static bool null(const C&) { return false; }
  static void fill(C& o, Tape& t) {
    uint64_t v = t.next();
    static const char pal[] = "a Z0{}*\n,x";
    o = (v & 1) ? static_cast<C>(pal[(v >> 1) % 10]) : static_cast<C>((v >> 1) & 0xff);
  }
  static void ora(Out& o, const C& v) { o.leaf(); o.lit(std::string(1, static_cast<char>(v))); }
};
template <> struct Tr<char> : CharTr<char> { static std::string name() { return "char"; } };
template <> struct Tr<signed char> : CharTr<signed char> { static std::string name() { return "schar"; } };
template <> struct Tr<unsigned char> : CharTr<unsigned char> { static std::string name() { return "uchar"; } };

template <> struct Tr<bool> {
  static constexpr Kind kind = K_STREAM;
  static std::string name() { return "bool"; }
  static bool null(const bool&) { return false; }
  static void fill(bool& o, Tape& t) { o = t.next() & 1; }
  static void ora(Out& o, const bool& v) { o.leaf(); o.lit(v ? "1" : "0"); }
};
template <> struct Tr<double> {
  static constexpr Kind kind = K_STREAM;
  static std::string name() { return "double"; }
  static bool null(const double&) { return false; }
  static void fill(double& o, Tape& t) { o = gen_double(t); }
  static void ora(Out& o, const double& v) { o.leaf(); char b[64]; snprintf(b, sizeof b, "%g", v); o.lit(b); }
};
template <> struct Tr<float> {
  static constexpr Kind kind = K_STREAM;
  static std::string name() { return "float"; }
  static bool null(const float&) { return false; }
  static void fill(float& o, Tape& t) { o = static_cast<float>(gen_double(t)); }
  static void ora(Out& o, const float& v) { o.leaf(); char b[64]; snprintf(b, sizeof b, "%g", static_cast<double>(v)); o.lit(b); }
};
template <> struct Tr<Color> {
  static constexpr Kind kind = K_STREAM;
  static std::string name() { return "enum"; }
  static bool null(const Color&) { return false; }
  static void fill(Color& o, Tape& t) { static const Color c[] = {red, green, blue}; o = c[t.next() % 3]; }
  static void ora(Out& o, const Color& v) { o.leaf(); o.lit(std::to_string(static_cast<int>(v))); }
};
template <> struct Tr<Ec> {
  static constexpr Kind kind = K_HEX;
  static std::string name() { return "enum_class"; }
  static bool null(const Ec&) { return false; }
  static void fill(Ec& o, Tape& t) { o = static_cast<Ec>(t.next() & 0xffff); }
  static void ora(Out& o, const Ec& v) { o.hex(&v, sizeof v); }
};
template <> struct Tr<std::string> {
  static constexpr Kind kind = K_STREAM;
  static std::string name() { return "string"; }
  static bool null(const std::string&) { return false; }
  static void fill(std::string& o, Tape& t) { o = gen_string(t); }
  static void ora(Out& o, const std::string& v) { o.leaf(); o.lit(v); }
};
template <> struct Tr<std::string_view> {
  static constexpr Kind kind = K_STREAM;
  static std::string name() { return "string_view"; }
  static bool null(const std::string_view&) { return false; }
  static void fill(std::string_view& o, Tape& t) {
    uint64_t v = t.next();
    std::string_view full(CSTR_POOL[v % 10]);
    o = full.substr(0, full.size() - (full.empty() ? 0 : (v / 10) % 2));
  }
  static void ora(Out& o, const std::string_view& v) { o.leaf(); o.lit(std::string(v)); }
};
template <> struct Tr<const char*> {
  static constexpr Kind kind = K_STREAM;
  static std::string name() { return "cstr"; }
  static bool null(const char* const& v) { return v == nullptr; }
  static void fill(const char*& o, Tape& t) { o = gen_cstr(t); }
  static void ora(Out& o, const char* const& v) { if (!v) { o.null(); return; } o.leaf(); o.lit(v); }
};
template <> struct Tr<int*> {
  static constexpr Kind kind = K_STREAM;
  static std::string name() { return "int*"; }
  static bool null(int* const& v) { return v == nullptr; }
  static void fill(int*& o, Tape& t) { o = gen_intp(t); }
  static void ora(Out& o, int* const& v) { if (!v) { o.null(); return; } o.addr(v); }
};
template <> struct Tr<void*> {
  static constexpr Kind kind = K_STREAM;
  static std::string name() { return "void*"; }
  static bool null(void* const& v) { return v == nullptr; }
  static void fill(void*& o, Tape& t) { o = gen_intp(t); }
  static void ora(Out& o, void* const& v) { if (!v) { o.null(); return; } o.addr(v); }
};
// The harness's own test for "an operator<< exists" (C18: "uses operator<< ... when one exists"). The standard library
// gained operator<<(ostream&, unique_ptr const&) in C++20 (it prints get()); before that the object is hex-dumped.
template <typename T, typename = void> struct h_streamable : std::false_type {};
template <typename T> struct h_streamable<T, decltype(void(std::declval<std::ostream&>() << std::declval<const T&>()))> : std::true_type {};
template <> struct Tr<std::unique_ptr<int>> {
  static constexpr bool streamable = h_streamable<std::unique_ptr<int>>::value;
  static constexpr Kind kind = streamable ? K_STREAM : K_HEX;
  static std::string name() { return "unique_ptr"; }
  static bool null(const std::unique_ptr<int>& v) { return !v; }
  static void fill(std::unique_ptr<int>& o, Tape& t) { uint64_t v = t.next(); if (v % 3 == 0) o.reset(); else o.reset(new int(static_cast<int>(v / 3))); }
  static void ora(Out& o, const std::unique_ptr<int>& v) {
    if (!v) { o.null(); return; }
    if (streamable) o.addr(v.get()); else o.hex(&v, sizeof v, "<unique_ptr bytes>");
  }
};
template <> struct Tr<std::shared_ptr<int>> {  // has operator<< (prints get())
  static constexpr Kind kind = K_STREAM;
  static std::string name() { return "shared_ptr"; }
  static bool null(const std::shared_ptr<int>& v) { return !v; }
  static void fill(std::shared_ptr<int>& o, Tape& t) { uint64_t v = t.next(); if (v % 3 == 0) o.reset(); else o = std::make_shared<int>(static_cast<int>(v / 3)); }
  static void ora(Out& o, const std::shared_ptr<int>& v) { if (!v) { o.null(); return; } o.addr(v.get()); }
};
template <> struct Tr<std::optional<int*>> {  // engaged-null compares equal to nullptr; empty does not
  static constexpr Kind kind = K_HEX;
  static std::string name() { return "optional<int*>"; }
  static bool null(const std::optional<int*>& v) { return v.has_value() && *v == nullptr; }
  static void fill(std::optional<int*>& o, Tape& t) {
    uint64_t v = t.next();
    if (v % 3 == 0) o = static_cast<int*>(nullptr); else if (v % 3 == 1) o.reset(); else o = &g_ints[(v / 3) % 4];
  }
  static void ora(Out& o, const std::optional<int*>& v) {
    if (null(v)) { o.null(); return; }
    o.hex(&v, sizeof v, v.has_value() ? "<optional bytes, engaged>" : "<optional bytes, empty>");
  }
};
static int fn_target() { return 1; }
template <> struct Tr<std::function<int()>> {  // null-comparable object that is not a pointer
  static constexpr Kind kind = K_HEX;
  static std::string name() { return "function"; }
  static bool null(const std::function<int()>& v) { return !v; }
  static void fill(std::function<int()>& o, Tape& t) { if (t.next() % 2 == 0) o = nullptr; else o = &fn_target; }
  static void ora(Out& o, const std::function<int()>& v) { if (!v) { o.null(); return; } o.hex(&v, sizeof v, "<function bytes>"); }
};
template <> struct Tr<std::nullptr_t> {
  static constexpr Kind kind = K_STREAM;
  static std::string name() { return "nullptr_t"; }
  static bool null(const std::nullptr_t&) { return true; }
  static void fill(std::nullptr_t& o, Tape&) { o = nullptr; }
  static void ora(Out& o, const std::nullptr_t&) { o.null(); }
};
static void fill_bytes(unsigned char* b, size_t n, Tape& t) {
  uint64_t seed = t.next();
  switch (seed % 4) {
    case 0: for (size_t i = 0; i < n; ++i) b[i] = static_cast<unsigned char>(i + 1); break;  // 0x01.. : values below 0x10 present
    case 1: for (size_t i = 0; i < n; ++i) b[i] = static_cast<unsigned char>(0xff - 7 * i); break;
    case 2: { uint64_t h = seed; for (size_t i = 0; i < n; ++i) { h = h * 6364136223846793005ULL + 1442695040888963407ULL; b[i] = static_cast<unsigned char>(h >> 56); } break; }
    default: { uint64_t w = 0; for (size_t i = 0; i < n; ++i) { if (i % 8 == 0) w = t.next(); b[i] = static_cast<unsigned char>(w >> (8 * (i % 8))); } }
  }
}
template <size_t N> struct Tr<Opaque<N>> {
  static constexpr Kind kind = K_HEX;
  static std::string name() { return "opaque<" + std::to_string(N) + ">"; }
  static bool null(const Opaque<N>&) { return false; }
  static void fill(Opaque<N>& o, Tape& t) { fill_bytes(o.b, N, t); }
  static void ora(Out& o, const Opaque<N>& v) { o.hex(&v, N); }
};
template <> struct Tr<Padded> {
  static constexpr Kind kind = K_HEX;
  static std::string name() { return "padded_struct"; }
  static bool null(const Padded&) { return false; }
  static void fill(Padded& o, Tape& t) { o.c = static_cast<char>(t.next()); o.d = gen_double(t); }
  static void ora(Out& o, const Padded& v) { o.hex(&v, sizeof v); }
};
template <> struct Tr<UserP> {
  static constexpr Kind kind = K_USER;
  static std::string name() { return "user_printer"; }
  static bool null(const UserP&) { return false; }
  static void fill(UserP& o, Tape& t) { o.x = gen_int<int>(t); }
  static void ora(Out& o, const UserP& v) { o.leaf(); ++o.user_printed; o.lit("UP<" + std::to_string(v.x) + ">"); }
};
template <> struct Tr<UserS> {
  static constexpr Kind kind = K_USER;
  static std::string name() { return "user_printer_sfinae"; }
  static bool null(const UserS&) { return false; }
  static void fill(UserS& o, Tape& t) { o.x = gen_int<int>(t); }
  static void ora(Out& o, const UserS& v) { o.leaf(); ++o.user_printed; o.lit("US<" + std::to_string(v.x) + ">"); }
};
template <> struct Tr<Both> {
  static constexpr Kind kind = K_USER;
  static std::string name() { return "printer_and_ostream"; }
  static bool null(const Both&) { return false; }
  static void fill(Both& o, Tape& t) { o.x = gen_int<int>(t); }
  static void ora(Out& o, const Both& v) { o.leaf(); ++o.user_printed; o.lit("BP<" + std::to_string(v.x) + ">"); }
};
template <> struct Tr<Ostr> {
  static constexpr Kind kind = K_STREAM;
  static std::string name() { return "ostreamable"; }
  static bool null(const Ostr&) { return false; }
  static void fill(Ostr& o, Tape& t) { o.x = gen_int<int>(t); o.flag = t.next() & 1; }
  static void ora(Out& o, const Ostr& v) { o.leaf(); ++o.user_streamed; o.lit("S(" + std::to_string(v.x) + "," + (v.flag ? "1" : "0") + ")"); }
};
template <> struct Tr<Ows> {
  static constexpr Kind kind = K_STREAM;
  static std::string name() { return "ostreamable_setw"; }
  static bool null(const Ows&) { return false; }
  static void fill(Ows& o, Tape& t) { o.x = gen_int<int>(t); }
  static void ora(Out& o, const Ows& v) {
    // The type's own setw(5): the leaf must not see the prior fill; "default formatting
    // (decimal, unpadded)" leaves the side of the blanks open, so both are accepted.
    o.leaf();
    ++o.user_streamed;
    std::string d = std::to_string(v.x);
    std::string p(d.size() < 5 ? 5 - d.size() : 0, ' ');
    o.lit("[");
    if (p.empty()) o.lit(d); else o.lit2(d + p, p + d);
    o.lit("]");
  }
};

// ---- nullable types with a user rendering
template <> struct Tr<Widget*> {
  static constexpr Kind kind = K_USER;
  static std::string name() { return "widget*"; }
  static bool null(Widget* const& v) { return v == nullptr; }
  static void fill(Widget*& o, Tape& t) { o = gen_poolp(g_widgets, t); }
  static void ora(Out& o, Widget* const& v) { if (!v) o.null_user(0, NU_FULL_SPEC_PTR); else o.val_user(0, "W(" + std::to_string(v->id) + ")"); }
};
template <> struct Tr<Gadget*> {
  static constexpr Kind kind = K_USER;
  static std::string name() { return "gadget*"; }
  static bool null(Gadget* const& v) { return v == nullptr; }
  static void fill(Gadget*& o, Tape& t) { o = gen_poolp(g_gadgets, t); }
  static void ora(Out& o, Gadget* const& v) { if (!v) o.null_user(0, NU_PARTIAL_SPEC_PTR); else o.val_user(0, "G(" + std::to_string(v->id) + ")"); }
};
template <> struct Tr<const Gadget*> {
  static constexpr Kind kind = K_USER;
  static std::string name() { return "const_gadget*"; }
  static bool null(const Gadget* const& v) { return v == nullptr; }
  static void fill(const Gadget*& o, Tape& t) { o = gen_poolp(g_gadgets, t); }
  static void ora(Out& o, const Gadget* const& v) { if (!v) o.null_user(0, NU_PARTIAL_SPEC_PTR); else o.val_user(0, "G(" + std::to_string(v->id) + ")"); }
};
template <> struct Tr<Handle> {
  static constexpr Kind kind = K_USER;
  static std::string name() { return "handle"; }
  static bool null(const Handle& v) { return v.p == nullptr; }
  static void fill(Handle& o, Tape& t) { o.p = gen_intp(t); }
  static void ora(Out& o, const Handle& v) { if (!v.p) o.null_user(0, NU_CLASS_PRINTER); else o.val_user(0, "H(" + std::to_string(*v.p) + ")"); }
};
template <> struct Tr<OHandle> {
  static constexpr Kind kind = K_STREAM;
  static std::string name() { return "ohandle"; }
  static bool null(const OHandle& v) { return v.p == nullptr; }
  static void fill(OHandle& o, Tape& t) { o.p = gen_intp(t); }
  static void ora(Out& o, const OHandle& v) { if (!v.p) o.null_user(1, NU_CLASS_OSTREAM); else o.val_user(1, "OH(" + std::to_string(*v.p) + ")"); }
};
template <> struct Tr<Knob*> {
  static constexpr Kind kind = K_STREAM;
  static std::string name() { return "knob*"; }
  static bool null(Knob* const& v) { return v == nullptr; }
  static void fill(Knob*& o, Tape& t) { o = gen_poolp(g_knobs, t); }
  static void ora(Out& o, Knob* const& v) { if (!v) o.null_user(1, NU_PTR_OSTREAM); else o.val_user(1, "K(" + std::to_string(v->id) + ")"); }
};
// optional<E> of such a type: an engaged null compares equal to nullptr; otherwise the optional object itself
// has neither << nor a printer and is dumped (the element's printer does not run).
template <class E> struct Tr<std::optional<E>> {
  using O = std::optional<E>;
  static constexpr Kind kind = K_HEX;
  static std::string name() { return "optional<" + Tr<E>::name() + ">"; }
  static bool null(const O& v) { return v.has_value() && Tr<E>::null(*v); }
  static void fill(O& o, Tape& t) {
    uint64_t v = t.next();
    if (v % 3 == 1) { o.reset(); return; }
    std::vector<uint64_t> sub{v % 3 == 0 ? 0ULL : 1 + 3 * (v / 3)};  // engaged null / engaged non-null
    Tape st{&sub};
    E e{};
    Tr<E>::fill(e, st);
    o = e;
  }
  static void ora(Out& o, const O& v) {
    if (null(v)) { Out sub; sub.depth = o.depth; Tr<E>::ora(sub, *v); for (int h = 0; h < 2; ++h) for (int d = 0; d < 2; ++d) o.nu_null[h][d] += sub.nu_null[h][d]; o.nu_shapes |= sub.nu_shapes; o.null(); return; }
    o.hex(&v, sizeof v, v.has_value() ? "<optional bytes, engaged>" : "<optional bytes, empty>");
  }
};

// ---- composites
template <class It, class F> static void ora_seq(Out& o, It b, It e, F each) {
  o.open();
  bool first = true;
  for (; b != e; ++b) { if (!first) o.lit(", "); first = false; each(*b); }
  o.close();
}
template <class A, class B> struct Tr<std::pair<A, B>> {
  static constexpr Kind kind = K_COMP;
  static std::string name() { return "pair<" + Tr<A>::name() + "," + Tr<B>::name() + ">"; }
  static bool null(const std::pair<A, B>&) { return false; }
  static void fill(std::pair<A, B>& o, Tape& t) { Tr<A>::fill(o.first, t); Tr<B>::fill(o.second, t); }
  static void ora(Out& o, const std::pair<A, B>& v) { o.open(); Tr<A>::ora(o, v.first); o.lit(", "); Tr<B>::ora(o, v.second); o.close(); }
};
template <class... E> struct Tr<std::tuple<E...>> {
  using Tu = std::tuple<E...>;
  static constexpr Kind kind = K_COMP;
  static std::string name() { std::string s = "tuple<"; const char* sep = ""; int d[] = {0, ((s += sep, s += Tr<E>::name(), sep = ","), 0)...}; (void)d; return s + ">"; }
  static bool null(const Tu&) { return false; }
  template <size_t... I> static void fill_i(Tu& o, Tape& t, std::index_sequence<I...>) { int d[] = {0, (Tr<E>::fill(std::get<I>(o), t), 0)...}; (void)d; (void)o; (void)t; }
  template <size_t... I> static void ora_i(Out& o, const Tu& v, std::index_sequence<I...>) {
    int d[] = {0, ((I ? o.lit(", ") : void()), Tr<E>::ora(o, std::get<I>(v)), 0)...}; (void)d; (void)v;
  }
  static void fill(Tu& o, Tape& t) { fill_i(o, t, std::index_sequence_for<E...>{}); }
  static void ora(Out& o, const Tu& v) { o.open(); ora_i(o, v, std::index_sequence_for<E...>{}); o.close(); }
};
template <class E> struct Tr<std::vector<E>> {
  static constexpr Kind kind = K_COMP;
  static std::string name() { return "vector<" + Tr<E>::name() + ">"; }
  static bool null(const std::vector<E>&) { return false; }
  static void fill(std::vector<E>& o, Tape& t) { size_t n = gen_len(t); o.clear(); o.reserve(n); for (size_t i = 0; i < n; ++i) { o.emplace_back(); Tr<E>::fill(o.back(), t); } }
  static void ora(Out& o, const std::vector<E>& v) { ora_seq(o, v.begin(), v.end(), [&](const E& e) { Tr<E>::ora(o, e); }); }
};
template <> struct Tr<std::vector<bool>> {
  static constexpr Kind kind = K_COMP;
  static std::string name() { return "vector<bool>"; }
  static bool null(const std::vector<bool>&) { return false; }
  static void fill(std::vector<bool>& o, Tape& t) { uint64_t v = t.next(); size_t n = v % 6; o.clear(); for (size_t i = 0; i < n; ++i) o.push_back((v >> (3 + i)) & 1); }
  static void ora(Out& o, const std::vector<bool>& v) { o.open(); for (size_t i = 0; i < v.size(); ++i) { if (i) o.lit(", "); o.leaf(); o.lit(v[i] ? "1" : "0"); } o.close(); }
};
template <class E> struct Tr<std::list<E>> {
  static constexpr Kind kind = K_COMP;
  static std::string name() { return "list<" + Tr<E>::name() + ">"; }
  static bool null(const std::list<E>&) { return false; }
  static void fill(std::list<E>& o, Tape& t) { size_t n = gen_len(t); o.clear(); for (size_t i = 0; i < n; ++i) { o.emplace_back(); Tr<E>::fill(o.back(), t); } }
  static void ora(Out& o, const std::list<E>& v) { ora_seq(o, v.begin(), v.end(), [&](const E& e) { Tr<E>::ora(o, e); }); }
};
template <class E> struct Tr<std::set<E>> {
  static constexpr Kind kind = K_COMP;
  static std::string name() { return "set<" + Tr<E>::name() + ">"; }
  static bool null(const std::set<E>&) { return false; }
  static void fill(std::set<E>& o, Tape& t) { size_t n = gen_len(t); o.clear(); for (size_t i = 0; i < n; ++i) { E e{}; Tr<E>::fill(e, t); o.insert(std::move(e)); } }
  static void ora(Out& o, const std::set<E>& v) { ora_seq(o, v.begin(), v.end(), [&](const E& e) { Tr<E>::ora(o, e); }); }
};
template <class K, class V> struct Tr<std::map<K, V>> {
  using M = std::map<K, V>;
  static constexpr Kind kind = K_COMP;
  static std::string name() { return "map<" + Tr<K>::name() + "," + Tr<V>::name() + ">"; }
  static bool null(const M&) { return false; }
  static void fill(M& o, Tape& t) { size_t n = gen_len(t); o.clear(); for (size_t i = 0; i < n; ++i) { K k{}; Tr<K>::fill(k, t); V v{}; Tr<V>::fill(v, t); o.emplace(std::move(k), std::move(v)); } }
  static void ora(Out& o, const M& m) {
    ora_seq(o, m.begin(), m.end(), [&](const typename M::value_type& kv) { o.open(); Tr<K>::ora(o, kv.first); o.lit(", "); Tr<V>::ora(o, kv.second); o.close(); });
  }
};
template <class E, size_t N> struct Tr<E[N]> {
  static constexpr Kind kind = K_COMP;
  static std::string name() { return "array" + std::to_string(N) + "<" + Tr<E>::name() + ">"; }
  static bool null(const E (&)[N]) { return false; }
  static void fill(E (&o)[N], Tape& t) { for (size_t i = 0; i < N; ++i) Tr<E>::fill(o[i], t); }
  static void ora(Out& o, const E (&v)[N]) { o.open(); for (size_t i = 0; i < N; ++i) { if (i) o.lit(", "); Tr<E>::ora(o, v[i]); } o.close(); }
};

// =====================================================================================
// The family
// =====================================================================================
template <class... T> struct TL {};
using cstr = const char*;
using up_t = std::unique_ptr<int>;
using sp_t = std::shared_ptr<int>;
using opt_t = std::optional<int*>;
using np_t = std::nullptr_t;
using fn_t = std::function<int()>;
using vpc_t = std::vector<std::pair<int, cstr>>;
using tnull_t = std::tuple<cstr, sp_t, opt_t, np_t>;
using deepmap_t = std::map<std::string, vpc_t>;
using vvv_t = std::vector<std::vector<std::vector<int>>>;
typedef int int3_t[3];
typedef cstr cstr2_t[2];
typedef Opaque<9> op9x2_t[2];
typedef int int23_t[2][3];
typedef std::vector<int> vi2_t[2];
template <> struct Tr<Uid> {   // no operator<<, no printer<>: bytes
  static constexpr Kind kind = K_HEX;
  static std::string name() { return "uid"; }
  static bool null(const Uid&) { return false; }
  static void fill(Uid& o, Tape& t) { o.v = gen_int<int>(t); }
  static void ora(Out& o, const Uid& v) { o.hex(&v, sizeof v); }
};
template <> struct Tr<extlib::Rgb> {
  static constexpr Kind kind = K_STREAM;
  static std::string name() { return "foreign_type_with_global_operator<<"; }
  static bool null(const extlib::Rgb&) { return false; }
  static void fill(extlib::Rgb& o, Tape& t) { uint64_t v = t.next(); o.r = static_cast<unsigned char>(v); o.g = static_cast<unsigned char>(v >> 8); o.b = static_cast<unsigned char>(v >> 16); }
  static void ora(Out& o, const extlib::Rgb& v) { o.leaf(); o.lit("rgb(" + std::to_string(v.r) + "," + std::to_string(v.g) + "," + std::to_string(v.b) + ")"); }
};
template <> struct Tr<std::pair<Uid, int>> {
  static constexpr Kind kind = K_STREAM;
  static std::string name() { return "pair_with_own_operator<<"; }
  static bool null(const std::pair<Uid, int>&) { return false; }
  static void fill(std::pair<Uid, int>& o, Tape& t) { o.first.v = gen_int<int>(t); o.second = gen_int<int>(t); }
  static void ora(Out& o, const std::pair<Uid, int>& v) { o.leaf(); ++o.user_streamed; o.lit("id#" + std::to_string(v.first.v) + "*" + std::to_string(v.second)); }
};
template <> struct Tr<std::tuple<Uid, int, Uid>> {
  using Tu = std::tuple<Uid, int, Uid>;
  static constexpr Kind kind = K_STREAM;
  static std::string name() { return "tuple_with_own_operator<<"; }
  static bool null(const Tu&) { return false; }
  static void fill(Tu& o, Tape& t) { std::get<0>(o).v = gen_int<int>(t); std::get<1>(o) = gen_int<int>(t); std::get<2>(o).v = gen_int<int>(t); }
  static void ora(Out& o, const Tu& v) { o.leaf(); ++o.user_streamed; o.lit("ids<" + std::to_string(std::get<0>(v).v) + "|" + std::to_string(std::get<1>(v)) + "|" + std::to_string(std::get<2>(v).v) + ">"); }
};
typedef std::vector<std::vector<int>> vvi2_t[2];
typedef std::pair<cstr, std::list<up_t>> pcl2_t[2];

using Basic = TL<
    // leaves
    bool, char, signed char, unsigned char, short, unsigned short, int, unsigned, long, unsigned long, long long, unsigned long long,
    double, float, Color, Ec, std::string, std::string_view, cstr, int*, void*, up_t, sp_t, opt_t, fn_t, np_t,
    Padded, UserP, UserS, Both, Ostr, Ows,
    // depth 1
    std::pair<int, std::string>, std::pair<cstr, int*>, std::pair<Ows, bool>,
    std::tuple<>, std::tuple<int>, std::tuple<int, char>, std::tuple<bool, double, std::string>, tnull_t,
    std::vector<int>, std::vector<std::string>, std::vector<cstr>, std::vector<bool>, std::vector<char>, std::vector<up_t>, std::vector<opt_t>,
    std::vector<np_t>, std::vector<Opaque<3>>, std::vector<Opaque<17>>, std::vector<UserP>, std::vector<Ostr>, std::vector<double>,
    std::list<long>, std::list<sp_t>, std::set<int>, std::set<std::string>, std::map<int, std::string>, std::map<std::string, cstr>,
    int3_t, cstr2_t, op9x2_t,
    // depth 2
    std::vector<std::vector<int>>, vpc_t, std::pair<std::vector<int>, std::list<std::string>>, std::map<int, std::vector<std::string>>,
    std::tuple<std::vector<int>, std::pair<int, int>>, std::set<std::pair<int, std::string>>, std::list<std::tuple<>>,
    std::pair<std::pair<int, int>, std::tuple<np_t>>, std::vector<std::tuple<int*, sp_t, opt_t>>, std::vector<std::pair<UserS, Ows>>,
    std::tuple<fn_t, std::vector<Both>, up_t, unsigned char>, int23_t, vi2_t,
    // depth 3
    vvv_t, deepmap_t, std::list<std::map<int, std::set<std::string>>>,
    std::tuple<int, std::pair<std::string, std::vector<cstr>>, std::map<int, int>>,
    std::pair<std::vector<Opaque<17>>, std::vector<std::pair<UserP, Ostr>>>, std::vector<std::list<std::pair<cstr, sp_t>>>,
    std::map<int, std::tuple<np_t, std::vector<opt_t>, long long>>, vvi2_t, pcl2_t>;

// Nullable types with a user rendering (appended to the table after opaque<1..40>, so the ids of the older types stay).
using widp_t = Widget*;
using gadp_t = Gadget*;
using cgadp_t = const Gadget*;
using knobp_t = Knob*;
using vwid_t = std::vector<widp_t>;
using tnu_t = std::tuple<widp_t, gadp_t, Handle, OHandle>;
typedef widp_t widp2_t[2];
using NullableUser = TL<
    // leaves
    widp_t, gadp_t, cgadp_t, Handle, OHandle, knobp_t, std::optional<widp_t>, std::optional<Handle>,
    // depth 1
    std::pair<widp_t, Handle>, std::pair<int, cgadp_t>, tnu_t, std::tuple<knobp_t, cstr, widp_t>,
    vwid_t, std::vector<Handle>, std::vector<OHandle>, std::list<cgadp_t>, std::map<int, widp_t>, widp2_t, std::vector<std::optional<widp_t>>,
    // depth 2
    std::vector<std::pair<widp_t, OHandle>>, std::map<std::string, std::vector<Handle>>, std::tuple<std::vector<gadp_t>, std::pair<knobp_t, Handle>>,
    std::pair<UserP, vwid_t>,
    // depth 3
    std::vector<std::list<std::pair<cstr, widp_t>>>, std::map<int, std::tuple<np_t, std::vector<Handle>, OHandle>>>;

// Pairs and tuples with an operator<< of their own, and plain ones of the same element type next to them (appended last).
using StreamedComposites = TL<
    Uid, std::pair<Uid, int>, std::tuple<Uid, int, Uid>, std::pair<int, Uid>, std::tuple<Uid, int>,
    std::vector<std::pair<Uid, int>>, std::list<std::tuple<Uid, int, Uid>>, std::pair<std::pair<Uid, int>, std::tuple<Uid, int, Uid>>,
    std::map<int, std::pair<Uid, int>>, std::tuple<std::pair<Uid, int>, cstr, std::pair<int, Uid>>,
    extlib::Rgb, std::vector<extlib::Rgb>, std::pair<int, extlib::Rgb>, std::map<int, extlib::Rgb>>;

// =====================================================================================
// End-to-end sample: mock functions taking / returning some of the types
// =====================================================================================
struct fatal_report {};
static std::vector<std::string> g_reports;
struct Tracer : trompeloeil::tracer {
  std::vector<std::string> recs;
  void trace(char const*, unsigned long, std::string const& call) override { recs.push_back(call); }
};

struct Mock {
  MAKE_MOCK1(f_int, void(int));
  MAKE_MOCK1(f_cstr, void(char const*));
  MAKE_MOCK1(f_up, void(std::unique_ptr<int> const&));
  MAKE_MOCK1(f_sp, void(std::shared_ptr<int>));
  MAKE_MOCK1(f_opt, void(std::optional<int*> const&));
  MAKE_MOCK1(f_vpc, void(vpc_t const&));
  MAKE_MOCK1(f_tnull, void(tnull_t const&));
  MAKE_MOCK1(f_deepmap, void(deepmap_t const&));
  MAKE_MOCK1(f_op17, void(Opaque<17> const&));
  MAKE_MOCK1(f_userp, void(UserP));
  MAKE_MOCK0(r_cstr, char const*());
  MAKE_MOCK0(r_vpc, vpc_t());
  MAKE_MOCK1(f_widp, void(Widget*));
  MAKE_MOCK1(f_cgadp, void(Gadget const*));
  MAKE_MOCK1(f_handle, void(Handle));
  MAKE_MOCK1(f_ohandle, void(OHandle const&));
  MAKE_MOCK1(f_vwid, void(vwid_t const&));
  MAKE_MOCK1(f_tnu, void(tnu_t const&));
  MAKE_MOCK0(r_widp, Widget*());
  MAKE_MOCK0(r_handle, Handle());
};

using Exp = std::unique_ptr<trompeloeil::expectation>;
template <class T> struct E2E { static constexpr bool has = false, has_exp = false, has_ret = false; };
#define S_E2E_COMMON(T, FN)                                                                  \
  static constexpr bool has = true;                                                          \
  static void call(Mock& m, T const& v) { m.FN(v); }                                         \
  static Exp allow(Mock& m) { return NAMED_ALLOW_CALL(m, FN(trompeloeil::_)); }
#define S_E2E(T, FN) template <> struct E2E<T> { S_E2E_COMMON(T, FN) static constexpr bool has_exp = false, has_ret = false; };
#define S_E2E_EXP(T, FN) template <> struct E2E<T> { S_E2E_COMMON(T, FN) static constexpr bool has_exp = true, has_ret = false; \
  static Exp expect(Mock& m, T const& w) { return NAMED_ALLOW_CALL(m, FN(w)); } };
#define S_E2E_EXP_RET(T, FN, RFN) template <> struct E2E<T> { S_E2E_COMMON(T, FN) static constexpr bool has_exp = true, has_ret = true; \
  static Exp expect(Mock& m, T const& w) { return NAMED_ALLOW_CALL(m, FN(w)); }                                   \
  static Exp ret(Mock& m, T const& w) { return NAMED_ALLOW_CALL(m, RFN()).RETURN(w); }                            \
  static void call_ret(Mock& m) { (void)m.RFN(); } };
S_E2E_EXP(int, f_int)
S_E2E_EXP_RET(cstr, f_cstr, r_cstr)
S_E2E(up_t, f_up)
S_E2E(sp_t, f_sp)
S_E2E(opt_t, f_opt)  // by reference and never copied into an expectation: the dump shows padding bytes, which a copy need not keep
S_E2E_EXP_RET(vpc_t, f_vpc, r_vpc)
S_E2E(tnull_t, f_tnull)
S_E2E(deepmap_t, f_deepmap)
S_E2E(Opaque<17>, f_op17)
S_E2E_EXP(UserP, f_userp)
S_E2E_EXP_RET(widp_t, f_widp, r_widp)
S_E2E_EXP(cgadp_t, f_cgadp)
S_E2E_EXP_RET(Handle, f_handle, r_handle)
S_E2E_EXP(OHandle, f_ohandle)
S_E2E_EXP(vwid_t, f_vwid)
S_E2E(tnu_t, f_tnu)

// =====================================================================================
// One case
// =====================================================================================
enum Mode { M_PRINT = 0, M_NOMATCH = 1, M_TRACE = 2, M_EXPECTED = 3, M_RETURN = 4 };
static const char* const MODES[] = {"print", "nomatch", "trace", "expected", "return"};

struct CaseIn {
  int tid = 0;
  std::vector<uint64_t> tape;
  SState st;
  int mode = M_PRINT;
};
enum Top { T_STREAM, T_HEX, T_COMP, T_NULL, T_USER };
struct CaseInfo {
  Top top = T_STREAM;
  Out o;
  size_t tape_used = 0;
  bool padded_first_token = false, width_consumed = false, restoration_asserted = false;
  int e2e_done = -1;  // mode actually exercised end-to-end
  bool e2e_skipped_equal = false;
  int e2e_expected_nu_nulls = 0;  // nulls with a user rendering inside the *expected* value of an Expected line
  std::string value_desc;
};
struct Verdict { bool ok = true; std::string why; };

static std::string esc(const std::string& s) {
  std::string o;
  for (unsigned char c : s) {
    if (c == '\n') o += "\\n";
    else if (c == '\\') o += "\\\\";
    else if (c < 0x20 || c >= 0x7f) { char b[8]; snprintf(b, sizeof b, "\\x%02x", c); o += b; }
    else o += static_cast<char>(c);
  }
  return o;
}

// Storage pre-filled with a fixed byte so that padding and the unused payload of an empty
// optional are the same bytes in every run.
template <class T> struct Holder {
  struct Box { T v; };
  alignas(Box) unsigned char buf[sizeof(Box)];
  Box* p;
  Holder() { memset(buf, 0xAB, sizeof buf); p = new (buf) Box; }
  ~Holder() { p->~Box(); }
  Holder(const Holder&) = delete;
  T& get() { return p->v; }
};

static bool has_text(const std::string& hay, const std::string& pre, const Out& o, const std::string& post) {
  if (hay.find(pre + o.text[0] + post) != std::string::npos) return true;
  return o.has_ows && hay.find(pre + o.text[1] + post) != std::string::npos;
}

// Type-erased entry points of one end-to-end sample type (keeps the per-type code small).
struct E2EOps {
  bool has = false, has_exp = false, has_ret = false;
  void (*call)(Mock&, const void*) = nullptr;
  Exp (*allow)(Mock&) = nullptr;
  Exp (*expect)(Mock&, const void*) = nullptr;
  Exp (*ret)(Mock&, const void*) = nullptr;
  void (*call_ret)(Mock&) = nullptr;
};
template <class T> static E2EOps make_ops() {
  E2EOps ops;
  if constexpr (E2E<T>::has) {
    ops.has = true;
    ops.call = [](Mock& m, const void* v) { E2E<T>::call(m, *static_cast<const T*>(v)); };
    ops.allow = [](Mock& m) { return E2E<T>::allow(m); };
    if constexpr (E2E<T>::has_exp) {
      ops.has_exp = true;
      ops.expect = [](Mock& m, const void* w) { return E2E<T>::expect(m, *static_cast<const T*>(w)); };
    }
    if constexpr (E2E<T>::has_ret) {
      ops.has_ret = true;
      ops.ret = [](Mock& m, const void* w) { return E2E<T>::ret(m, *static_cast<const T*>(w)); };
      ops.call_ret = [](Mock& m) { E2E<T>::call_ret(m); };
    }
  }
  return ops;
}

// v: the value; w/o2: a second, different value and its rendering (expected mode only).
static Verdict e2e_modes(const E2EOps& ops, int mode, CaseInfo& info, const void* v, const void* w, const Out* o2) {
  Verdict r;
  const Out& o = info.o;
  g_reports.clear();
  Mock m;
  if (mode == M_NOMATCH) {
    bool threw = false;
    try { ops.call(m, v); } catch (fatal_report&) { threw = true; }
    info.e2e_done = mode;
    if (!threw || g_reports.size() != 1) { r.ok = false; r.why = "end-to-end: call without expectation gave " + std::to_string(g_reports.size()) + " reports"; return r; }
    if (!has_text(g_reports[0], "  param  _1 == ", o, "\n")) {
      r.ok = false;
      r.why = "end-to-end: no-match report lacks the parameter line\nexpected line: \"  param  _1 == " + esc(o.text[0]) + "\"\nreport: \"" + esc(g_reports[0]) + "\"";
    }
  } else if (mode == M_TRACE) {
    Tracer t;
    Exp e = ops.allow(m);
    ops.call(m, v);
    info.e2e_done = mode;
    if (!g_reports.empty() || t.recs.size() != 1) { r.ok = false; r.why = "end-to-end: traced call gave " + std::to_string(t.recs.size()) + " records, " + std::to_string(g_reports.size()) + " reports"; return r; }
    if (!has_text(t.recs[0], "  param  _1 == ", o, "\n")) {
      r.ok = false;
      r.why = "end-to-end: trace record lacks the parameter line\nexpected line: \"  param  _1 == " + esc(o.text[0]) + "\"\nrecord: \"" + esc(t.recs[0]) + "\"";
    }
  } else if (mode == M_EXPECTED) {
    bool threw = false;
    {
      Exp e = ops.expect(m, w);
      try { ops.call(m, v); } catch (fatal_report&) { threw = true; }
    }
    info.e2e_done = mode;
    if (!threw || g_reports.size() != 1) { r.ok = false; r.why = "end-to-end: mismatching call gave " + std::to_string(g_reports.size()) + " reports"; return r; }
    if (!has_text(g_reports[0], "  param  _1 == ", o, "\n") || !has_text(g_reports[0], "  Expected  _1 == ", *o2, "\n")) {
      r.ok = false;
      r.why = "end-to-end: report lacks the parameter or the expected-value line\nexpected lines: \"  param  _1 == " + esc(o.text[0]) +
              "\" and \"  Expected  _1 == " + esc(o2->text[0]) + "\"\nreport: \"" + esc(g_reports[0]) + "\"";
    }
  } else if (mode == M_RETURN) {
    Tracer t;
    Exp e = ops.ret(m, v);
    ops.call_ret(m);
    info.e2e_done = mode;
    if (!g_reports.empty() || t.recs.size() != 1) { r.ok = false; r.why = "end-to-end: traced returning call gave " + std::to_string(t.recs.size()) + " records"; return r; }
    if (!has_text(t.recs[0], " -> ", o, "\n")) {
      r.ok = false;
      r.why = "end-to-end: trace record lacks the return value\nexpected line: \" -> " + esc(o.text[0]) + "\"\nrecord: \"" + esc(t.recs[0]) + "\"";
    }
  }
  return r;
}

static Verdict e2e_run(const E2EOps& ops, int mode, CaseInfo& info, const void* v, const void* w, const Out* o2) {
  const unsigned null0 = g_user_null_calls;
  Verdict r = e2e_modes(ops, mode, info, v, w, o2);
  if (g_user_null_calls != null0) {  // whatever else the mode found: the user's printer<> / operator<< must not have seen a null
    std::string first = "end-to-end (" + std::string(MODES[mode]) + "): a user printer<T> / operator<< was handed a null value " + std::to_string(g_user_null_calls - null0) +
                        " time(s); a null must be printed as nullptr without running it";
    r.why = r.ok ? first : first + "\n" + r.why;
    r.ok = false;
  }
  if (o2) info.e2e_expected_nu_nulls = o2->nu_nulls();
  return r;
}

template <class T> static Verdict e2e_check(const CaseIn& c, CaseInfo& info, const T& v, Tape& tp) {
  if constexpr (E2E<T>::has) {
    static const E2EOps ops = make_ops<T>();
    int mode = c.mode;
    if (mode == M_EXPECTED && !ops.has_exp) mode = M_NOMATCH;
    if (mode == M_RETURN && !ops.has_ret) mode = M_TRACE;
    if constexpr (E2E<T>::has_exp) {
      if (mode == M_EXPECTED) {
        Holder<T> h2;
        Tr<T>::fill(h2.get(), tp);
        Out o2;
        Tr<T>::ora(o2, h2.get());
        if (h2.get() == v) { info.e2e_skipped_equal = true; return Verdict{}; }
        return e2e_run(ops, mode, info, &v, &h2.get(), &o2);
      }
    }
    return e2e_run(ops, mode, info, &v, nullptr, nullptr);
  } else {
    (void)c; (void)info; (void)v; (void)tp;
    return Verdict{};
  }
}

struct Observed {
  std::string got, probe;
  std::ios_base::fmtflags f0{}, f1{};
  char fill0 = ' ', fill1 = ' ';
  std::streamsize w0 = 0, w1 = 0;
  bool good = true;
  unsigned user_printer_calls = 0, user_stream_calls = 0, user_null_calls = 0;
};

// Everything that does not depend on the value type: compare what was observed with the oracle.
static Verdict judge(const CaseIn& c, CaseInfo& info, const Observed& ob) {
  Verdict r;
  const Out& o = info.o;
  info.value_desc = o.canon;
  // ---- the null test comes first: no user printer<T> / operator<< is ever handed a null
  if (ob.user_null_calls != 0) {
    r.ok = false;
    r.why = "a user printer<T> / operator<< was handed a null value " + std::to_string(ob.user_null_calls) + " time(s); a null must be printed as nullptr without running it\n" +
            "expected: \"" + esc(o.text[0]) + "\"\nactual:   \"" + esc(ob.got) + "\"";
    return r;
  }
  // ---- text
  std::vector<std::string> accepted;
  accepted.push_back(o.text[0]);
  if (o.has_ows) accepted.push_back(o.text[1]);
  const bool tolerant = info.top == T_COMP || info.top == T_NULL;
  if (tolerant) {
    // Exclusion: the structural "{ " of a composite / the literal nullptr may take the prior width.
    size_t tok = info.top == T_NULL ? 7 : 2;
    if (c.st.width > static_cast<long>(tok)) {
      size_t n = accepted.size();
      for (size_t i = 0; i < n; ++i) accepted.push_back(pad_text(accepted[i].substr(0, tok), c.st, c.st.width) + accepted[i].substr(tok));
    }
  }
  size_t which = accepted.size();
  for (size_t i = 0; i < accepted.size(); ++i) if (ob.got == accepted[i]) { which = i; break; }
  if (which == accepted.size()) {
    r.ok = false;
    r.why = "printed text differs\nexpected: \"" + esc(accepted[0]) + "\"";
    for (size_t i = 1; i < accepted.size(); ++i) r.why += "\n      or: \"" + esc(accepted[i]) + "\"";
    r.why += "\nactual:   \"" + esc(ob.got) + "\"" + (ob.good ? "" : "  (stream no longer good())");
    return r;
  }
  info.padded_first_token = tolerant && ob.got != o.text[0] && ob.got != o.text[1];
  if (ob.user_printer_calls != static_cast<unsigned>(o.user_printed)) {
    r.ok = false;
    r.why = "user printer<T> ran " + std::to_string(ob.user_printer_calls) + " times, expected " + std::to_string(o.user_printed);
    return r;
  }
  if (ob.user_stream_calls != static_cast<unsigned>(o.user_streamed)) {
    r.ok = false;
    r.why = "user operator<< ran " + std::to_string(ob.user_stream_calls) + " times, expected " + std::to_string(o.user_streamed);
    return r;
  }

  // ---- restoration
  auto flags_text = [](std::ios_base::fmtflags f) { char b[32]; snprintf(b, sizeof b, "0x%x", static_cast<unsigned>(f)); return std::string(b); };
  if (info.top == T_STREAM || info.top == T_HEX) {
    info.restoration_asserted = true;
    std::string want = probe_text(c.st, c.st.width);
    if (ob.f1 != ob.f0 || ob.fill1 != ob.fill0 || ob.w1 != ob.w0 || ob.probe != want) {
      r.ok = false;
      r.why = "stream state not restored after a " + std::string(info.top == T_STREAM ? "directly streamable" : "hex-dumped") + " value\n" +
              "expected: flags=" + flags_text(ob.f0) + " fill='" + ob.fill0 + "' width=" + std::to_string(ob.w0) + " probe(255,true)=\"" + esc(want) + "\"\n" +
              "actual:   flags=" + flags_text(ob.f1) + " fill='" + ob.fill1 + "' width=" + std::to_string(ob.w1) + " probe(255,true)=\"" + esc(ob.probe) + "\"";
      return r;
    }
  } else if (tolerant) {
    std::string want_w = probe_text(c.st, c.st.width), want_0 = probe_text(c.st, 0);
    info.width_consumed = ob.w1 != ob.w0;
    bool wok = ob.w1 == ob.w0 || ob.w1 == 0;
    bool pok = ob.probe == (ob.w1 == ob.w0 ? want_w : want_0);
    if (ob.f1 != ob.f0 || ob.fill1 != ob.fill0 || !wok || !pok) {
      r.ok = false;
      r.why = std::string("flags/fill not as before after a ") + (info.top == T_NULL ? "null" : "composite") + " value (width may be consumed, nothing else)\n" +
              "expected: flags=" + flags_text(ob.f0) + " fill='" + ob.fill0 + "' width=" + std::to_string(ob.w0) + " or 0, probe(255,true)=\"" + esc(want_w) + "\" or \"" + esc(want_0) + "\"\n" +
              "actual:   flags=" + flags_text(ob.f1) + " fill='" + ob.fill1 + "' width=" + std::to_string(ob.w1) + " probe(255,true)=\"" + esc(ob.probe) + "\"";
      return r;
    }
  }
  return r;
}

static void observe(const SState& st, Observed& ob, void (*printfn)(std::ostream&, const void*), const void* v) {
  std::ostringstream os;
  apply_state(os, st);
  ob.f0 = os.flags(); ob.fill0 = os.fill(); ob.w0 = os.width();
  const unsigned up0 = g_user_printer_calls, us0 = g_user_stream_calls, un0 = g_user_null_calls;

  printfn(os, v);  // trompeloeil::print(os, value)

  ob.got = os.str();
  ob.f1 = os.flags(); ob.fill1 = os.fill(); ob.w1 = os.width(); ob.good = os.good();
  ob.user_printer_calls = g_user_printer_calls - up0;
  ob.user_stream_calls = g_user_stream_calls - us0;
  ob.user_null_calls = g_user_null_calls - un0;
  os << 255;
  os << true;
  ob.probe = os.str().substr(ob.got.size());
}

template <class T> static void print_thunk(std::ostream& os, const void* p) { trompeloeil::print(os, *static_cast<const T*>(p)); }

template <class T> static Verdict check_one(const CaseIn& c, CaseInfo& info) {
  Holder<T> h;
  T& v = h.get();
  Tape tp{&c.tape};
  Tr<T>::fill(v, tp);
  Tr<T>::ora(info.o, v);
  info.tape_used = tp.i;
  const Kind k = Tr<T>::kind;
  info.top = Tr<T>::null(v) ? T_NULL : k == K_STREAM ? T_STREAM : k == K_HEX ? T_HEX : k == K_COMP ? T_COMP : T_USER;
  Observed ob;
  observe(c.st, ob, &print_thunk<T>, &v);
  Verdict r = judge(c, info, ob);
  if (r.ok && c.mode != M_PRINT) r = e2e_check<T>(c, info, v, tp);
  return r;
}

// =====================================================================================
// Type table
// =====================================================================================
struct TypeEntry {
  std::string name;
  Verdict (*fn)(const CaseIn&, CaseInfo&);
  size_t opaque_n;  // 0 unless opaque<N>
  bool e2e;
};
static std::vector<TypeEntry> g_types;
static int g_first_opaque = 0;
static int g_first_nullable_user = 0;
template <class... T> static void add_types(TL<T...>) { int d[] = {0, (g_types.push_back({Tr<T>::name(), &check_one<T>, 0, E2E<T>::has}), 0)...}; (void)d; }
template <size_t... I> static void add_opaque(std::index_sequence<I...>) { int d[] = {0, (g_types.push_back({Tr<Opaque<I + 1>>::name(), &check_one<Opaque<I + 1>>, I + 1, E2E<Opaque<I + 1>>::has}), 0)...}; (void)d; }
static void build_table() {
  add_types(Basic{});
  g_first_opaque = static_cast<int>(g_types.size());
  add_opaque(std::make_index_sequence<40>{});
  g_first_nullable_user = static_cast<int>(g_types.size());
  add_types(NullableUser{});
  add_types(StreamedComposites{});
}

}  // namespace s

using namespace s;

// =====================================================================================
// Driver
// =====================================================================================
static vc::Args A;
static vc::Stats ST;
static std::string g_last_fail;
static int g_cur_fd = -1;

static std::string case_text(const CaseIn& c, const std::string& why, const std::string& value_desc, size_t tape_used) {
  std::string s = "# engine=S prop=C18\n";
  std::istringstream w(why);
  std::string l;
  while (std::getline(w, l)) s += "# " + l + "\n";
  s += "type " + std::to_string(c.tid) + " " + g_types[static_cast<size_t>(c.tid)].name + "\n";
  if (!value_desc.empty()) s += "value " + esc(value_desc) + "\n";
  s += "tape";
  size_t n = c.mode == M_EXPECTED ? c.tape.size() : std::min(tape_used ? tape_used : c.tape.size(), c.tape.size());
  for (size_t i = 0; i < n; ++i) s += " " + std::to_string(c.tape[i]);
  s += "\nstate " + state_text(c.st) + "\nmode " + MODES[c.mode] + "\n";
  return s;
}

static void save_current(const CaseIn& c) {
  // the case about to run, so that a sanitizer abort leaves its input behind
  if (g_cur_fd < 0) {
    std::string path = A.faildir + "/cur_case." + std::to_string(getpid()) + ".txt";
    g_cur_fd = open(path.c_str(), O_CREAT | O_WRONLY | O_TRUNC, 0644);
    if (g_cur_fd < 0) return;
  }
  std::string t = case_text(c, "case in progress when the process ended", "", 0);
  if (pwrite(g_cur_fd, t.data(), t.size(), 0) == static_cast<ssize_t>(t.size())) { if (ftruncate(g_cur_fd, static_cast<off_t>(t.size())) != 0) {} }
}
static void drop_current() {
  if (g_cur_fd >= 0) { close(g_cur_fd); unlink((A.faildir + "/cur_case." + std::to_string(getpid()) + ".txt").c_str()); g_cur_fd = -1; }
}

static std::string rendering(const CaseIn& c, const CaseInfo& info) {
  return "type=" + g_types[static_cast<size_t>(c.tid)].name + " value=" + esc(info.value_desc) + " state=[" + state_text(c.st) + "] mode=" +
         MODES[info.e2e_done >= 0 ? info.e2e_done : 0];
}

static void account(const CaseIn& c, const CaseInfo& info, bool from_enum) {
  ST.evaluations++;
  const Out& o = info.o;
  int dims = nondefault_dims(c.st);
  bool nontrivial = dims >= 2 || o.maxdepth >= 2 || o.hex_nontrivial > 0;
  if (from_enum) {  // counted as distinct cases, but the few sample slots are left to the generated cases
    if (nontrivial) ST.nontrivial.insert(vc::fnv1a(rendering(c, info)));
    ST.label("enum_opaque_cases");
    return;
  }
  if (nontrivial) ST.nontrivial_case(vc::fnv1a(rendering(c, info)), rendering(c, info));
  static const char* const tops[] = {"top_streamable", "top_hexdump", "top_composite", "top_null", "top_user_printer"};
  ST.label(tops[info.top]);
  ST.label("depth_" + std::to_string(o.maxdepth > 3 ? 3 : o.maxdepth) + (o.maxdepth >= 3 ? "plus" : ""));
  if (o.nulls_deep) ST.label("cases_null_inside_composite");
  if (o.nulls_deep2) ST.label("cases_null_at_depth_2plus");
  if (o.hexdumps_deep) ST.label("cases_hexdump_inside_composite");
  if (o.user_printed) ST.label("cases_with_user_printer");
  if (o.has_ows) ST.label("cases_with_setw_inside_operator<<");
  ST.label(dims == 0 ? "prior_state_default" : dims == 1 ? "prior_state_1_dim" : "prior_state_2plus_dims");
  if (c.st.width > 0) ST.label("prior_width_gt0");
  if (c.st.base == 1) ST.label("prior_base_hex");
  if (c.st.base == 2) ST.label("prior_base_oct");
  if (c.st.fill != 0) ST.label("prior_fill_nonblank");
  if (c.st.adj == 3) ST.label("prior_adjust_internal");
  if (info.restoration_asserted) ST.label("restoration_flags_fill_width_asserted");
  if (info.padded_first_token) ST.label("excl_first_token_padded_accepted");
  if (info.width_consumed) ST.label("excl_width_consumed_accepted");
  for (size_t n : o.hex_sizes) ST.label(n <= 8 ? "hexdump_size_1_8" : n % 16 == 0 ? "hexdump_size_16_32" : n < 16 ? "hexdump_size_9_15" : n < 32 ? "hexdump_size_17_31" : "hexdump_size_33_40");
  if (info.e2e_done == M_NOMATCH) ST.label("e2e_nomatch_report");
  if (info.e2e_done == M_TRACE) ST.label("e2e_trace_record");
  if (info.e2e_done == M_EXPECTED) ST.label("e2e_expected_value_line");
  if (info.e2e_done == M_RETURN) ST.label("e2e_traced_return_value");
  if (info.e2e_skipped_equal) ST.label("e2e_expected_skipped_values_equal");
  // nullable values that have a user rendering
  static const char* const how[] = {"printer", "operator<<"};
  for (int h = 0; h < 2; ++h) {
    if (o.nu_null[h][0]) ST.label(std::string("null_with_user_") + how[h] + "_top_level");
    if (o.nu_null[h][1]) ST.label(std::string("null_with_user_") + how[h] + "_inside_composite");
    if (o.nu_val[h][0]) ST.label(std::string("nonnull_with_user_") + how[h] + "_top_level");
    if (o.nu_val[h][1]) ST.label(std::string("nonnull_with_user_") + how[h] + "_inside_composite");
  }
  for (int sh = 0; sh < NU_SHAPES; ++sh) if (o.nu_shapes & (1u << sh)) ST.label(std::string("null_") + NU_SHAPE_NAMES[sh]);
  if (o.nu_nulls() && (o.nu_val[0][1] || o.nu_val[1][1])) ST.label("null_and_nonnull_user_rendered_in_one_composite");
  if (o.nu_nulls() && info.top == T_NULL && info.padded_first_token) ST.label("null_with_user_rendering_padded_accepted");
  if (o.nu_nulls() && info.e2e_done >= 0) ST.label(std::string("null_with_user_rendering_e2e_") + MODES[info.e2e_done]);
  if (info.e2e_expected_nu_nulls) ST.label("null_with_user_rendering_in_expected_value");
}

static bool run_case(const CaseIn& c, std::string* why, bool from_enum) {
  if (!from_enum) save_current(c);
  CaseInfo info;
  Verdict v = g_types[static_cast<size_t>(c.tid)].fn(c, info);
  account(c, info, from_enum);
  if (!v.ok) {
    if (why) *why = v.why;
    std::string path = A.faildir + "/s_fail." + A.prop + "." + std::to_string(getpid()) + ".txt";
    vc::write_file(path, case_text(c, v.why, info.value_desc, info.tape_used));
    g_last_fail = path;
    return false;
  }
  return true;
}

static int do_replay(const std::string& path, bool verbose) {
  std::istringstream in(vc::read_file(path));
  std::string line;
  CaseIn c;
  bool have_type = false, have_state = false;
  while (std::getline(in, line)) {
    if (line.empty() || line[0] == '#') continue;
    std::istringstream ls(line);
    std::string kw;
    ls >> kw;
    if (kw == "type") {
      long id = -1;
      std::string name;
      ls >> id >> name;
      c.tid = -1;
      for (size_t i = 0; i < g_types.size(); ++i) if (g_types[i].name == name) c.tid = static_cast<int>(i);
      if (c.tid < 0 && name.empty() && id >= 0 && id < static_cast<long>(g_types.size())) c.tid = static_cast<int>(id);
      if (c.tid < 0) { fprintf(stderr, "replay: unknown type in line: %s\n", line.c_str()); return 2; }
      have_type = true;
    } else if (kw == "tape") {
      std::string tok;
      while (ls >> tok) c.tape.push_back(strtoull(tok.c_str(), nullptr, 10));
    } else if (kw == "state") {
      std::string rest;
      std::getline(ls, rest);
      if (!parse_state(rest, c.st)) { fprintf(stderr, "replay: bad state line: %s\n", line.c_str()); return 2; }
      have_state = true;
    } else if (kw == "mode") {
      std::string m;
      ls >> m;
      c.mode = -1;
      for (int i = 0; i < 5; ++i) if (m == MODES[i]) c.mode = i;
      if (c.mode < 0) { fprintf(stderr, "replay: bad mode line: %s\n", line.c_str()); return 2; }
    } else if (kw == "value") {
      // informational
    } else { fprintf(stderr, "replay: bad line: %s\n", line.c_str()); return 2; }
  }
  if (!have_type || !have_state) { fprintf(stderr, "replay: %s lacks a type or state line\n", path.c_str()); return 2; }
  CaseInfo info;
  Verdict v = g_types[static_cast<size_t>(c.tid)].fn(c, info);
  account(c, info, false);
  if (verbose) {
    printf("case: %s\n", rendering(c, info).c_str());
    if (!v.ok) printf("%s\n", v.why.c_str());
    printf("replay %s: %s\n", path.c_str(), v.ok ? "passes" : "FAILS");
  }
  return v.ok ? 0 : 1;
}

// opaque sizes 1..40 x every prior stream state x 2 byte patterns
static bool run_enumeration(std::string* why, uint64_t* count) {
  for (int n = 1; n <= 40; ++n) {
    for (int pat = 0; pat < 2; ++pat) {
      CaseIn c;
      c.tid = g_first_opaque + n - 1;
      c.tape = {pat == 0 ? 0ULL : static_cast<uint64_t>(2 + 4 * n)};
      for (int base = 0; base < 3; ++base) for (int fill = 0; fill < 3; ++fill) for (int wi = 0; wi < 4; ++wi) for (int adj = 0; adj < 4; ++adj) for (int fl = 0; fl < 8; ++fl) {
        c.st.base = base; c.st.fill = fill; c.st.width = WIDTHS[wi]; c.st.adj = adj;
        c.st.showbase = fl & 1; c.st.uppercase = fl & 2; c.st.boolalpha = fl & 4;
        ++*count;
        if (!run_case(c, why, true)) return false;
      }
    }
  }
  return true;
}

int main(int argc, char** argv) {
  A = vc::parse_args(argc, argv);
  if (A.out.rfind("/dev/", 0) == 0) A.out.clear();  // Stats::write renames a temp file onto the path: never onto a device node
  if (A.prop.empty()) A.prop = "C18";
  if (A.prop != "C18") { fprintf(stderr, "engine S decides C18 only (got --prop %s)\n", A.prop.c_str()); return 2; }
  build_table();
  trompeloeil::set_reporter([](trompeloeil::severity sev, char const*, unsigned long, std::string const& msg) {
    g_reports.push_back(msg);
    if (sev == trompeloeil::severity::fatal) throw fatal_report{};
  });
  ST.rule = "rapidcheck picks one of " + std::to_string(g_types.size()) + " value types (scalars, strings, raw/smart pointers and optional<int*> incl. null, "
            "nullptr_t, std::function, pair, tuple<0..4>, vector/list/set/map/C arrays nested to depth 3, opaque<1..40>, printer<T> and operator<< types, "
            "and nullable types WITH a user rendering: printer<Widget*>, printer<T*, SFINAE> for (const) Gadget*, operator<< for Knob*, classes comparable with nullptr that have "
            "a printer<> / an operator<<, alone, in optional<> and nested to depth 3 -- a null prints nullptr and the user's code must not run), "
            "a tape of integers decoded into the value, and a prior stream state (base x fill x width{0,1,8,20} x adjust x showbase x uppercase x boolalpha); "
            "trompeloeil::print output, flags/fill/width afterwards and a probe insertion are compared with an independent renderer; a sample goes through "
            "no-match reports, Expected lines and tracer records. Non-trivial: prior state differs from a fresh stream in >=2 dimensions, or value depth >=2, "
            "or a hex dump of a size >8 that is not a multiple of 16. distinct = FNV-1a of type + abstracted value text + state + mode. "
            "Plus exhaustive: opaque sizes 1..40 x all 1152 prior states x 2 byte patterns";
  ST.assumptions.push_back("composites and null values: first token ('{ ' / 'nullptr') accepted padded to the prior width or unpadded; width restoration not asserted there (flags and fill are)");
  ST.assumptions.push_back("a setw() inside a user operator<< may pad on either side, but only with blanks");
  ST.assumptions.push_back("user printer<T> specialisations write unformatted; no restoration is asserted after them");
  ST.assumptions.push_back("optional<P> of a nullable type with a user rendering: engaged null prints nullptr, otherwise the optional object is hex-dumped (the element's printer does not run)");
  const bool quiet = A.has("quiet");
  if (!A.replay.empty()) {
    int rc = do_replay(A.replay, A.has("verbose") || !quiet);
    ST.write(A.out);
    return rc;
  }
  const std::string mode = A.get("mode", "all");
  if (mode != "all" && mode != "rc" && mode != "enum") { fprintf(stderr, "unknown --mode %s (all|rc|enum)\n", mode.c_str()); return 2; }
  bool ok = true;
  if (mode != "enum") {
    const int n_basic = g_first_opaque;
    std::vector<int> e2e_types;
    for (size_t i = 0; i < g_types.size(); ++i) if (g_types[i].e2e) e2e_types.push_back(static_cast<int>(i));
    ok = rc::check("C18 value printing", [&]() {
      CaseIn c;
      using namespace rc::gen;
      int cat = *resize(100, inRange<int>(0, 10));
      if (cat == 7) c.tid = g_first_opaque + *resize(100, inRange<int>(0, 40));
      else if (cat >= 8) c.tid = g_first_nullable_user + *resize(100, inRange<int>(0, static_cast<int>(g_types.size()) - g_first_nullable_user));
      else c.tid = *resize(100, inRange<int>(0, n_basic));
      c.tape = *container<std::vector<uint64_t>>(arbitrary<uint64_t>());
      c.st.base = *resize(100, inRange<int>(0, 3));
      c.st.fill = *resize(100, inRange<int>(0, 3));
      c.st.width = WIDTHS[*resize(100, inRange<int>(0, 4))];
      c.st.adj = *resize(100, inRange<int>(0, 4));
      int fl = *resize(100, inRange<int>(0, 8));
      c.st.showbase = fl & 1; c.st.uppercase = fl & 2; c.st.boolalpha = fl & 4;
      int m = *resize(100, inRange<int>(0, 8));
      c.mode = m < 4 ? M_PRINT : m - 3;
      // end-to-end modes only do something for the sample types: steer half of those cases to them
      int pick = *resize(100, inRange<int>(0, 2 * static_cast<int>(e2e_types.size())));
      if (c.mode != M_PRINT && pick < static_cast<int>(e2e_types.size())) c.tid = e2e_types[static_cast<size_t>(pick)];
      std::string why;
      if (!run_case(c, &why, false)) RC_FAIL(why);
    });
  }
  if (ok && mode != "rc") {
    std::string why;
    uint64_t count = 0;
    bool eok = run_enumeration(&why, &count);
    ST.extra_json["exhaustive_opaque_scope"] = std::string("{\"sizes\": \"1..40\", \"prior_states\": 1152, \"byte_patterns\": 2, \"cases\": ") + std::to_string(count) +
                                               ", \"complete\": " + (eok ? "true" : "false") + "}";
    if (!eok) {
      ok = false;
      if (!quiet) fprintf(stderr, "exhaustive opaque enumeration failed:\n%s\n", why.c_str());
    }
  }
  if (!ok && !g_last_fail.empty()) ST.violations.push_back({g_last_fail, "oracle disagreement (see replay header)"});
  if (ok) drop_current();
  ST.write(A.out);
  return ok ? 0 : 1;
}

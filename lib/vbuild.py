"""Content-addressed builder: every object is keyed by a hash of /repo/include (as it is now), the
harness sources and the flags, so a check always runs code compiled from the tree it was handed
and pays for a compile only when something changed."""
import hashlib, os, subprocess, sys, glob, shutil, threading
from concurrent.futures import ThreadPoolExecutor

VERIF = os.path.dirname(os.path.dirname(os.path.abspath(__file__)))
REPO = os.environ.get("VERIF_REPO", "/repo")
# one build directory per tree under test, so that concurrent runs against scratch worktrees
# (development tools) never replace each other's binaries
BUILD = os.path.join(VERIF, "build") if REPO == "/repo" else os.path.join(VERIF, "build", "alt-" + os.environ.get("VERIF_BUILD_TAG", hashlib.sha256(REPO.encode()).hexdigest()[:10]))
H = os.path.join(VERIF, "harness")

SAN = "-fsanitize=address,undefined -fno-sanitize-recover=undefined"
COMMON = "-g -O1 -fno-omit-frame-pointer -Wno-deprecated-declarations"
# The library's internal assertions (TROMPELOEIL_SANITY_CHECKS) join the oracle in the clang++ rapidcheck builds. The g++
# builds, the libFuzzer build and the owned-schedule build of engine T are compiled the way users compile: without them
# (an assertion's operand must not be what makes the library work).
def sanity_flag(name):
    return "" if (name.endswith("_gcc") or name in ("w_fuzz", "t_asan")) else "-DTROMPELOEIL_SANITY_CHECKS"

def W_sources(cxx):
    srcs = [dict(src="world/real.cpp"), dict(src="world/lit.cpp"), dict(src="world/scoped.cpp")]
    for k in range(8):
        srcs.append(dict(src="world/site.cpp", defs='-DSLOT=%d -DSLOTFILE=\'"w_slot%d.site"\'' % (k, k), tag="slot%d" % k))
    return srcs

TARGETS = {
    # engine W, rapidcheck driver
    "w_rc": dict(cxx="clang++", std="c++17", flags=SAN, srcs=lambda: W_sources("clang++") + [dict(src="world/w_main.cpp")], libs="-lrapidcheck"),
    "w_rc_gcc": dict(cxx="g++", std="c++20", flags=SAN, srcs=lambda: W_sources("g++") + [dict(src="world/w_main.cpp")], libs="-lrapidcheck"),
    "w_fuzz": dict(cxx="clang++", std="c++17", flags="-fsanitize=fuzzer-no-link,address,undefined -fno-sanitize-recover=undefined",
                   srcs=lambda: W_sources("clang++") + [dict(src="world/w_fuzz.cpp")], libs="", link_flags="-fsanitize=fuzzer,address,undefined"),
    # single-TU rapidcheck engines
    "s_rc": dict(cxx="clang++", std="c++17", flags=SAN, srcs=[dict(src="printing/s_main.cpp")], libs="-lrapidcheck"),
    "s_rc_gcc": dict(cxx="g++", std="c++23", flags=SAN, srcs=[dict(src="printing/s_main.cpp")], libs="-lrapidcheck"),
    "m_rc": dict(cxx="clang++", std="c++17", flags=SAN, srcs=[dict(src="matchers/m_main.cpp")], libs="-lrapidcheck"),
    "m_rc_gcc": dict(cxx="g++", std="c++20", flags=SAN, srcs=[dict(src="matchers/m_main.cpp")], libs="-lrapidcheck"),
    "r_rc": dict(cxx="clang++", std="c++17", flags=SAN, srcs=[dict(src="ranges/r_main.cpp")], libs="-lrapidcheck"),
    "r_rc_gcc": dict(cxx="g++", std="c++20", flags=SAN, srcs=[dict(src="ranges/r_main.cpp")], libs="-lrapidcheck"),
    "c8_rc": dict(cxx="clang++", std="c++17", flags=SAN, srcs=[dict(src="clauses/c8_main.cpp")], libs="-lrapidcheck"),
    "c8_rc_gcc": dict(cxx="g++", std="c++20", flags=SAN, srcs=[dict(src="clauses/c8_main.cpp")], libs="-lrapidcheck"),
    # engine Q: the single source is compiled in 8 parts (its own -DQ_PARTS / -DQ_PART split of the site table) and linked
    "q_rc": dict(cxx="clang++", std="c++20", flags=SAN, srcs=[dict(src="coro/q_main.cpp", defs="-DQ_PARTS=8 -DQ_PART=%d" % k, tag="part%d" % k) for k in range(8)], libs="-lrapidcheck"),
    "q_rc_gcc": dict(cxx="g++", std="c++20", flags=SAN, srcs=[dict(src="coro/q_main.cpp", defs="-DQ_PARTS=8 -DQ_PART=%d" % k, tag="part%d" % k) for k in range(8)], libs="-lrapidcheck"),
    # engine T (threads): same source, ThreadSanitizer build (mode A) and ASan build (modes B, E)
    "t_tsan": dict(cxx="clang++", std="c++17", flags="-fsanitize=thread", srcs=[dict(src="threads/t_main.cpp")], libs="-lrapidcheck"),
    "t_tsan_gcc": dict(cxx="g++", std="c++20", flags="-fsanitize=thread", srcs=[dict(src="threads/t_main.cpp")], libs="-lrapidcheck"),
    "t_tsan_std": dict(cxx="clang++", std="c++17", flags="-fsanitize=thread", cflags="-DT_STD_MUTEX", srcs=[dict(src="threads/t_main.cpp")], libs="-lrapidcheck"),
    "t_asan": dict(cxx="clang++", std="c++17", flags=SAN, srcs=[dict(src="threads/t_main.cpp")], libs="-lrapidcheck"),
}

_lock = threading.Lock()
_target_locks = {}

def _tlock(name):
    with _lock:
        return _target_locks.setdefault(name, threading.Lock())

def _tree_hash():
    h = hashlib.sha256()
    inc = os.path.join(REPO, "include")
    for root, dirs, files in sorted(os.walk(inc)):
        dirs.sort()
        for f in sorted(files):
            p = os.path.join(root, f)
            h.update(os.path.relpath(p, inc).encode())
            with open(p, "rb") as fh:
                h.update(hashlib.sha256(fh.read()).digest())
    return h.hexdigest()

def _harness_hash(subdirs):
    h = hashlib.sha256()
    for d in sorted(set(subdirs) | {"common"}):
        for p in sorted(glob.glob(os.path.join(H, d, "*"))):
            if os.path.isfile(p):
                h.update(p.encode())
                with open(p, "rb") as fh:
                    h.update(fh.read())
    return h.hexdigest()

class BuildFailed(SystemExit):
    """an engine does not compile / link against the tree under test (exit status 3 when nobody handles it)"""
    def __init__(self, cmd, output):
        SystemExit.__init__(self, 3)
        self.cmd, self.output = cmd, output

def _run(cmd, log):
    r = subprocess.run(cmd, shell=True, stdout=subprocess.PIPE, stderr=subprocess.STDOUT, text=True)
    if r.returncode != 0:
        sys.stderr.write("BUILD FAILED: %s\n%s\n" % (cmd, r.stdout[-6000:]))
        raise BuildFailed(cmd, r.stdout)
    return r.stdout

def build(name, jobs=None, quiet=True):
    """Returns the path of the up-to-date binary for target `name` (one thread at a time per target)."""
    with _tlock(name):
        return _build(name, jobs, quiet)

def _build(name, jobs=None, quiet=True):
    t = TARGETS[name]
    os.makedirs(os.path.join(BUILD, "obj"), exist_ok=True)
    srcs = t["srcs"]() if callable(t["srcs"]) else t["srcs"]
    th = _tree_hash()
    hh = _harness_hash([os.path.dirname(s["src"]) for s in srcs])
    base = "%s -std=%s %s %s %s -I%s/include -I%s %s" % (t["cxx"], t["std"], COMMON, sanity_flag(name), t["flags"], REPO, H, t.get("cflags", ""))
    objs = []
    todo = []
    for s in srcs:
        key = hashlib.sha256(("%s|%s|%s|%s|%s" % (base, s["src"], s.get("defs", ""), th, hh)).encode()).hexdigest()[:20]
        tag = s.get("tag") or os.path.splitext(os.path.basename(s["src"]))[0]
        obj = os.path.join(BUILD, "obj", "%s.%s.%s.o" % (name, tag, key))
        objs.append(obj)
        if not os.path.exists(obj):
            # remove stale objects of this (target, tag)
            for old in glob.glob(os.path.join(BUILD, "obj", "%s.%s.*.o" % (name, tag))):
                try: os.remove(old)
                except OSError: pass
            cmd = "%s %s -c %s -o %s.tmp%d && mv %s.tmp%d %s" % (base, s.get("defs", ""), os.path.join(H, s["src"]), obj, os.getpid(), obj, os.getpid(), obj)
            todo.append(cmd)
    lk = hashlib.sha256(("|".join(objs) + t.get("libs", "") + t.get("link_flags", "")).encode()).hexdigest()[:20]
    exe = os.path.join(BUILD, "%s.%s" % (name, lk))
    if todo or not os.path.exists(exe):
        if not quiet:
            sys.stderr.write("[build] %s: %d objects to compile\n" % (name, len(todo)))
        with ThreadPoolExecutor(max_workers=jobs or os.cpu_count()) as ex:
            list(ex.map(lambda c: _run(c, None), todo))
        for old in glob.glob(os.path.join(BUILD, "%s.*" % name)):
            if old != exe and not old.endswith(".o") and os.path.isfile(old) and os.path.basename(old).split(".")[0] == name and len(os.path.basename(old).split(".")) == 2:
                try: os.remove(old)
                except OSError: pass
        link = "%s %s %s -o %s.tmp%d %s && mv %s.tmp%d %s" % (t["cxx"], t.get("link_flags", t["flags"]), " ".join(objs), exe, os.getpid(), t.get("libs", ""), exe, os.getpid(), exe)
        _run(link, None)
    return exe

def build_many(names, quiet=False):
    out = {}
    # objects of different targets compile concurrently; each build() parallelises its own TUs
    with ThreadPoolExecutor(max_workers=4) as ex:
        for n, p in zip(names, ex.map(lambda n: build(n, quiet=quiet), names)):
            out[n] = p
    return out

if __name__ == "__main__":
    names = sys.argv[1:] or list(TARGETS)
    if names == ["all"]:
        names = list(TARGETS)
    for n, p in build_many(names).items():
        print(n, p)

"""Text that goes into MANIFEST.json."""
W_NOTE = ("Trusted: the reference model in harness/world/wmodel.hpp (written from the property statements), the report "
          "classifier (leading words of each report kind), the conforming reporter, g++/clang++ and their sanitizers. "
          "Search, not proof: a green run means no counter-example among the generated histories.")
def w(text, ref):
    return dict(engine="W (world histories, rapidcheck + reference model)", level_text=text, design_ref=ref, level_note=W_NOTE,
                technique="property-based testing: stateful/model-based generation (rapidcheck) against a reference model, sanitizers on")
META = {
 "C01": w("Randomised model-based exploration of histories of create/expire/move/call; acceptance and the no-op nature of rejected calls are compared with the model after every step.", "DESIGN.md 5/C01"),
 "C02": w("Exploration of overlapping expectations in all creation orders with sequences; the handler identity (returned id / thrown id / clause log) must be the model's designated candidate and nothing else may change.", "DESIGN.md 5/C02"),
 "C03": w("Exploration of all bound shapes (RT_TIMES data-driven, compile-time spellings at literal sites) with flags queried after every step.", "DESIGN.md 5/C03"),
 "C04": w("Exploration of every order of release / mock death / mock move / earlier reports; the multiset of end-of-life reports must equal the model's.", "DESIGN.md 5/C04"),
 "C05": w("Exploration of sequenced expectations and destruction monitors over up to 3 sequences; eligibility, single fatal report, forward-only progress (also as a model-independent history invariant).", "DESIGN.md 5/C05"),
 "C06": w("is_completed() compared with the model after every operation; sequence teardown listing compared in registration order.", "DESIGN.md 5/C06"),
 "C07": w("Exploration of stacks of allowing/forbidding expectations; one fatal forbidden report with location and arguments, no action, no state change.", "DESIGN.md 5/C07"),
 "C08": w("Clause log (side effects, RETURN/THROW, WITH) compared with the model's expected evaluation order, including throwing and nested calls.", "DESIGN.md 5/C08"),
 "C09": dict(engine='P (generated parameter-passing programs, Hypothesis)', design_ref='DESIGN.md 5/C09',
             level_text='Generated programs cover every arity 0..15 x passing mode x position x const/overload/interface kind; the oracle (address identity, copy/move counters, caller-visible writes, capture semantics) runs inside the generated clauses under ASan/UBSan.',
             level_note='Trusted: the generator/oracle in harness/params, g++/clang++ and their sanitizers.',
             technique='property-based testing: Hypothesis-generated programs with the oracle embedded in the clauses; compilers and sanitizers as part of the SUT'),
 "C10": dict(engine='M (matcher trees, rapidcheck)', design_ref='DESIGN.md 5/C10',
             level_text="Random and exhaustively enumerated matcher expression trees built from the library's matchers are evaluated on whole value domains and compared with an independent evaluator; algebraic laws; end-to-end through mock calls.",
             level_note='Trusted: the independent evaluator in harness/matchers/m_main.cpp, std::regex as the regex oracle, sanitizers.',
             technique='property-based testing: rapidcheck-generated expression trees against an independent evaluator, algebraic (metamorphic) laws, bounded exhaustive enumeration'),
 "C11": dict(engine='R (range matchers, exhaustive + rapidcheck)', design_ref='DESIGN.md 5/C11',
             level_text='Exhaustive small scope of ranges x element lists x spellings x container kinds plus random longer cases against multiset / prefix / suffix / quantifier semantics and a nondeterministic first-fit oracle.',
             level_note='Trusted: the oracle in harness/ranges/r_main.cpp, sanitizers.',
             technique='property-based testing: bounded exhaustive enumeration and rapidcheck generation against an independent oracle'),
 "C19": dict(engine='K (generated compile-time programs, Hypothesis; compilers as SUT)', design_ref='DESIGN.md 5/C19 + Appendix A',
             level_text='Shipped negative programs, macro-namespace dump and Hypothesis-generated legal / single-fault / multi-fault expectation statements checked against a 45-row rule table at C++14/17/20 with g++ and clang++.',
             level_note='Trusted: the rule table in harness/compile/rules.py (derived from documentation and static_assert texts), g++ 12 / clang++ 14.',
             technique='property-based testing: grammar-based program generation (Hypothesis) with a rule-engine oracle; compilers as the system under test'),
 "C20": dict(engine='Q (coroutines, rapidcheck, C++20)', design_ref='DESIGN.md 5/C20',
             level_text='Generated clause lists, call counts and resume interleavings over eager and lazy task/generator types against a per-coroutine-object script oracle, under ASan (incl. stack-use-after-return) and UBSan.',
             level_note='Trusted: the model in harness/coro/q_main.cpp, own minimal coroutine types, sanitizers.',
             technique='property-based testing: rapidcheck-generated cases against a reference model, sanitizers on'),
 "C12": dict(engine="T (threads: TSan free-running + owned schedules)", design_ref="DESIGN.md 5/C12",
             level_text="Generated multi-threaded programs run under ThreadSanitizer (races), under generated and exhaustively enumerated lock-order schedules (custom mutex), each checked for linearizability against a sequential model in lock order.",
             level_note="Trusted: ThreadSanitizer, the custom-mutex shim (documented TROMPELOEIL_CUSTOM_RECURSIVE_MUTEX), the sequential model in harness/threads/t_main.cpp. TSan sees races only on executions that happen; mode B/E explore lock-order interleavings only.",
             technique="property-based testing of concurrent programs: rapidcheck-generated programs and schedules, ThreadSanitizer, linearizability check against a sequential model"),
 "C18": dict(engine="S (printing, rapidcheck + independent renderer)", design_ref="DESIGN.md 5/C18",
             level_text="Generated values of 124 types under generated prior stream states are printed through trompeloeil::print, reports and traces and compared with an independent renderer; stream state restoration is checked; opaque sizes 1..40 x all states exhaustively.",
             level_note="Trusted: the independent renderer in harness/printing/s_main.cpp, libstdc++ iostreams for the probe, sanitizers.",
             technique="property-based testing: rapidcheck-generated values and stream states against an independent renderer, bounded exhaustive enumeration"),
 "C13": w("Exploration of watch/unwatch/destroy/copy/move/assign histories over three deathwatched objects with up to two requirements each.", "DESIGN.md 5/C13"),
 "C14": w("Destruction/move orders of every kind of object under ASan/UBSan/LSan with library sanity asserts, the model checking behaviour on survivors.", "DESIGN.md 5/C14"),
 "C15": w("Every report produced in the explored histories is checked for severity by origin, culprit location, listing and argument values.", "DESIGN.md 5/C15"),
 "C16": w("One OK report per accepted call with the handler's text, none for rejected calls; set_reporter hand-back checked by probing.", "DESIGN.md 5/C16"),
 "C17": w("Trace records compared per accepted call: innermost tracer, handler location/text, arguments in order, value / what() / unknown.", "DESIGN.md 5/C17"),
}
NOT_APPLICABLE = {
}
ENGINES = [
 dict(name="W", path="harness/world", serves_properties=["C01","C02","C03","C04","C05","C06","C07","C08","C13","C14","C15","C16","C17"],
      kind_free_text="rapidcheck stateful generation of API histories, interpreted against the real library and a reference model; ASan+UBSan"),
]
ENGINES.append(dict(name="T", path="harness/threads", serves_properties=["C12"], kind_free_text="rapidcheck-generated thread programs; TSan build (free running) and ASan build (owned / enumerated schedules) through the custom recursive mutex"))
ENGINES.append(dict(name="S", path="harness/printing", serves_properties=["C18"], kind_free_text="rapidcheck over a closed family of 149 value types x prior stream states, independent renderer"))
ENGINES.append(dict(name="M", path="harness/matchers", serves_properties=["C10"], kind_free_text="rapidcheck matcher trees + exhaustive depth-2 scope, independent evaluator"))
ENGINES.append(dict(name="R", path="harness/ranges", serves_properties=["C11"], kind_free_text="exhaustive small scope + rapidcheck, independent range oracle"))
ENGINES.append(dict(name="C8", path="harness/clauses", serves_properties=["C08"], kind_free_text="rapidcheck over 108 literal clause sites, recursive interpreter oracle"))
ENGINES.append(dict(name="Q", path="harness/coro", serves_properties=["C20"], kind_free_text="rapidcheck over coroutine sites, C++20, both compilers"))
ENGINES.append(dict(name="P", path="harness/params", serves_properties=["C09"], kind_free_text="Hypothesis-generated translation units compiled and run under ASan/UBSan"))
ENGINES.append(dict(name="K", path="harness/compile", serves_properties=["C19"], kind_free_text="Hypothesis-generated programs, shipped negatives and macro dumps; g++/clang++ -fsyntax-only at C++14/17/20"))

"""Driver behind bin/check: replay tier, generated tier, crash triage, confirmation, evidence."""
import array, glob, hashlib, json, os, shutil, subprocess, sys, time
from concurrent.futures import ThreadPoolExecutor

sys.path.insert(0, os.path.dirname(os.path.abspath(__file__)))
import vbuild
import vprops
from vprops import PROPS, FINDINGS_FILE

VERIF = vbuild.VERIF
CRASH_RC = 77
SAN_ENV = {
    "ASAN_OPTIONS": "exitcode=%d:detect_leaks=1:abort_on_error=0:allocator_may_return_null=1:detect_stack_use_after_return=1" % CRASH_RC,
    "UBSAN_OPTIONS": "exitcode=%d:halt_on_error=1:print_stacktrace=1" % CRASH_RC,
    "LSAN_OPTIONS": "exitcode=%d" % CRASH_RC,
    "TSAN_OPTIONS": "exitcode=%d:halt_on_error=1:second_deadlock_stack=1" % CRASH_RC,
}

def log(*a):
    print(*a, flush=True)

def derive_seed(seed, idx):
    s = (int(seed) * 1000003 + idx * 7919 + 17) % 2147483647
    return s or 1

def run(cmd, env=None, timeout=None, cwd=None):
    e = dict(os.environ)
    e.update(SAN_ENV)
    if env:
        e.update(env)
    t0 = time.time()
    try:
        r = subprocess.run(cmd, env=e, cwd=cwd or VERIF, stdout=subprocess.PIPE, stderr=subprocess.STDOUT, text=True, timeout=timeout, errors="replace")
        return r.returncode, r.stdout, time.time() - t0
    except subprocess.TimeoutExpired as ex:
        out = ex.stdout if isinstance(ex.stdout, str) else (ex.stdout or b"").decode(errors="replace")
        return -9, out + "\n[timeout]", time.time() - t0

def load_findings():
    finds, fixed = [], []
    p = os.path.join(VERIF, FINDINGS_FILE)
    if os.path.exists(p):
        for line in open(p):
            line = line.strip()
            if line.startswith("finding:"):
                kv = dict(x.split("=", 1) for x in line.split()[1:3])
                finds.append(dict(prop=kv.get("property"), key=kv.get("key"), text=" ".join(line.split()[3:])))
            elif line.startswith("fixed:"):
                fixed.append(line)
    return finds, fixed

class Check:
    def __init__(self, prop, tier, seed, replay=None):
        self.prop, self.tier, self.seed, self.replay_only = prop, tier, int(seed), replay
        self.cfg = PROPS[prop]
        self.rundir = os.path.join(vbuild.BUILD, "run", prop)
        shutil.rmtree(self.rundir, ignore_errors=True)
        os.makedirs(self.rundir, exist_ok=True)
        self.violations = []   # (replay path, message)
        self.known = []
        self.notes = []
        self.stats = []        # per job json
        self.hashes = set()
        self.inconclusive = []

    # ---- helpers ---------------------------------------------------------------------
    def exe(self, target):
        return vbuild.build(target, quiet=True) if target else None

    def replay_cmd(self, job, path):
        return job["replay"](self.exe(job["target"]), self.prop, path)

    def confirm(self, job, path, times=3):
        """A violation is reported only when the saved case fails every time."""
        fails = 0
        out = ""
        for _ in range(times):
            rc, out, _ = run(self.replay_cmd(job, path), env=job.get("env"), timeout=job.get("replay_timeout", 300))
            if rc in (1, CRASH_RC) or rc < 0 and rc != -9:
                fails += 1
        return fails == times, out

    def ddmin_crash(self, job, path):
        """Delta-debug an operation list that makes a sanitizer fire (rapidcheck cannot shrink through an abort)."""
        lines = open(path).read().splitlines()
        head = []
        for l in lines:
            if l.startswith("#") and l not in head and "minimised by delta debugging" not in l:
                head.append(l)
        ops = [l for l in lines if l and not l.startswith("#")]
        def crashes(cand):
            p = path + ".dd"
            open(p, "w").write("\n".join(head + cand) + "\n")
            rc, _, _ = run(self.replay_cmd(job, p), env=job.get("env"), timeout=120)
            return rc == CRASH_RC or rc < 0 and rc != -9
        if not crashes(ops):
            return path
        n = 2
        while len(ops) >= 2:
            chunk = max(1, len(ops) // n)
            reduced = False
            for i in range(0, len(ops), chunk):
                cand = ops[:i] + ops[i + chunk:]
                if cand and crashes(cand):
                    ops, n, reduced = cand, max(n - 1, 2), True
                    break
            if not reduced:
                if chunk == 1:
                    break
                n = min(len(ops), n * 2)
        out = path + ".min"
        open(out, "w").write("\n".join(head + ["# minimised by delta debugging (sanitizer abort)"] + ops) + "\n")
        return out

    def keep(self, path, msg):
        data = open(path, "rb").read()
        h = hashlib.sha256(data).hexdigest()[:12]
        d = os.path.join(VERIF, "replays", self.prop)
        if os.environ.get("VERIF_SCRATCH"):
            d = os.path.join(VERIF, "build", "scratch", "replays", self.prop)
        os.makedirs(d, exist_ok=True)
        ext = os.path.splitext(path)[1] if os.path.splitext(path)[1] in (".txt", ".json", ".cpp", ".bin") else ".txt"
        dst = os.path.join(d, "found-%s%s" % (h, ext))
        if not os.path.exists(dst):
            open(dst, "wb").write(data)
        # the replay header carries the explanation written by the engine
        why = [l[2:] for l in data.decode(errors="replace").splitlines()[:12] if l.startswith("# ") and not l.startswith("# engine=") and not l.startswith("# perm=")]
        if why:
            msg = (msg + " :: " if msg and "see replay header" not in msg else "") + " / ".join(why)[:600]
        self.violations.append((dst, msg))

    # ---- tiers -----------------------------------------------------------------------
    def replay_tier(self, finding_keys):
        d = os.path.join(VERIF, "replays", self.prop)
        files = sorted(glob.glob(os.path.join(d, "*")))
        n = 0
        for f in files:
            base = os.path.basename(f)
            job = self.job_for_replay(f)
            if job is None:
                continue
            n += 1
            rc, out, _ = run(self.replay_cmd(job, f), env=job.get("env"), timeout=job.get("replay_timeout", 300))
            if rc == 0:
                continue
            if rc not in (1, CRASH_RC) and not (rc < 0 and rc != -9):
                self.inconclusive.append("replay %s: rc=%d" % (base, rc))
                continue
            ok, out = self.confirm(job, f)
            if not ok:
                self.notes.append("replay %s failed once but not 3/3: ignored" % base)
                continue
            key = base[len("finding-"):].rsplit(".", 1)[0] if base.startswith("finding-") else None
            if key and key in finding_keys:
                self.known.append((key, finding_keys[key]))
            else:
                self.violations.append((f, (out.strip().splitlines() or ["replay fails"])[0][:300]))
        return n

    def job_for_replay(self, path):
        """Pick the job (engine) that understands this replay file: first comment line names the engine."""
        try:
            first = open(path, errors="replace").readline()
        except OSError:
            return None
        if "engine=JOB" in first:
            return self.job_pseudo(path)
        if "engine=BUILD" in first:
            spec = json.loads([l for l in open(path).read().splitlines() if l.startswith("{")][0])
            return dict(name="build", target=None, replay=lambda exe, prop, p: ["bash", "-c", spec["cmd"].replace("{repo}", vbuild.REPO)], replay_timeout=1200)
        for job in self.cfg["jobs"]:
            tag = job.get("engine_tag")
            if tag and ("engine=" + tag) in first:
                return job
        return self.cfg["jobs"][0] if self.cfg["jobs"] else None

    def gen_tier(self, excluded):
        jobs = []
        idx = 0
        for job in self.cfg["jobs"]:
            for inst in job["instances"](self.tier):
                idx += 1
                jobs.append((idx, job, inst))
        targets = sorted({j["target"] for _, j, _ in jobs if j.get("target")})
        for t in targets:
            self.exe(t)
        def one(item):
            i, job, inst = item
            out = os.path.join(self.rundir, "job%d.json" % i)
            seed = derive_seed(self.seed, i)
            cmd, env = job["cmd"](self.exe(job["target"]) if job.get("target") else None, self.prop, self.tier, seed, inst, out, self.rundir, excluded)
            rc, text, dt = run(cmd, env=env, timeout=job.get("timeout", {}).get(self.tier, 3600))
            open(os.path.join(self.rundir, "job%d.log" % i), "w").write(text)
            self.jobcmd[i] = (cmd, env)
            return i, job, inst, rc, text, dt, out
        par = self.cfg.get("parallel", {}).get(self.tier, 8)
        with ThreadPoolExecutor(max_workers=par) as ex:
            results = list(ex.map(one, jobs))
        for i, job, inst, rc, text, dt, out in results:
            js = None
            if os.path.exists(out):
                try:
                    js = json.load(open(out))
                except Exception:
                    js = None
            if js:
                js["_job"] = "%s %s" % (job.get("name", job.get("target")), inst.get("label", ""))
                js["_wall"] = dt
                self.stats.append(js)
                hp = out + ".hashes"
                if os.path.exists(hp):
                    a = array.array("Q")
                    data = open(hp, "rb").read()
                    a.frombytes(data[: len(data) // 8 * 8])
                    self.hashes.update(a)
            if rc == 0:
                continue
            if rc == -9:
                self.inconclusive.append("job %d (%s): time budget hit (inconclusive, not a violation)" % (i, job.get("name")))
                continue
            if rc == 1 and js and js.get("violations"):
                for v in js["violations"]:
                    ok, rout = self.confirm(job, v["replay"])
                    if ok:
                        self.keep(v["replay"], v.get("message", ""))
                    else:
                        jr = self.job_replay_file(i, job, 1, text)
                        if jr:
                            self.keep(jr[0], "oracle disagreement that needs the earlier cases of the same process (whole job as replay): " + jr[1])
                        else:
                            self.notes.append("job %d: failure did not reproduce 3/3 from %s nor by re-running the job; not reported" % (i, v["replay"]))
                continue
            if rc == CRASH_RC or rc < 0 or rc == 1:
                # sanitizer abort / crash: the engine saves the case it is about to run
                cur = job.get("current_case", lambda rundir, pid_glob: None)(self.rundir, i)
                cands = sorted(glob.glob(os.path.join(self.rundir, "cur_case.*")), key=os.path.getmtime)
                picked = None
                for c in reversed(cands):
                    rc2, _, _ = run(self.replay_cmd(job, c), env=job.get("env"), timeout=120)
                    if rc2 == CRASH_RC or (rc2 < 0 and rc2 != -9) or rc2 == 1:
                        picked = c
                        break
                if picked:
                    m = self.ddmin_crash(job, picked)
                    ok, rout = self.confirm(job, m)
                    if ok:
                        tail = [l for l in text.splitlines() if "ERROR" in l or "runtime error" in l or "SUMMARY" in l]
                        self.keep(m, "sanitizer/crash: " + (tail[0][:200] if tail else "rc=%d" % rc))
                        continue
                jr = self.job_replay_file(i, job, rc, text) if rc != 1 else None
                if jr:
                    self.keep(jr[0], "sanitizer/crash (whole job, not reproducible from one case): " + jr[1])
                    continue
                self.inconclusive.append("job %d (%s) ended rc=%d and no saved case reproduces it; log build/run/%s/job%d.log" % (i, job.get("name"), rc, self.prop, i))
                self.harness_error = True
                continue
            if rc == 70 and "fuzz" in (job.get("target") or ""):
                # libFuzzer's per-input timeout (exit status 70): a time budget hit on a loaded machine, never a violation
                self.inconclusive.append("job %d (%s): libFuzzer per-input time limit hit (inconclusive, not a violation)" % (i, job.get("name")))
                continue
            self.inconclusive.append("job %d rc=%d" % (i, rc))
            self.harness_error = True

    harness_error = False
    jobcmd = {}

    # ---- whole-job reproduction ------------------------------------------------------
    # A crash that the case in progress does not reproduce on its own (something an earlier case of the same process left
    # behind) is still deterministic: the generators are pure functions of the seed. The job is run a second time; if it
    # ends the same way, the job itself (engine, arguments, environment) is saved as the replay file.
    def job_replay_file(self, i, job, rc, text):
        cmd, env = self.jobcmd.get(i, (None, None))
        if not cmd or not job.get("target") or "fuzz" in job.get("target", ""):
            return None
        rc2, text2, _ = run(cmd, env=env, timeout=job.get("timeout", {}).get(self.tier, 3600))
        if rc == 1:
            # an oracle disagreement whose shrunk case passes in a fresh process (the library carries something over from
            # earlier cases of the process): deterministic if the job fails again
            if rc2 != 1:
                return None
        elif not (rc2 == CRASH_RC or (rc2 < 0 and rc2 != -9)):
            return None
        exe = self.exe(job["target"])
        args = ["{exe}" if a == exe else a.replace(self.rundir, "{rundir}") for a in cmd]
        tail = [l for l in text2.splitlines() if "ERROR" in l or "runtime error" in l or "SUMMARY" in l or "terminate called" in l or (rc == 1 and "] at op " in l)]
        body = "# engine=JOB prop=%s\n# the whole job is the reproduction: it ended abnormally twice (rc=%d, rc=%d) and the case in progress does not fail on its own\n# %s\n%s\n" % (
            self.prop, rc, rc2, (tail[0][:200] if tail else ""), json.dumps(dict(target=job["target"], args=args, env=env or {})))
        path = os.path.join(self.rundir, "job_fail.%d.txt" % i)
        open(path, "w").write(body)
        return path, (tail[0][:200] if tail else "rc=%d" % rc2)

    def job_pseudo(self, path):
        """replay 'job' for a saved whole-job reproduction"""
        spec = json.loads([l for l in open(path).read().splitlines() if l.startswith("{")][0])
        def replay(exe, prop, p):
            rd = vprops.replay_dir(prop)
            return [vbuild.build(spec["target"], quiet=True) if a == "{exe}" else a.replace("{rundir}", rd) for a in spec["args"]]
        return dict(name="whole job", target=None, replay=replay, env=spec.get("env") or None, replay_timeout=3600)

    # ---- evidence --------------------------------------------------------------------
    def write_evidence(self, wall, nreplays):
        ev = sum(s.get("evaluations", 0) for s in self.stats) + nreplays
        labels = {}
        samples = []
        assumptions = list(self.cfg.get("assumptions", []))
        per_job = []
        extra = {}
        for s in self.stats:
            for k, v in s.get("labels", {}).items():
                labels[k] = labels.get(k, 0) + v
            for x in s.get("samples", [])[:3]:
                if len(samples) < 10:
                    samples.append(x)
            for a in s.get("assumptions", []):
                if a not in assumptions:
                    assumptions.append(a)
            per_job.append(dict(job=s.get("_job"), evaluations=s.get("evaluations"), distinct_nontrivial=s.get("distinct_nontrivial"), wall_s=round(s.get("_wall", 0), 1), exhaustive=s.get("exhaustive", False)))
            for k, v in s.items():
                if k.startswith("x_"):
                    extra[k] = v
        if not samples:
            samples = ["(no generated case in this run)"]
        rule = self.cfg["rule"]
        cov = dict(evaluations=int(ev), distinct_nontrivial=len(self.hashes), rule=rule, samples=samples, labels=labels,
                   jobs=per_job, replay_files=nreplays, exhaustive=False,
                   exhaustive_subscopes=[j["job"] for j in per_job if j.get("exhaustive")],
                   inconclusive=self.inconclusive, notes=self.notes,
                   known_findings=[k for k, _ in self.known])
        cov.update(extra)
        doc = dict(property_id=self.prop, tier=self.tier, seed=self.seed, level=self.cfg.get("level", "exploration"), coverage=cov,
                   assumptions=assumptions, wall_s=round(wall, 2), violations=len(self.violations))
        evdir = os.path.join(VERIF, "evidence")
        if os.environ.get("VERIF_SCRATCH"):
            evdir = os.path.join(VERIF, "build", "scratch", "evidence")
        os.makedirs(evdir, exist_ok=True)
        p = os.path.join(evdir, "%s.json" % self.prop)
        tmp = p + ".tmp"
        json.dump(doc, open(tmp, "w"), indent=1)
        os.replace(tmp, p)
        return doc

    def main(self):
        t0 = time.time()
        finds, _ = load_findings()
        fk = {f["key"]: f["text"] for f in finds if f["prop"] == self.prop}
        if self.replay_only:
            job = self.job_for_replay(self.replay_only)
            rc, out, _ = run(self.replay_cmd(job, self.replay_only) + ["--verbose"], env=job.get("env"))
            print(out)
            return 1 if (rc in (1, CRASH_RC) or (rc < 0 and rc != -9)) else 0 if rc == 0 else 2
        try:
            nrep = self.replay_tier(fk)
            self.gen_tier(sorted(fk))
        except vbuild.BuildFailed as e:
            # The engines use documented forms only and compile against the unchanged tree: a tree on which they do not
            # compile has broken a documented form, and no history of this property can be run on it at all.
            nrep = 0
            first = [l for l in e.output.splitlines() if "error" in l][:1]
            cmd = e.cmd.split(" && mv ")[0]
            cmd = " ".join("/dev/null" if (i > 0 and t[i - 1] == "-o") else x for t in [cmd.split(" ")] for i, x in enumerate(t))
            path = os.path.join(self.rundir, "build_fail.txt")
            open(path, "w").write("# engine=BUILD prop=%s\n# an engine of this check (documented forms only) does not compile against the tree under test\n# %s\n%s\n" % (
                self.prop, first[0][:300] if first else "", json.dumps(dict(cmd=cmd.replace(vbuild.REPO + "/include", "{repo}/include")))))
            self.keep(path, "engine does not compile against this tree: " + (first[0][:300] if first else "see the replay file"))
        doc = self.write_evidence(time.time() - t0, nrep)
        for k, text in self.known:
            log("KNOWN-FINDING: property=%s %s" % (self.prop, text))
        for n in self.notes:
            log("note: " + n)
        for n in self.inconclusive:
            log("inconclusive: " + n)
        for path, msg in self.violations:
            log("VIOLATION property=%s replay=%s" % (self.prop, path))
            log("  " + msg.replace("\n", "\n  ")[:1500])
        log("%s %s tier=%s seed=%d evaluations=%d distinct_nontrivial=%d wall=%.1fs violations=%d" % (
            "FAIL" if self.violations else "ok", self.prop, self.tier, self.seed, doc["coverage"]["evaluations"], doc["coverage"]["distinct_nontrivial"], doc["wall_s"], len(self.violations)))
        if self.violations:
            return 1
        if self.harness_error:
            return 2
        return 0

def main(argv):
    import argparse
    ap = argparse.ArgumentParser()
    ap.add_argument("prop")
    ap.add_argument("--tier", default=os.environ.get("VERIF_TIER", "quick"))
    ap.add_argument("--seed", default=os.environ.get("VERIF_SEED", "1"))
    ap.add_argument("--replay")
    a = ap.parse_args(argv)
    if a.prop not in PROPS:
        print("unknown property", a.prop)
        return 2
    try:
        seed = int(a.seed)
    except ValueError:
        seed = 1
    return Check(a.prop, a.tier if a.tier in ("quick", "thorough") else "quick", seed, a.replay).main()

if __name__ == "__main__":
    sys.exit(main(sys.argv[1:]))

#!/usr/bin/env python3
"""Writes MANIFEST.json from the property tables (kept as a script so the manifest stays consistent)."""
import json, os, sys
sys.path.insert(0, os.path.dirname(os.path.abspath(__file__)))
from vprops import PROPS
from vmeta import META, NOT_APPLICABLE, ENGINES

V = os.path.dirname(os.path.dirname(os.path.abspath(__file__)))
checks = []
for pid in sorted(PROPS):
    m = META[pid]
    checks.append(dict(
        property_id=pid,
        quick_cmd="bin/check %s --tier quick" % pid,
        thorough_cmd="bin/check %s --tier thorough" % pid,
        evidence_file="/verif/evidence/%s.json" % pid,
        replay_cmd_template="bin/check %s --replay {path}" % pid,
        engine=m["engine"],
        level_claimed=dict(category="exploration", text=m["level_text"], design_ref=m["design_ref"]),
        level_note=m["level_note"],
        technique=m["technique"],
    ))
man = dict(
    version=1,
    setup_cmd="bin/setup",
    hooks=dict(guard="ROLLBEAR_TROMPELOEIL_VERIF", enable="none needed: no hook was added to rollbear/trompeloeil; checks compile /repo/include as it is (flags in lib/vbuild.py)",
               baseline_off_cmd="bin/baseline_off", source_commits=[], add_only=True),
    engines=ENGINES,
    checks=checks,
    not_applicable=[dict(property_id=k, reason=v) for k, v in sorted(NOT_APPLICABLE.items()) if k not in PROPS],
    notes="Property-based testing and fuzzing only. bin/check <id> runs saved replays first, then generated cases; VERIF_SEED/VERIF_TIER honoured. See DESIGN.md.",
)
json.dump(man, open(os.path.join(V, "MANIFEST.json"), "w"), indent=1)
print("wrote MANIFEST.json with", len(checks), "checks,", len(man["not_applicable"]), "not applicable")

"""Per-property job tables. A job = one engine binary + how to invoke it for generation and for replay."""
import os

FINDINGS_FILE = "known_findings.txt"

def rc_env(seed, cases, size):
    return {"RC_PARAMS": "seed=%d max_success=%d max_size=%d" % (seed, cases, size)}

# ---------------------------------------------------------------- engine W (world histories)
def w_job(target, quick, thorough, name="W"):
    """quick / thorough: list of (profile, cases, size[, shards])."""
    def instances(tier):
        out = []
        for spec in (quick if tier == "quick" else thorough):
            profile, cases, size = spec[0], spec[1], spec[2]
            shards = spec[3] if len(spec) > 3 else 1
            for s in range(shards):
                out.append(dict(label="%s#%d" % (profile, s), profile=profile, cases=cases, size=size))
        return out
    def cmd(exe, prop, tier, seed, inst, out, rundir, excluded):
        c = [exe, "--prop", prop, "--profile", inst["profile"], "--faildir", rundir, "--out", out, "--maxops", str(max(16, inst["size"]))]
        for k in excluded:
            c += ["--exclude-" + k]
        return c, rc_env(seed, inst["cases"], inst["size"])
    def replay(exe, prop, path):
        return [exe, "--prop", prop, "--replay", path, "--quiet"]
    return dict(name=name, engine_tag="W", target=target, instances=instances, cmd=cmd, replay=replay,
                timeout=dict(quick=900, thorough=5400))

def w_fuzz_job(profile, quick_runs, thorough_runs, workers_quick=4, workers_thorough=12):
    def instances(tier):
        n = workers_quick if tier == "quick" else workers_thorough
        return [dict(label="fuzz-%s#%d" % (profile, i), profile=profile, runs=quick_runs if tier == "quick" else thorough_runs, w=i) for i in range(n)]
    def cmd(exe, prop, tier, seed, inst, out, rundir, excluded):
        corp = os.path.join(rundir, "corpus%d" % inst["w"])
        os.makedirs(corp, exist_ok=True)
        seeds = os.path.join(os.path.dirname(os.path.dirname(os.path.abspath(__file__))), "corpus", "W")
        c = [exe, "-runs=%d" % inst["runs"], "-max_len=1041", "-len_control=0", "-seed=%d" % seed, "-print_final_stats=0",
             "-artifact_prefix=%s/fuzz%d-" % (rundir, inst["w"]), "-timeout=60", "-rss_limit_mb=4096", corp, seeds]
        return c, {"W_PROFILE": inst["profile"], "W_PROP": prop, "W_OUT": out, "W_FAILDIR": rundir}
    def replay(exe, prop, path):
        # replays are operation lists understood by the rapidcheck driver's --replay path
        import vbuild
        return [vbuild.build("w_rc"), "--prop", prop, "--replay", path, "--quiet"]
    return dict(name="W-libFuzzer", engine_tag="Wfuzz", target="w_fuzz", instances=instances, cmd=cmd, replay=replay,
                timeout=dict(quick=900, thorough=5400))

def w_enum_job(which, quick, thorough):
    """bounded exhaustive scope through the same interpreter/oracle. quick/thorough: (shards, extra args)"""
    def instances(tier):
        sh, extra = quick if tier == "quick" else thorough
        return [dict(label="enum-%s#%d" % (which, i), shard=i, nshards=sh, extra=extra) for i in range(sh)]
    def cmd(exe, prop, tier, seed, inst, out, rundir, excluded):
        return [exe, "--prop", prop, "--enum", which, "--shard", "%d/%d" % (inst["shard"], inst["nshards"]), "--faildir", rundir, "--out", out] + inst["extra"], {}
    def replay(exe, prop, path):
        return [exe, "--prop", prop, "--replay", path, "--quiet"]
    return dict(name="W-enum-" + which, engine_tag="Wenum", target="w_rc", instances=instances, cmd=cmd, replay=replay, timeout=dict(quick=900, thorough=5400))

def W(quick, thorough, gcc_thorough=None, fuzz=None, enum=None):
    jobs = [w_job("w_rc", quick, thorough)]
    if enum:
        jobs.append(w_enum_job(*enum))
    if fuzz:
        jobs.append(w_fuzz_job(*fuzz))
    if gcc_thorough:
        jobs.append(w_job("w_rc_gcc", [], gcc_thorough, name="W(g++)"))
    return jobs

W_RULE = ("engine W: rapidcheck generates vectors of 26-byte records; each record decodes (all indices modulo, nothing "
          "filtered, 75% of calls aimed at an earlier-created expectation) into one operation of the profile's alphabet "
          "{create/release expectation, call, move/destroy/recreate mock, destroy/move/recreate sequence, watch/unwatch, "
          "destroy/copy/move/assign deathwatched, push/pop tracer, swap reporter}; a generated teardown order follows. "
          "Every operation is applied to the real library and to an independent reference model and all observations "
          "(outcome, reports, OK reports, trace records, clause log, every is_satisfied/is_saturated/is_completed) are "
          "compared after every step. distinct = FNV-1a of the decoded operation list. ")
W_ASSUME = ["conforming reporter: throws on severity::fatal during a call, never throws otherwise",
            "report kinds are recognised by their leading words (Appendix B of DESIGN.md); wording beyond that is not compared",
            "behaviour of an expectation after its sequence object was destroyed is unspecified: such cases degrade to memory-safety-only"]

# ---------------------------------------------------------------- engine T (threads)
def t_job(target, mode, quick, thorough, name):
    """quick/thorough: (shards, programs, size, threads, extra args)"""
    def instances(tier):
        sh, n, size, th, extra = quick if tier == "quick" else thorough
        return [dict(label="%s#%d" % (mode, i), cases=n, size=size, threads=th, extra=extra) for i in range(sh)]
    def cmd(exe, prop, tier, seed, inst, out, rundir, excluded):
        c = [exe, "--prop", prop, "--mode", mode, "--threads", str(inst["threads"]), "--faildir", rundir, "--out", out] + inst["extra"]
        return c, rc_env(seed, inst["cases"], inst["size"])
    def replay(exe, prop, path):
        return [exe, "--prop", prop, "--replay", path, "--quiet"]
    return dict(name=name, engine_tag="T prop=C12 mode=" + ("A" if mode == "A" else "B"), target=target, instances=instances, cmd=cmd, replay=replay,
                timeout=dict(quick=900, thorough=5400), replay_timeout=600)

# ---------------------------------------------------------------- single-binary rapidcheck engines (M, R, S, Q, C8)
def rc_job(target, tag, quick, thorough, name=None, extra=()):
    """quick/thorough: (shards, cases, size)"""
    def instances(tier):
        sh, n, size = quick if tier == "quick" else thorough
        return [dict(label="%s#%d" % (tag, i), cases=n, size=size) for i in range(sh)]
    def cmd(exe, prop, tier, seed, inst, out, rundir, excluded):
        return [exe, "--prop", prop, "--faildir", rundir, "--out", out] + list(extra), rc_env(seed, inst["cases"], inst["size"])
    def replay(exe, prop, path):
        return [exe, "--prop", prop, "--replay", path, "--quiet"]
    return dict(name=name or tag, engine_tag=tag, target=target, instances=instances, cmd=cmd, replay=replay, timeout=dict(quick=900, thorough=5400))

Q = 6000
PROPS = {
    "C01": dict(jobs=W([("plain", Q, 50), ("all", Q, 50)], [("plain", 40000, 90, 6), ("all", 40000, 90, 6), ("overlap", 40000, 90, 4)], [("plain", 20000, 70, 2)], fuzz=("all", 4000, 120000)),
                rule=W_RULE + "non-trivial (C01): the history contains a call made after an expectation on that function was released or saturated, or on a moved mock, or rejected while a live expectation exists on the function.",
                assumptions=W_ASSUME),
    "C02": dict(jobs=W([("overlap", Q, 50), ("seq", Q, 50)], [("overlap", 40000, 90, 8), ("seq", 40000, 90, 6), ("all", 40000, 90, 2)], [("overlap", 20000, 70, 2)]),
                rule=W_RULE + "non-trivial (C02): some call has >= 2 matching live candidates (labels: tie on cost, newer blocked yields to older, multi-sequence handler, handler not newest).",
                assumptions=W_ASSUME),
    "C03": dict(jobs=W([("plain", Q, 50), ("overlap", Q, 50)], [("plain", 40000, 90, 8), ("overlap", 40000, 90, 8)], [("plain", 20000, 70, 2)], enum=("c03", (1, []), (1, []))),
                rule=W_RULE + "Plus the exhaustive C03 scope (all bounds x spellings x stackings x call counts). non-trivial (C03): is_satisfied/is_saturated of some expectation changes value at least once during the history (a bound is crossed).",
                assumptions=W_ASSUME),
    "C04": dict(jobs=W([("plain", Q, 50), ("teardown", Q, 50)], [("plain", 40000, 90, 8), ("teardown", 40000, 90, 8)], [("teardown", 20000, 70, 2)]),
                rule=W_RULE + "non-trivial (C04): an unsatisfied expectation whose mock died or was moved before its release, or that was named in an earlier report, reaches its end of life.",
                assumptions=W_ASSUME + ["an expectation named only in a sequence report may or may not report its shortfall later (accepted both ways)"]),
    "C05": dict(jobs=W([("seq", Q, 50), ("all", Q, 50)], [("seq", 40000, 90, 10), ("all", 40000, 90, 4), ("death", 40000, 90, 2)], [("seq", 20000, 70, 2)], fuzz=("seq", 4000, 120000), enum=("c05", (6, ["--N", "3", "--K", "1", "--len", "3"]), (16, ["--N", "3", "--K", "2", "--len", "5"]))),
                rule=W_RULE + "Plus the exhaustive small scope (N<=3 participants, K sequences, all memberships/bounds/strings). non-trivial (C05): some step is ineligible when attempted, or a handler passes over pending (optional/satisfied) predecessors.",
                assumptions=W_ASSUME),
    "C06": dict(jobs=W([("seq", Q, 50), ("teardown", Q, 50)], [("seq", 40000, 90, 8), ("teardown", 40000, 90, 8)], [("seq", 20000, 70, 2)], enum=("c05", (6, ["--N", "3", "--K", "1", "--len", "3"]), (16, ["--N", "3", "--K", "2", "--len", "4"]))),
                rule=W_RULE + "Plus the exhaustive small sequence scope shared with C05. non-trivial (C06): is_completed() changes value at least twice, or a sequence object is destroyed with >= 1 pending participant.",
                assumptions=W_ASSUME + ["a destruction monitor whose object died but that is not yet released may or may not be listed at sequence teardown"]),
    "C07": dict(jobs=W([("forbid", Q, 50), ("overlap", Q, 50)], [("forbid", 40000, 90, 10), ("overlap", 40000, 90, 6)], [("forbid", 20000, 70, 2)]),
                rule=W_RULE + "non-trivial (C07): a forbidding expectation is hit at least once and some other call is accepted in the same history.",
                assumptions=W_ASSUME),
    "C08": dict(jobs=W([("clauses", Q, 50), ("trace", Q, 50)], [("clauses", 40000, 90, 10), ("trace", 40000, 90, 6)], [("clauses", 20000, 70, 2)]),
                rule=W_RULE + "non-trivial (C08): >= 2 side-effect/return events or >= 2 WITH evaluations together with a multi-candidate, nested or throwing call.",
                assumptions=W_ASSUME),
    "C13": dict(jobs=W([("death", Q, 50), ("teardown", Q, 50)], [("death", 40000, 90, 10), ("teardown", 40000, 90, 6)], [("death", 20000, 70, 2)]),
                rule=W_RULE + "non-trivial (C13): >= 3 deathwatched events (watch, unwatch, destruction, copy/move/assign) in one history.",
                assumptions=W_ASSUME + ["at most one sequenced requirement per object at a time"]),
    "C14": dict(jobs=W([("teardown", Q, 50), ("all", Q, 50)], [("teardown", 40000, 90, 8), ("all", 40000, 90, 4), ("death", 40000, 90, 4)], [("teardown", 20000, 70, 2)], fuzz=("teardown", 4000, 120000)),
                rule=W_RULE + "oracle adds ASan/UBSan/LSan and TROMPELOEIL_SANITY_CHECKS asserts. non-trivial (C14): a call is made after some object another object refers to was destroyed, or on a moved mock.",
                assumptions=W_ASSUME + ["tracers are destroyed in LIFO order among themselves"]),
    "C15": dict(jobs=W([("all", Q, 50), ("overlap", Q, 50)], [("all", 40000, 90, 6), ("overlap", 40000, 90, 6), ("seq", 40000, 90, 4)], [("all", 20000, 70, 2)]),
                rule=W_RULE + "non-trivial (C15): a report lists >= 2 expectations, or its culprit is not the newest live expectation.",
                assumptions=W_ASSUME),
    "C16": dict(jobs=W([("plain", Q, 50), ("overlap", Q, 50)], [("plain", 40000, 90, 8), ("overlap", 40000, 90, 8)], [("overlap", 20000, 70, 2)]),
                rule=W_RULE + "non-trivial (C16): an accepted call handled by an expectation that is not the newest, or a rejected call with a live expectation, or a reporter swap in mid-history.",
                assumptions=W_ASSUME + ["OK reports of one operation are compared as a multiset (nested calls)"]),
    "C17": dict(jobs=W([("trace", Q, 50), ("clauses", Q, 50)], [("trace", 40000, 90, 10), ("clauses", 40000, 90, 6)], [("trace", 20000, 70, 2)]),
                rule=W_RULE + "non-trivial (C17): a call with >= 2 tracers alive, or a traced throwing call.",
                assumptions=W_ASSUME + ["whether a rejected call is traced is not asserted"]),
    "C12": dict(jobs=[t_job("t_tsan", "A", (4, 350, 40, 4, ["--reps", "3"]), (12, 4000, 60, 8, ["--reps", "4"]), "T-A(TSan)"),
                      t_job("t_asan", "B", (2, 3000, 40, 4, []), (8, 40000, 60, 8, []), "T-B(owned schedule)"),
                      t_job("t_asan", "E", (2, 25, 20, 3, ["--cap", "1500"]), (8, 150, 24, 3, ["--cap", "20000"]), "T-E(exhaustive schedules)"),
                      t_job("t_tsan_gcc", "A", (0, 0, 0, 0, []), (4, 2000, 60, 6, ["--reps", "3"]), "T-A(TSan,g++)")],
                rule="engine T: rapidcheck generates programs of 2..8 threads x 1..6 operations over shared mocks and sequences "
                     "(thread-owned expectations, monitors, private mocks) with a prologue; mode A runs them free under ThreadSanitizer with a "
                     "generated yield table, mode B under a generated schedule at critical-section granularity (custom recursive mutex parks threads), "
                     "mode E enumerates every lock-order schedule of tiny programs. Oracle: TSan silent; no lock leak; every observed result, report "
                     "and query value equals a sequential replay of the operations' events in lock (ticket) order. non-trivial = >= 2 threads touch the "
                     "same sequence or mock function and a multi-section operation is interleaved with another thread's critical section; distinct = FNV-1a(program, mode).",
                assumptions=["caller obligations (no destruction while another thread uses the object; no reporter installation during use) are respected by construction",
                             "liveness beyond lock-leak detection is not checked; a stuck run ends in the job time budget and is reported as inconclusive"]),
    "C18": dict(jobs=[rc_job("s_rc", "S", (2, 6000, 60), (12, 60000, 100)), rc_job("s_rc_gcc", "S", (0, 0, 0), (4, 30000, 100), name="S(g++)")],
                rule="engine S: rapidcheck picks one of 124 value types (scalars, strings, pointer-like and null-comparable values, opaque structs of 1..40 bytes, "
                     "types with printer<T> / operator<<, pairs, tuples, collections and C arrays nested to depth 3), a value decoded from a tape, a prior stream state "
                     "(base x fill x width x adjust x showbase x uppercase x boolalpha) and a mode (print / no-match report / expected value / trace / return); an independent "
                     "renderer gives the expected text and the restoration of flags, fill and width is checked directly and by a probe. Plus the exhaustive scope opaque<1..40> x "
                     "1152 states x 2 byte patterns. non-trivial = prior state differs from default in >= 2 dimensions, or value depth >= 2, or opaque size > 8 and not a multiple of 16; distinct by rendered case.",
                assumptions=["with a prior width > 0 the first token of a composite / a null may be padded and the width need not be restored there (property speaks of leaves and of streamable / hex-dumped values)",
                             "a setw() inside a user operator<< may pad on either side with blanks; after a user printer<T> only the text is asserted"]),
}
for _p in PROPS.values():
    _p.setdefault("parallel", dict(quick=8, thorough=16))

"""Per-property job tables. A job = one engine binary + how to invoke it for generation and for replay."""
import os

FINDINGS_FILE = "known_findings.txt"
_V = os.path.dirname(os.path.dirname(os.path.abspath(__file__)))

def replay_dir(prop):
    """scratch directory for files an engine writes while replaying (never the working directory)"""
    d = os.path.join(_V, "build", "run", prop + ".replay")
    os.makedirs(d, exist_ok=True)
    return d

def rc_env(seed, cases, size):
    return {"RC_PARAMS": "seed=%d max_success=%d max_size=%d" % (seed, cases, size)}

# ---------------------------------------------------------------- engine W (world histories)
def w_job(target, quick, thorough, name="W"):
    """quick / thorough: list of (profile, cases, size[, shards])."""
    def instances(tier):
        out = []
        for spec in (quick if tier == "quick" else thorough):
            profile, cases, size = spec[0], spec[1], spec[2]
            shards = spec[3] if len(spec) > 3 else 1
            for s in range(shards):
                out.append(dict(label="%s#%d" % (profile, s), profile=profile, cases=cases, size=size))
        # every other process makes one accepted call before the harness installs its reporters (see real::cold_start)
        for n, inst in enumerate(out):
            inst["cold"] = n % 2 == 1
        return out
    def cmd(exe, prop, tier, seed, inst, out, rundir, excluded):
        c = [exe, "--prop", prop, "--profile", inst["profile"], "--faildir", rundir, "--out", out, "--maxops", str(max(16, inst["size"]))]
        for k in excluded:
            c += ["--exclude-" + k]
        if inst.get("cold"):
            c += ["--coldcall"]
        return c, rc_env(seed, inst["cases"], inst["size"])
    def replay(exe, prop, path):
        return [exe, "--prop", prop, "--replay", path, "--quiet", "--faildir", replay_dir(prop)]
    return dict(name=name, engine_tag="W", target=target, instances=instances, cmd=cmd, replay=replay,
                timeout=dict(quick=900, thorough=5400))

def w_fuzz_job(profile, quick_runs, thorough_runs, workers_quick=4, workers_thorough=12):
    def instances(tier):
        n = workers_quick if tier == "quick" else workers_thorough
        return [dict(label="fuzz-%s#%d" % (profile, i), profile=profile, runs=quick_runs if tier == "quick" else thorough_runs, w=i) for i in range(n)]
    def cmd(exe, prop, tier, seed, inst, out, rundir, excluded):
        corp = os.path.join(rundir, "corpus%d" % inst["w"])
        os.makedirs(corp, exist_ok=True)
        seeds = os.path.join(os.path.dirname(os.path.dirname(os.path.abspath(__file__))), "corpus", "W")
        c = [exe, "-runs=%d" % inst["runs"], "-max_len=1041", "-len_control=0", "-seed=%d" % seed, "-print_final_stats=0",
             "-artifact_prefix=%s/fuzz%d-" % (rundir, inst["w"]), "-timeout=600", "-rss_limit_mb=4096", corp, seeds]
        return c, {"W_PROFILE": inst["profile"], "W_PROP": prop, "W_OUT": out, "W_FAILDIR": rundir, "W_COLD": "1" if inst["w"] % 2 else "0"}
    def replay(exe, prop, path):
        # replays are operation lists understood by the rapidcheck driver's --replay path
        import vbuild
        return [vbuild.build("w_rc"), "--prop", prop, "--replay", path, "--quiet", "--faildir", replay_dir(prop)]
    return dict(name="W-libFuzzer", engine_tag="Wfuzz", target="w_fuzz", instances=instances, cmd=cmd, replay=replay,
                timeout=dict(quick=900, thorough=5400))

def w_enum_job(which, quick, thorough):
    """bounded exhaustive scope through the same interpreter/oracle. quick/thorough: (shards, extra args)"""
    def instances(tier):
        sh, extra = quick if tier == "quick" else thorough
        return [dict(label="enum-%s#%d" % (which, i), shard=i, nshards=sh, extra=extra) for i in range(sh)]
    def cmd(exe, prop, tier, seed, inst, out, rundir, excluded):
        return [exe, "--prop", prop, "--enum", which, "--shard", "%d/%d" % (inst["shard"], inst["nshards"]), "--faildir", rundir, "--out", out] + inst["extra"], {}
    def replay(exe, prop, path):
        return [exe, "--prop", prop, "--replay", path, "--quiet", "--faildir", replay_dir(prop)]
    return dict(name="W-enum-" + which, engine_tag="Wenum", target="w_rc", instances=instances, cmd=cmd, replay=replay, timeout=dict(quick=900, thorough=5400))

def W(quick, thorough, gcc_thorough=None, fuzz=None, enum=None):
    jobs = [w_job("w_rc", quick, thorough)]
    if enum:
        jobs.append(w_enum_job(*enum))
    if fuzz:
        jobs.append(w_fuzz_job(*fuzz))
    if gcc_thorough:
        jobs.append(w_job("w_rc_gcc", [], gcc_thorough, name="W(g++)"))
    return jobs

W_RULE = ("engine W: rapidcheck generates vectors of 26-byte records; each record decodes (all indices modulo, nothing "
          "filtered, 75% of calls aimed at an earlier-created expectation) into one operation of the profile's alphabet "
          "{create/release expectation, call, move/destroy/recreate mock, destroy/move/recreate sequence, watch/unwatch, "
          "destroy/copy/move/assign deathwatched, push/pop tracer, swap reporter}; a generated teardown order follows. Object slot 1 is a "
          "non-movable mock class, the others movable; functions of arity 1, 2 and 12, const and overloaded; sequence objects are moved by "
          "construction, by assignment to a fresh and to a moved-from object; any operation may run inside a catch handler or during stack "
          "unwinding; side effects log, throw, call mocks recursively or construct a tracer. "
          "Every operation is applied to the real library and to an independent reference model and all observations "
          "(outcome, reports, OK reports, trace records, clause log, every is_satisfied/is_saturated/is_completed) are "
          "compared after every step. distinct = FNV-1a of the decoded operation list. ")
W_ASSUME = ["conforming reporter: throws on severity::fatal during a call, never throws otherwise",
            "report kinds are recognised by their leading words (Appendix B of DESIGN.md); wording beyond that is not compared",
            "behaviour of an expectation after its sequence object was destroyed is unspecified: such cases degrade to memory-safety-only"]

# ---------------------------------------------------------------- engine T (threads)
def t_job(target, mode, quick, thorough, name, prop_tag="C12"):
    """quick/thorough: (shards, programs, size, threads, extra args)"""
    def instances(tier):
        sh, n, size, th, extra = quick if tier == "quick" else thorough
        return [dict(label="%s#%d" % (mode, i), cases=n, size=size, threads=th, extra=extra) for i in range(sh)]
    def cmd(exe, prop, tier, seed, inst, out, rundir, excluded):
        c = [exe, "--prop", prop, "--mode", mode, "--threads", str(inst["threads"]), "--faildir", rundir, "--out", out] + inst["extra"]
        return c, rc_env(seed, inst["cases"], inst["size"])
    def replay(exe, prop, path):
        return [exe, "--prop", prop, "--replay", path, "--quiet", "--faildir", replay_dir(prop)]
    return dict(name=name, engine_tag="T prop=%s mode=" % prop_tag + ("A" if mode == "A" else "B"), target=target, instances=instances, cmd=cmd, replay=replay,
                timeout=dict(quick=900, thorough=5400), replay_timeout=600)

# ---------------------------------------------------------------- single-binary rapidcheck engines (M, R, S, Q, C8)
def rc_job(target, tag, quick, thorough, name=None, extra=()):
    """quick/thorough: (shards, cases, size)"""
    def instances(tier):
        sh, n, size = quick if tier == "quick" else thorough
        return [dict(label="%s#%d" % (tag, i), cases=n, size=size) for i in range(sh)]
    def cmd(exe, prop, tier, seed, inst, out, rundir, excluded):
        return [exe, "--prop", prop, "--faildir", rundir, "--out", out] + list(extra), rc_env(seed, inst["cases"], inst["size"])
    def replay(exe, prop, path):
        return [exe, "--prop", prop, "--replay", path, "--quiet", "--faildir", replay_dir(prop)]
    return dict(name=name or tag, engine_tag=tag, target=target, instances=instances, cmd=cmd, replay=replay, timeout=dict(quick=900, thorough=5400))

# ---------------------------------------------------------------- python engines (P, K): programs generated with Hypothesis, compilers as SUT
def py_job(script, tag, name, replay_only=False):
    H = os.path.join(os.path.dirname(os.path.dirname(os.path.abspath(__file__))), "harness")
    def instances(tier):
        return [dict(label=tag)]
    def cmd(exe, prop, tier, seed, inst, out, rundir, excluded):
        return ["python3-vt", os.path.join(H, script), "--prop", prop, "--tier", tier, "--seed", str(seed), "--out", out, "--faildir", rundir, "--quiet"], {}
    def replay(exe, prop, path):
        rundir = os.path.join(os.path.dirname(os.path.dirname(os.path.abspath(__file__))), "build", "run", prop + ".replay")
        os.makedirs(rundir, exist_ok=True)
        return ["python3-vt", os.path.join(H, script), "--prop", prop, "--replay", path, "--faildir", rundir, "--quiet"]
    return dict(name=name, engine_tag=tag, target=None, instances=(lambda tier: []) if replay_only else instances, cmd=cmd, replay=replay, timeout=dict(quick=1500, thorough=7200), replay_timeout=600)

Q = 6000
PROPS = {
    "C01": dict(jobs=W([("plain", Q, 50), ("all", Q, 50), ("seq", Q, 50)], [("plain", 40000, 90, 5), ("all", 40000, 90, 5), ("overlap", 40000, 90, 3), ("seq", 40000, 90, 3)], [("plain", 20000, 70, 2)], fuzz=("all", 4000, 120000)),
                rule=W_RULE + "non-trivial (C01): the history contains a call made after an expectation on that function was released or saturated, or on a moved mock, or rejected while a live expectation exists on the function.",
                assumptions=W_ASSUME),
    "C02": dict(jobs=W([("overlap", Q, 50), ("seq", Q, 50)], [("overlap", 40000, 90, 8), ("seq", 40000, 90, 6), ("all", 40000, 90, 2)], [("overlap", 20000, 70, 2)]),
                rule=W_RULE + "non-trivial (C02): some call has >= 2 matching live candidates (labels: tie on cost, newer blocked yields to older, multi-sequence handler, handler not newest).",
                assumptions=W_ASSUME),
    "C03": dict(jobs=W([("plain", Q, 50), ("overlap", Q, 50)], [("plain", 40000, 90, 8), ("overlap", 40000, 90, 8)], [("plain", 20000, 70, 2)], enum=("c03", (1, []), (1, []))),
                rule=W_RULE + "Plus the exhaustive C03 scope (all bounds x spellings x stackings x call counts). non-trivial (C03): is_satisfied/is_saturated of some expectation changes value at least once during the history (a bound is crossed).",
                assumptions=W_ASSUME),
    "C04": dict(jobs=W([("plain", Q, 50), ("teardown", Q, 50)], [("plain", 40000, 90, 8), ("teardown", 40000, 90, 8)], [("teardown", 20000, 70, 2)]),
                rule=W_RULE + "non-trivial (C04): an unsatisfied expectation whose mock died or was moved before its release, or that was named in an earlier report, reaches its end of life.",
                assumptions=W_ASSUME + ["an expectation named only in a sequence report may or may not report its shortfall later (accepted both ways)"]),
    "C05": dict(jobs=W([("seq", Q, 50), ("all", Q, 50)], [("seq", 40000, 90, 10), ("all", 40000, 90, 4), ("death", 40000, 90, 2)], [("seq", 20000, 70, 2)], fuzz=("seq", 4000, 120000), enum=("c05", (6, ["--N", "3", "--K", "1", "--len", "3", "--N2", "2", "--K2", "2", "--len2", "4"]), (16, ["--N", "3", "--K", "2", "--len", "5"]))),
                rule=W_RULE + "Plus the exhaustive small scope (N<=3 participants, K sequences, all memberships/bounds/strings). non-trivial (C05): some step is ineligible when attempted, or a handler passes over pending (optional/satisfied) predecessors.",
                assumptions=W_ASSUME),
    "C06": dict(jobs=W([("seq", Q, 50), ("teardown", Q, 50)], [("seq", 40000, 90, 8), ("teardown", 40000, 90, 8)], [("seq", 20000, 70, 2)], enum=("c05", (6, ["--N", "3", "--K", "1", "--len", "3", "--N2", "2", "--K2", "2", "--len2", "4"]), (16, ["--N", "3", "--K", "2", "--len", "4"]))),
                rule=W_RULE + "Plus the exhaustive small sequence scope shared with C05. non-trivial (C06): is_completed() changes value at least twice, or a sequence object is destroyed with >= 1 pending participant.",
                assumptions=W_ASSUME + ["a destruction monitor whose object died but that is not yet released may or may not be listed at sequence teardown"]),
    "C07": dict(jobs=W([("forbid", Q, 50), ("overlap", Q, 50)], [("forbid", 40000, 90, 10), ("overlap", 40000, 90, 6)], [("forbid", 20000, 70, 2)]),
                rule=W_RULE + "non-trivial (C07): a forbidding expectation is hit at least once and some other call is accepted in the same history.",
                assumptions=W_ASSUME),
    "C08": dict(jobs=W([("clauses", Q, 50), ("trace", Q, 50)], [("clauses", 40000, 90, 10), ("trace", 40000, 90, 6)], [("clauses", 20000, 70, 2)])
                     + [rc_job("c8_rc", "C8", (3, 8000, 60), (10, 50000, 100)), rc_job("c8_rc_gcc", "C8", (0, 0, 0), (4, 30000, 100), name="C8(g++)")],
                rule=W_RULE + "non-trivial (C08): >= 2 side-effect/return events or >= 2 WITH evaluations together with a multi-candidate, nested or throwing call. Engine C8 adds 108 literal expectation sites with 0-3 WITH x 0-3 SIDE_EFFECT clauses (plain and LR_), 6 clause orders and value / reference / pointer / by-value string and vector returns (RETURN of non-const lvalues must copy, not move); cases = 1-4 live expectations + 1-24 (nested) calls against a recursive interpreter.",
                assumptions=W_ASSUME),
    "C13": dict(jobs=W([("death", Q, 50), ("teardown", Q, 50)], [("death", 40000, 90, 10), ("teardown", 40000, 90, 6)], [("death", 20000, 70, 2)]),
                rule=W_RULE + "non-trivial (C13): >= 3 deathwatched events (watch, unwatch, destruction, copy/move/assign) in one history.",
                assumptions=W_ASSUME + ["at most one sequenced requirement per object at a time"]),
    "C14": dict(jobs=W([("teardown", Q, 50), ("all", Q, 50)], [("teardown", 40000, 90, 8), ("all", 40000, 90, 4), ("death", 40000, 90, 4)], [("teardown", 20000, 70, 2)], fuzz=("teardown", 4000, 120000)),
                rule=W_RULE + "oracle adds ASan/UBSan/LSan and TROMPELOEIL_SANITY_CHECKS asserts. non-trivial (C14): a call is made after some object another object refers to was destroyed, or on a moved mock.",
                assumptions=W_ASSUME + ["tracers are destroyed in LIFO order among themselves"]),
    "C15": dict(jobs=W([("all", Q, 50), ("overlap", Q, 50)], [("all", 40000, 90, 6), ("overlap", 40000, 90, 6), ("seq", 40000, 90, 4)], [("all", 20000, 70, 2)]),
                rule=W_RULE + "non-trivial (C15): a report lists >= 2 expectations, or its culprit is not the newest live expectation.",
                assumptions=W_ASSUME),
    "C16": dict(jobs=W([("plain", Q, 50), ("overlap", Q, 50)], [("plain", 40000, 90, 8), ("overlap", 40000, 90, 8)], [("overlap", 20000, 70, 2)]),
                rule=W_RULE + "non-trivial (C16): an accepted call handled by an expectation that is not the newest, or a rejected call with a live expectation, or a reporter swap in mid-history.",
                assumptions=W_ASSUME + ["OK reports of one operation are compared as a multiset (nested calls)"]),
    "C17": dict(jobs=W([("trace", Q, 50), ("clauses", Q, 50)], [("trace", 40000, 90, 10), ("clauses", 40000, 90, 6)], [("trace", 20000, 70, 2)])
                     + [t_job("t_asan", "B", (1, 2000, 40, 4, []), (4, 20000, 60, 8, []), "T-B(tracer across threads)", prop_tag="C17"),
                        t_job("t_tsan", "A", (1, 300, 40, 4, ["--reps", "2"]), (4, 3000, 60, 8, ["--reps", "3"]), "T-A(tracer across threads)", prop_tag="C17")],
                rule=W_RULE + "non-trivial (C17): a call with >= 2 tracers alive, or a traced throwing call. Engine T adds multi-threaded programs with a tracer installed by the main thread before the workers start: every accepted call of any thread must deliver exactly one record to it.",
                assumptions=W_ASSUME + ["whether a rejected call is traced is not asserted"]),
    "C12": dict(jobs=[t_job("t_tsan", "A", (4, 350, 40, 4, ["--reps", "3"]), (12, 4000, 60, 8, ["--reps", "4"]), "T-A(TSan)"),
                      t_job("t_asan", "B", (2, 3000, 40, 4, []), (8, 40000, 60, 8, []), "T-B(owned schedule)"),
                      t_job("t_asan", "E", (2, 25, 20, 3, ["--cap", "1500"]), (8, 150, 24, 3, ["--cap", "20000"]), "T-E(exhaustive schedules)"),
                      t_job("t_tsan_gcc", "A", (0, 0, 0, 0, []), (4, 2000, 60, 6, ["--reps", "3"]), "T-A(TSan,g++)"),
                      # the library's own std::recursive_mutex (no shim): ThreadSanitizer alone; the first program of each process starts
                      # its workers before the main thread has locked anything (many short processes rather than few long ones)
                      t_job("t_tsan_std", "A", (8, 60, 40, 4, ["--reps", "2"]), (16, 1500, 60, 8, ["--reps", "3"]), "T-A(TSan, library's own mutex)")],
                rule="engine T: rapidcheck generates programs of 2..8 threads x 1..6 operations over shared mocks and sequences "
                     "(thread-owned expectations, monitors, private mocks whose expectation may be published and released by another thread, shared "
                     "deathwatched objects whose requirements are registered and released by different threads) with a prologue; mode A runs them free under ThreadSanitizer with a "
                     "generated yield table, mode B under a generated schedule at critical-section granularity (custom recursive mutex parks threads), "
                     "mode E enumerates every lock-order schedule of tiny programs. Oracle: TSan silent; no lock leak; every observed result, report "
                     "and query value equals a sequential replay of the operations' events in lock (ticket) order. non-trivial = >= 2 threads touch the "
                     "same sequence or mock function and a multi-section operation is interleaved with another thread's critical section; distinct = FNV-1a(program, mode).",
                assumptions=["caller obligations (no destruction while another thread uses the object; no reporter installation during use) are respected by construction",
                             "liveness beyond lock-leak detection is not checked; a stuck run ends in the job time budget and is reported as inconclusive"]),
    "C18": dict(jobs=[rc_job("s_rc", "S", (2, 6000, 60), (12, 60000, 100)), rc_job("s_rc_gcc", "S", (0, 0, 0), (4, 30000, 100), name="S(g++)")],
                rule="engine S: rapidcheck picks one of 149 value types (scalars, strings, pointer-like and null-comparable values, opaque structs of 1..40 bytes, "
                     "types with printer<T> / operator<<, pairs, tuples, collections and C arrays nested to depth 3), a value decoded from a tape, a prior stream state "
                     "(base x fill x width x adjust x showbase x uppercase x boolalpha) and a mode (print / no-match report / expected value / trace / return); an independent "
                     "renderer gives the expected text and the restoration of flags, fill and width is checked directly and by a probe. Plus the exhaustive scope opaque<1..40> x "
                     "1152 states x 2 byte patterns. non-trivial = prior state differs from default in >= 2 dimensions, or value depth >= 2, or opaque size > 8 and not a multiple of 16; distinct by rendered case.",
                assumptions=["with a prior width > 0 the first token of a composite / a null may be padded and the width need not be restored there (property speaks of leaves and of streamable / hex-dumped values)",
                             "a setw() inside a user operator<< may pad on either side with blanks; after a user printer<T> only the text is asserted"]),
    "C10": dict(jobs=[rc_job("m_rc", "M", (3, 10000, 70), (12, 60000, 100)), rc_job("m_rc_gcc", "M", (0, 0, 0), (4, 30000, 100), name="M(g++)"), py_job("compile/k_engine.py", "K", "K(replay only)", replay_only=True)],
                rule="engine M: rapidcheck generates typed matcher trees of depth <= 4 over 11 parameter domains (int, int*, unique_ptr<int>, shared_ptr<int>, std::string, char const*, struct S, S*, int const*, and the user-defined pointer-likes Handle (implicitly constructible from nullptr, compared only Handle==Handle) and NHandle (nullptr_t comparisons, explicit operator bool), whose dereference while null is counted and is a disagreement by itself) built from the "
                     "library's own matchers and combinators (eq/ne/lt/le/gt/ge, _, ANY, !, *, any_of/all_of/none_of with 1-4 operands, MEMBER_IS, re with flags, plain values; duck-typed and explicitly typed) behind a "
                     "make_matcher wrapper; every tree is evaluated through param_matches on every value of its domain and compared with an independent evaluator; algebraic laws; named-lvalue laws (a matcher built from a named matcher leaves it unchanged); "
                     "relational laws on doubles with NaN and on a partial order; a sample goes through real mock calls. "
                     "Plus the exhaustive scope of all int trees of depth <= 2. non-trivial = depth >= 2 with a combinator and a relational leaf whose operand lies inside the domain; distinct by tree hash.",
                assumptions=["combinators with zero operands are not generated", "std::string operands on a char const* parameter only behind the documented null guards",
                             "MEMBER_IS operands are rvalues (an lvalue operand does not compile once used in an expectation: noted, outside C10's statement)"]),
    "C11": dict(jobs=[rc_job("r_rc", "R", (3, 20000, 70), (10, 60000, 100), extra=()), rc_job("r_rc", "R", (0, 0, 0), (1, 1000, 40), name="R(full scope)", extra=("--scope", "full", "--mode", "enum")),
                      rc_job("r_rc_gcc", "R", (0, 0, 0), (4, 30000, 100), name="R(g++)"), py_job("compile/k_engine.py", "K", "K(replay only)", replay_only=True)],
                rule="engine R: exhaustive small scope (every range over {1,2,3} up to length 4 x every element list up to length 3; thorough: 5 x 4) x 8 range matchers x element-list / container spellings x "
                     "{vector, init-list vector, list, deque, std::array, C array}, plus rapidcheck-generated longer ranges with overlapping element matchers; oracle = multiset / prefix / suffix / quantifier semantics and a "
                     "nondeterministic first-fit simulation (asserted only when every choice path agrees); named containers are used for two matchers. non-trivial = duplicate in range or list, length mismatch by one, or an empty side.",
                assumptions=["overlapping element matchers whose answer depends on the first-fit order are skipped (documented as 'may or may not match')",
                             "range_is_permutation with a single non-range element is not generated (does not compile: noted as a compile-time observation, see DESIGN.md 9)"]),
    "C20": dict(jobs=[rc_job("q_rc", "Q", (3, 8000, 70), (12, 40000, 100)), rc_job("q_rc_gcc", "Q", (0, 0, 0), (4, 20000, 100), name="Q(g++)"), py_job("compile/k_engine.py", "K", "K(replay only)", replay_only=True)],
                rule="engine Q (C++20): 124 expectation sites over own task<T> / gen<Y,R> coroutine types (eager and lazy): 0-4 CO_YIELD / LR_CO_YIELD, CO_RETURN value / void / throwing, CO_THROW, SIDE_EFFECT, matchers, TIMES, "
                     "RT_TIMES, IN_SEQUENCE; a case = site + data + 1-3 calls (+ optional second sequenced expectation) + a generated interleaving of resume steps; oracle: matched / counted / sequence-checked / side effects at "
                     "call time, then exactly the yields in order, then return / completion / exception at the resume point, per coroutine object; the locals "
                     "named by plain clauses are overwritten after the expectation is written, those named by LR_ clauses get their values only then. non-trivial = >= 2 yields and >= 2 coroutine objects of one expectation resumed interleaved, or a throwing completion.",
                assumptions=["clauses that can run after the call returned name _N only for reference parameters bound to caller-owned objects that outlive the coroutine (dangling by-value parameters are the caller's lifetime problem)",
                             "the expectation outlives the coroutine's evaluation of its clauses"]),
    "C09": dict(jobs=[py_job("params/p_engine.py", "P", "P(generated programs)")],
                rule="engine P: Hypothesis generates translation units of 6-12 mock functions with arity 0..15 and an independently drawn passing mode per position (int, int&, int const&, int&&, int*, Tr by value/&/const&/&&, "
                     "unique_ptr by value/&&), const / overloaded / IMPLEMENT_MOCK over a generated interface, void / int / T& returns; the oracle lives in the generated clauses and driver (address identity, caller-visible writes, copy/move "
                     "counters, positional tags, RETURN(_k) aliasing, plain-vs-LR_ capture); the four declaration macros of every arity 0..15 occur in "
                     "every quick run; each TU is compiled with ASan/UBSan and run. evaluations = functions checked; non-trivial = arity >= 2 with >= 2 passing modes; distinct by (arity, modes, kind, return).",
                assumptions=["a generated TU that does not compile is a harness error, not a violation", "compilers: clang++ c++17 (quick); g++/clang++ x c++14/17/20 (thorough)"],
                parallel=dict(quick=1, thorough=1)),
    "C19": dict(jobs=[py_job("compile/k_engine.py", "K", "K(compilers as SUT)")],
                rule="engine K: (a) the 68 shipped compilation_errors/*.cpp with their own pass regex and exception rules; (b) macro namespace dump of every public header with TROMPELOEIL_LONG_MACROS (every macro defined by the "
                     "library must start with TROMPELOEIL_) and presence of every documented short macro without it; (c) Hypothesis-generated programs = signature kind x macro family x clause sequence (<= 6, any order): legal ones must compile "
                     "with g++ and clang++ at C++14/17/20, single-fault ones must fail with the documented message of the violated rule row (45 rows), multi-fault ones with one of the applicable messages; "
                     "deterministic groups: ordered legal clause pairs, macro family x {short, long, _V} spellings, double call-limit misuse, MAKE_[CONST_]MOCKn arity 0..15. non-trivial = >= 2 clauses; distinct by (signature, family, clause sequence) / cell.",
                assumptions=["only the documented message substring is matched", "generated programs are compiled against a precompiled header built from the tree under test; a sample and every disagreement are rechecked without it"],
                parallel=dict(quick=1, thorough=1)),
}
for _p in PROPS.values():
    _p.setdefault("parallel", dict(quick=8, thorough=16))
